"""C08 — tagged data is exactly the samples inside the tagged region (nixio/tag.py, nixio/multi_tag.py).

Case format (one JSON object; shared by the model driver, the implementation runner, the corpus and the oracle):

  {"k": "tag" | "mtag", "op": "tagged" | "feature",
   "shape": [n, ...], "dims": [dim, ...],         the referenced array (op=tagged) / the feature's array (op=feature)
   "pos": ..., "ext": ..., "units": ["ms", ...],  the tag
   "stop": "Exclusive" | "Inclusive",
   "nrefs": n, "refidx": i,                       op = tagged
   "nfeats": n, "link": "tagged" | "untagged" | "indexed",   op = feature (the selected feature is the last one)
   "idx": i}                                      k = mtag: position index
  dim  ::= ["sampled", off|null, si, unit|null] | ["range", [tick, ...], unit|null] | ["set", nlabels]
  tag:  "pos": [x, ...], "ext": [x, ...]   ([] = nothing stored)
  mtag: "pos": {"r": 1, "v": [x, ...]} | {"r": 2, "c": ncols, "v": [[x, ...], ...]},  "ext": null | the same

Addressing (optional): without "addr" the reference `refidx` / the last feature is taken by its index.
   "addr": {"by": "idx", "i": i}                          an int (negative: from the end)
         | {"by": "name" | "id" | "object", "of": j}      the name / id / entity object of reference j   (op = tagged)
         | {"by": "fid" | "dname" | "did" | "object", "of": j}   feature j's id, its data array's name / id, the Feature
         | {"by": "text", "s": s}                         a text that names nothing
         | {"by": "absent-id"}                            a well-formed id of nothing
         | {"by": "float"}                                1.0
   "churn": true        op = tagged: the case's array is first linked in front, later removed and linked again at `refidx`
   "flist": [[link, on_case_array], ...]   op = feature: the features in creation order (others are on dummy arrays)
 the reference list is: the case's array at position `refidx`, dummy arrays (shape [4], unlabelled set dimension)
 elsewhere.  With "addr" the outcome carries "on": "T" (the case's array) or "D<m>" (dummy m).

   "via": "default" | "retrieve"   (optional, only with stop = Exclusive) the call is made without a stop rule /
                                   through the deprecated retrieve_data / retrieve_feature_data wrapper

Numbers that are floats in Python travel as the exact rational "num/den" of the double.
Outcome (both sides): {"ok": {"valid": true, "window": [[a, b], ...], "read": "window"}}  — a valid view whose
`[:]` equals NumPy's `data[a:b, ...]` on an in-memory copy; {"ok": {"valid": false, "read": "empty"}}; {"err": class}.
"""
import os
from fractions import Fraction

from ..lib import core
from ..lib.core import Failure, Disagreement
from . import c07 as _c07

PROP = "C08"
LEAN_MODULE = "NixModel.Props.C08"
THEOREMS = [
    "Nix.C08.C08_generated_decisions",
    "Nix.C08.C08_source_shape",
    "Nix.C08.C08_default_stop_rule",
    "Nix.C08.C08_units",
    "Nix.C08.C08_axis",
    "Nix.C08.C08_region_shape",
    "Nix.C08.C08_region",
    "Nix.C08.C08_region_refused",
    "Nix.C08.C08_tag_refusals",
    "Nix.C08.C08_row_selection",
    "Nix.C08.C08_region_multi",
    "Nix.C08.C08_feature_tag",
    "Nix.C08.C08_feature_multi",
    "Nix.C08.C08_zero_extent",
    "Nix.C08.C08_no_position_whole",
    "Nix.C08.C08_units_short_refused",
    "Nix.C08.C08_reference_lookup",
    "Nix.C08.C08_tagged_by_key",
    "Nix.C08.C08_region_by_key",
    "Nix.C08.C08_feature_lookup",
    "Nix.C08.C08_feature_by_key",
    "Nix.C08.C08_axis_off_band",
    "Nix.C08.C08_region_off_band",
    "Nix.C08.C08_region_multi_off_band",
    "Nix.C08.C08_axis_on_samples",
    "Nix.C08.C08_axis_full_counterexample",
    "Nix.C08.C08_equal_coordinates",
    "Nix.C08.C08_point_on_ticks",
    "Nix.C08.C08_region_equal_coordinates",
    "Nix.C08.C08_runs_taken_whole",
]
ASSUMPTIONS = [
    "floats are modelled as exact rationals (DESIGN section 5): the unit factor is the exact power of ten, positions "
    "and extents the exact values of the stored doubles; on inputs whose float path is exact the implementation must "
    "agree exactly, otherwise unless the model's answer changes on the float-path positions or a C07 decision margin "
    "is below 2^-40 (marginal cases are counted in the evidence)",
    "the region theorems carry AxesOK: per axis with a position the tag unit converts to the dimension's unit "
    "(UnitRel: C09 table atoms), sampling interval > 0, ticks ascending, and both end points of the scaled region are "
    "on a sample or outside the np.isclose band of every sample (C07's Separated; nothing for range dimensions); one "
    "descriptor per array axis (other descriptor counts are modelled and compared but outside the theorems)",
    "a result is a view (validity + window); that a valid window reads parent[window] is C06/C01 (the correspondence "
    "and the oracle compare view[:] with NumPy on an in-memory copy)",
    "Tag.feature_data with link type 'indexed' returns the whole array (a tag has one position; documented, as the "
    "code comment says); a negative extent on a range/set dimension raises a plain IndexError, which the property's "
    "'out-of-bounds error' is read to include (OutOfBounds is a subclass of IndexError)",
    "references and features are lists in creation order of (id, name, array) / (id, data id, data name, link type, "
    "array); a key is an int (negative: from the end), a text with CPython's is_uuid verdict attached, or 'another "
    "object'; that h5py iterates links in creation order and get_by_pos uses the creation-order index is checked by the "
    "correspondence on real files (including removal and re-append); negative *position* indices of a multi-tag and "
    "DataFrame features are outside the model",
    "OffBandAt (C08_axis_off_band / C08_region_off_band) covers end points up to 10^11 samples from the first one "
    "either way: the range in which the generated np.isclose band stays below half a sample",
    "the decisions and check orders of tag.py / multi_tag.py stated by C08_generated_decisions, C08_source_shape and "
    "C08_default_stop_rule are re-rendered from the source by harness/extract/tagshape.py on every run; a source the "
    "translator does not recognise is a broken tie (large oracle budget), not by itself a violation",
]
TRUSTED_EXTRA = ["harness/extract/tagshape.py (ast translator of tag.py / multi_tag.py -> Generated/TagShape.lean)",
                 "models imported from C07 (Pure/Dim.lean + Generated/Tolerances.lean), C09 (Pure/Units.lean + "
                 "Generated/UnitsTables.lean) and C06 (Pure/DataView.lean): their translators and correspondences"]


def extract(repo):
    """C08 depends on the tables of C07 (tolerances, end modes) and C09 (units): regenerate both; its own translator
    renders the decisions and the order of checks of tag.py / multi_tag.py (Generated/TagShape.lean)"""
    from ..extract import dims as _dims, units as _units, tagshape as _tagshape
    files = {}
    files.update(_dims.extract(repo))
    files.update(_units.extract(repo))
    files.update(_tagshape.extract(repo))
    return files

fs, F, fl, is_double = _c07.fs, _c07.F, _c07.fl, _c07.is_double
ffloor, fceil = _c07.ffloor, _c07.fceil
EPS = Fraction(1, 2 ** 40)
REF_RTOL = Fraction(1e-12)
REF_ATOL = Fraction(1e-8)

# the oracle's own SI tables (literal, independent of nixio.util.units and of the generated Lean tables)
SI_EXP = {"Y": 24, "Z": 21, "E": 18, "P": 15, "T": 12, "G": 9, "M": 6, "k": 3, "h": 2, "da": 1, "": 0,
          "d": -1, "c": -2, "m": -3, "u": -6, "n": -9, "p": -12, "f": -15, "a": -18, "z": -21, "y": -24}
PREFS = list(SI_EXP)
SI_UNITS = ["m", "g", "s", "A", "K", "mol", "cd", "Hz", "N", "Pa", "J", "W", "C", "V", "F", "S", "Wb", "T", "H", "lm",
            "lx", "Bq", "Gy", "Sv", "kat", "l", "L", "Ohm", "%", "dB", "rad"]
BASES = ["s", "V", "Hz", "A", "m", "g", "Pa", "mol", "Ohm", "N"]
STOPS = ["Exclusive", "Inclusive"]
LINKS = ["tagged", "indexed", "untagged"]


def parse_unit(u):
    """(prefix, base) when the string is prefix + SI unit in exactly one way, else None (no powers, no compounds)"""
    cands = [(p, u[len(p):]) for p in PREFS if u.startswith(p) and u[len(p):] in SI_UNITS]
    return cands[0] if len(cands) == 1 else None


def float_scaling(tp, dp):
    """the arithmetic of units.scaling on doubles, with this module's own table"""
    if tp == dp:
        return 1.0
    if not dp and tp:
        return float("1e%d" % SI_EXP[tp])
    if not tp and dp:
        return 1.0 / float("1e%d" % SI_EXP[dp])
    return float("1e%d" % SI_EXP[tp]) / float("1e%d" % SI_EXP[dp])


# ---------------------------------------------------------------------------------------
# implementation runner: real nixio tags, multi-tags, features and arrays in one real HDF5 file


def errname(e):
    from nixio.exceptions import OutOfBounds, IncompatibleDimensions, InvalidUnit
    for cls, nm in ((OutOfBounds, "OutOfBounds"), (IncompatibleDimensions, "IncompatibleDimensions"),
                    (InvalidUnit, "InvalidUnit"), (IndexError, "IndexError"), (KeyError, "KeyError"),
                    (ValueError, "ValueError"), (TypeError, "TypeError"), (AttributeError, "AttributeError"),
                    (RuntimeError, "RuntimeError"), (ArithmeticError, "ArithmeticError")):
        if isinstance(e, cls):
            return nm
    return type(e).__name__


def _strip_units(dims):
    out = []
    for d in dims:
        if d[0] == "sampled":
            out.append(d[:3])
        elif d[0] == "range":
            out.append(d[:2])
        else:
            out.append(d)
    return out


def _dim_unit(d):
    if d[0] == "sampled":
        return d[3]
    if d[0] == "range":
        return d[2]
    return None


class Impl:
    def __init__(self, ctx, tag="impl"):
        import numpy as np
        import nixio
        self.np = np
        self.nix = nixio
        self.ctx = ctx
        self.path = ctx.tmpfile("c08-%s-%d.nix" % (tag, os.getpid()))
        self.f = nixio.File.open(self.path, nixio.FileMode.Overwrite)
        self.blk = self.f.create_block("b", "t")
        self.arrs = {}
        self.holders = {}
        self.hinfo = {}
        self.posarrs = {}
        self.n = 0
        self.calls = 0
        self.dummies = []
        for j in range(3):
            d = self.blk.create_data_array("dummy%d" % j, "t", data=np.arange(4.0) + 100 * j)
            d.append_set_dimension()
            self.dummies.append(d)
        self.dummy_base = [np.arange(4.0) + 100 * j for j in range(3)]

    def close(self):
        try:
            self.f.close()
        except Exception:
            pass

    def fresh(self, p):
        self.n += 1
        return "%s%d" % (p, self.n)

    def array(self, shape, dims):
        np = self.np
        key = core.canon([shape, _strip_units(dims)])
        ent = self.arrs.get(key)
        if ent is None:
            size = 1
            for s in shape:
                size *= s
            base = (np.arange(size, dtype=float) * 1.5 + 7.0).reshape(shape)
            da = self.blk.create_data_array(self.fresh("a"), "t", data=base)
            for d in dims:
                if d[0] == "sampled":
                    da.append_sampled_dimension(fl(d[2]), offset=None if d[1] is None else fl(d[1]))
                elif d[0] == "range":
                    da.append_range_dimension([fl(t) for t in d[1]])
                else:
                    if d[1] == 0:
                        da.append_set_dimension()
                    else:
                        da.append_set_dimension(["l%d" % i for i in range(d[1])])
            ent = {"da": da, "base": base, "units": [None] * len(dims), "key": key}
            self.arrs[key] = ent
        for i, d in enumerate(dims):
            u = _dim_unit(d)
            if d[0] != "set" and ent["units"][i] != u:
                ent["da"].dimensions[i].unit = u
                ent["units"][i] = u
        return ent

    def posarr(self, spec):
        """a positions / extents DataArray for {"r": 1|2, ...}"""
        np = self.np
        key = core.canon(spec)
        da = self.posarrs.get(key)
        if da is None:
            if spec["r"] == 1:
                data = np.array([fl(x) for x in spec["v"]], dtype=float)
            else:
                data = np.array([[fl(x) for x in row] for row in spec["v"]], dtype=float).reshape(
                    (len(spec["v"]), spec["c"]))
            da = self.blk.create_data_array(self.fresh("p"), "t", data=data)
            da.append_set_dimension()
            self.posarrs[key] = da
        return da

    def holder(self, case, ent):
        """the Tag / MultiTag carrying the references / features the case asks for"""
        k, op = case["k"], case["op"]
        key = [ent["key"], k, op, case.get("nrefs"), case.get("refidx"), case.get("nfeats"), case.get("link"),
               case.get("churn"), case.get("flist")]
        if k == "mtag":
            key += [core.canon(case["pos"]), core.canon(case["ext"])]
        key = core.canon(key)
        h = self.holders.get(key)
        if h is not None:
            return h, self.hinfo[key]
        if k == "tag":
            h = self.blk.create_tag(self.fresh("t"), "t", [0.0])
        else:
            h = self.blk.create_multi_tag(self.fresh("m"), "t", self.posarr(case["pos"]))
            if case["ext"] is not None:
                h.extents = self.posarr(case["ext"])
        info = {"arrays": [], "feats": []}
        if op == "tagged":
            nrefs, refidx = case["nrefs"], case["refidx"]
            churn = bool(case.get("churn")) and refidx < nrefs
            if churn:
                h.references.append(ent["da"])
            dj = 0
            for j in range(nrefs):
                if j == refidx:
                    if churn:
                        del h.references[ent["da"].name]
                    h.references.append(ent["da"])
                    info["arrays"].append(ent["da"])
                else:
                    h.references.append(self.dummies[dj])
                    info["arrays"].append(self.dummies[dj])
                    dj += 1
        else:
            for j, (lk, on) in enumerate(feature_list(case)):
                arr = ent["da"] if on else self.dummies[j % 3]
                info["feats"].append(h.create_feature(arr, lk))
                info["arrays"].append(arr)
        self.holders[key] = h
        self.hinfo[key] = info
        return h, info

    def pykey(self, case, info):
        """the Python object the case addresses the reference / feature with"""
        a = case["addr"]
        by = a["by"]
        if by == "idx":
            return a["i"]
        if by == "text":
            return a["s"]
        if by == "absent-id":
            return "01234567-89ab-4def-8123-456789abcdef"
        if by == "float":
            return 1.0
        j = a["of"]
        if case["op"] == "tagged":
            arr = info["arrays"][j]
            return {"name": arr.name, "id": arr.id, "object": arr}[by]
        f = info["feats"][j]
        return {"fid": f.id, "dname": info["arrays"][j].name, "did": info["arrays"][j].id, "object": f}[by]

    def run(self, case):
        np = self.np
        self.calls += 1
        try:
            ent = self.array(case["shape"], case["dims"])
            h, info = self.holder(case, ent)
            addressed = "addr" in case
            if addressed:
                pk = self.pykey(case, info)
            elif case["op"] == "tagged":
                pk = case["refidx"]
            else:
                pk = max(case["nfeats"] - 1, 0)
        except Exception as e:
            return {"bad": "setup failed: %s: %s" % (type(e).__name__, str(e)[:120])}
        stop = getattr(self.nix.SliceMode, case["stop"])
        try:
            # (re)write only what differs from what this holder carries already
            if case["k"] == "tag":
                if info.get("pos") != case["pos"]:
                    info["pos"] = None
                    h.position = [fl(x) for x in case["pos"]]
                    info["pos"] = list(case["pos"])
                if info.get("ext") != case["ext"]:
                    info["ext"] = None
                    h.extent = [fl(x) for x in case["ext"]]
                    info["ext"] = list(case["ext"])
            if info.get("units") != case["units"]:
                info["units"] = None
                h.units = list(case["units"])
                info["units"] = list(case["units"])
        except Exception as e:
            return {"bad": "tag setup failed: %s: %s" % (type(e).__name__, str(e)[:120])}
        try:
            via = case.get("via")
            args = (pk,) if case["k"] == "tag" else (case["idx"], pk)
            if via == "retrieve":
                import warnings
                with warnings.catch_warnings():
                    warnings.simplefilter("ignore")
                    v = (h.retrieve_data if case["op"] == "tagged" else h.retrieve_feature_data)(*args)
            elif via == "default":
                v = (h.tagged_data if case["op"] == "tagged" else h.feature_data)(*args)
            else:
                v = (h.tagged_data if case["op"] == "tagged" else h.feature_data)(*args, stop)
            valid = bool(v.valid)
            data = np.asarray(v[:])
        except Exception as e:
            return {"err": errname(e)}
        # which array the view is on
        label, base = "T", ent["base"]
        if addressed:
            nm = v.array.name
            if nm != ent["da"].name:
                label, base = "?", None
                for m, d in enumerate(self.dummies):
                    if d.name == nm:
                        label, base = "D%d" % m, self.dummy_base[m]
        extra = {"on": label} if addressed else {}
        if not valid:
            return {"ok": dict({"valid": False, "read": "empty" if data.size == 0 else "DATA(%s)" % (data.shape,)},
                               **extra)}
        win = [[int(s.start), int(s.stop)] for s in v._slices]
        try:
            want = base[tuple(slice(a, b) for a, b in win)]
            same = want.shape == data.shape and bool(np.array_equal(want, data))
        except Exception:
            same = False
        return {"ok": dict({"valid": True, "window": win, "read": "window" if same else "OTHER-DATA"}, **extra)}


def model_out(m, case=None):
    """driver output in the outcome schema"""
    if "ok" not in m:
        return m
    extra = {}
    if case is not None and "addr" in case:
        k = m["ok"].get("on")
        labels = array_labels(case)
        extra = {"on": labels[k] if isinstance(k, int) and 0 <= k < len(labels) else "?"}
    if m["ok"]["valid"]:
        return {"ok": dict({"valid": True, "window": m["ok"]["window"], "read": "window"}, **extra)}
    return {"ok": dict({"valid": False, "read": "empty"}, **extra)}


def feature_list(case):
    """[(link, on the case's array)] in creation order"""
    fl = case.get("flist")
    if fl is not None:
        return [tuple(x) for x in fl]
    nf = case["nfeats"]
    return [("untagged", False)] * max(nf - 1, 0) + ([(case["link"], True)] if nf > 0 else [])


def array_labels(case):
    """per reference / feature position: "T" (the case's array) or "D<m>" (dummy m)"""
    if case["op"] == "tagged":
        out, dj = [], 0
        for j in range(case["nrefs"]):
            if j == case["refidx"]:
                out.append("T")
            else:
                out.append("D%d" % dj)
                dj += 1
        return out
    return ["T" if on else "D%d" % (j % 3) for j, (_, on) in enumerate(feature_list(case))]


def to_model(case):
    """the driver's form of a case: keys, ids and names made canonical (ids "i<label>", names "n<label>",
    feature ids "f<j>"); `is_uuid` is true exactly for ids"""
    if "addr" not in case:
        return case
    c = {k: v for k, v in case.items() if k not in ("addr", "churn", "flist")}
    labels = array_labels(case)
    a = case["addr"]
    by = a["by"]
    if by == "idx":
        key = ["idx", a["i"]]
    elif by == "text":
        key = ["text", a["s"], False]
    elif by == "absent-id":
        key = ["text", "iNOTHING", True]
    elif by in ("float", "object"):
        key = ["other"]
    elif by == "name" or by == "dname":
        key = ["text", "n" + labels[a["of"]], False]
    elif by == "id" or by == "did":
        key = ["text", "i" + labels[a["of"]], True]
    elif by == "fid":
        key = ["text", "f%d" % a["of"], True]
    else:
        raise ValueError("addr: " + by)
    c["key"] = key
    if case["op"] == "tagged":
        c["refs"] = [["i" + l, "n" + l] for l in labels]
    else:
        c["feats"] = [["f%d" % j, "i" + labels[j], "n" + labels[j], lk, bool(on)]
                      for j, (lk, on) in enumerate(feature_list(case))]
    return c


DUMMY_SHAPE, DUMMY_DIMS = [4], [["set", 0]]


def designate(case):
    """what an addressed case asks for, by the property: ("ok", index-addressed equivalent on the designated array,
    label) | ("refuse", why) | ("skip", why)"""
    a = case["addr"]
    by = a["by"]
    labels = array_labels(case)
    n = len(labels)
    if n == 0:
        return ("refuse", "nothing to address")
    if by == "idx":
        i = a["i"]
        if 0 <= i < n:
            j = i
        elif -n <= i < 0:
            j = n + i
        else:
            return ("refuse", "index outside the list")
    elif by in ("text", "absent-id", "float"):
        return ("refuse", "the key designates nothing")
    elif by == "object":
        return ("skip", "an entity object as key: the property does not say")
    elif by in ("dname", "did"):
        cands = [j for j in range(n) if labels[j] == labels[a["of"]]]
        fl = feature_list(case)
        if len({fl[j][0] for j in cands}) > 1:
            return ("skip", "several features with different link types on the addressed array")
        j = cands[0]
    else:
        j = a["of"]
    c = {k: v for k, v in case.items() if k not in ("addr", "churn", "flist")}
    if labels[j] != "T":
        c["shape"], c["dims"] = DUMMY_SHAPE, DUMMY_DIMS
    if case["op"] == "tagged":
        c["refidx"] = j
    else:
        c["link"] = feature_list(case)[j][0]
        c["nfeats"] = n
    return ("ok", c, labels[j])


# ---------------------------------------------------------------------------------------
# per-axis view of a case (used by the classification and by the oracle)


def tag_rows(case):
    """(position row, extent row) selected by the case, or None when the index selects nothing"""
    if case["k"] == "tag":
        return list(case["pos"]), list(case["ext"])
    p, e, i = case["pos"], case["ext"], case["idx"]

    def rows(spec):
        return [[x] for x in spec["v"]] if spec["r"] == 1 else [list(r) for r in spec["v"]]
    pr = rows(p)
    if i >= len(pr):
        return None
    er = []
    if e is not None and len(e["v"]) > 0:
        rr = rows(e)
        if i >= len(rr):
            return None
        er = rr[i]
    return pr[i], er


def axis_units(case, d):
    """('none') no scaling applies; ('scale', tp, dp) ; ('incompatible',) ; ('unknown',) """
    dims, units = case["dims"], case["units"]
    dim = dims[d]
    if not units:
        return ("none",)
    if d >= len(units):
        return ("incompatible",)
    u = units[d]
    if dim[0] == "set":
        return ("none",) if (not u or u == "none") else ("incompatible",)
    du = _dim_unit(dim)
    if du is None:
        return ("incompatible",)
    a, b = parse_unit(u), parse_unit(du)
    if a is None or b is None:
        return ("unknown",)
    if a[1] != b[1]:
        return ("incompatible",)
    return ("scale", a[0], b[0])


def axis_regions(case):
    """per axis with a position: dict(exact=(S, E), flt=(s~, e~), mode, ext_sign) in the dimension's unit;
    None for an axis taken whole.  Returns None when a unit problem / unknown unit makes the region undefined."""
    rows = tag_rows(case)
    if rows is None:
        return None
    pos, ext = rows
    out = []
    for d in range(len(case["dims"])):
        if d >= len(pos):
            out.append(None)
            continue
        au = axis_units(case, d)
        if au[0] in ("incompatible", "unknown"):
            return None
        P = F(pos[d])
        if au[0] == "scale":
            sc = Fraction(10) ** (SI_EXP[au[1]] - SI_EXP[au[2]])
            scf = float_scaling(au[1], au[2])
        else:
            sc, scf = Fraction(1), 1.0
        S = P * sc
        sf = fl(pos[d]) * scf
        if d < len(ext):
            X = F(ext[d])
            E = X * sc + S
            ef = fl(ext[d])
            ef *= scf
            ef += sf
            mode = case["stop"] if X > 0 else "Inclusive"
            sign = (X > 0) - (X < 0)
        else:
            E, ef, mode, sign = S, sf, "Inclusive", 0
        out.append({"exact": (S, E), "flt": (Fraction(sf), Fraction(ef)), "mode": mode, "sign": sign})
    return out


def prescaled(case, regs, which="flt"):
    """the unit-less variant of a case whose start/stop positions are given numbers (model-side margin test only:
    any rational is a legal model input); kind, operation and link type are kept"""
    c = dict(case)
    pos, ext = [], []
    any_ext = len(tag_rows(case)[1]) > 0
    for r in regs:
        if r is None:
            break
        s, e = r[which]
        pos.append(fs(s))
        if any_ext:
            ext.append(fs(e - s))
    # positions beyond the number of dimensions are never read
    c["units"] = []
    if case["k"] == "tag":
        c["pos"], c["ext"] = pos, ext
    else:
        c["pos"] = {"r": 2, "c": len(pos), "v": [pos]}
        c["ext"] = {"r": 2, "c": len(ext), "v": [ext]} if any_ext else None
        c["idx"] = 0
    return c


def classify(case):
    """'exact' (every float operation on the path is exact), 'float' (needs the model-side margin test) or
    'plain' (no float subtlety: refusals decided before any arithmetic).  An addressed case is classified on the
    array (and with the link type) its key designates."""
    if "addr" in case:
        d = designate(case)
        if d[0] != "ok":
            # an entity object / ambiguous data name: classify on whichever the code may pick (all candidates share
            # the array); a key that designates nothing: no arithmetic
            if d[0] == "skip" and case["addr"]["by"] in ("dname", "did"):
                labels = array_labels(case)
                j = [k for k in range(len(labels)) if labels[k] == labels[case["addr"]["of"]]][0]
                c = {k: v for k, v in case.items() if k not in ("addr", "churn", "flist")}
                if labels[j] != "T":
                    c["shape"], c["dims"] = DUMMY_SHAPE, DUMMY_DIMS
                c["link"], c["nfeats"] = "tagged", len(labels)
                return classify(c)
            return "plain", None
        return classify(d[1])
    if case["op"] == "feature" and case["link"] != "tagged":
        return "plain", None
    regs = axis_regions(case)
    if regs is None or all(r is None for r in regs):
        return "plain", None
    exact = True
    for d, r in enumerate(regs):
        if r is None:
            continue
        if r["exact"] != r["flt"]:
            exact = False
        if (r["sign"] > 0 and r["flt"][1] <= r["flt"][0]) or (r["sign"] < 0 and r["flt"][1] >= r["flt"][0]):
            return "marginal", regs
        dim = case["dims"][d]
        s, e = r["flt"]
        if dim[0] == "sampled":
            if F(dim[2]) <= 0:
                continue
            a = _c07.classify_sampled_index(dim[1], dim[2], fs(s), "GEQ")
            b = _c07.classify_sampled_index(dim[1], dim[2], fs(e), "Less" if r["mode"] == "Exclusive" else "LEQ")
            if "marginal" in (a, b):
                return "marginal", regs
            if a != "exact" or b != "exact":
                exact = False
        elif dim[0] == "set":
            if "marginal" in (_c07.classify_set_index(dim[1], fs(s)), _c07.classify_set_index(dim[1], fs(e))):
                return "marginal", regs
    return ("exact" if exact else "float"), regs


# ---------------------------------------------------------------------------------------
# generators (every random choice from ctx.rng)

DELTAS = [Fraction(0)] * 6 + [Fraction(1, 2), Fraction(-1, 2), Fraction(1, 4), Fraction(-1, 4), Fraction(3, 4),
                              Fraction(1, 2 ** 10), Fraction(-1, 2 ** 10), Fraction(1, 2 ** 20), Fraction(-1, 2 ** 20),
                              Fraction(1, 2 ** 30), Fraction(-1, 2 ** 30), Fraction(3, 8)]
SIS = [Fraction(1), Fraction(1, 2), Fraction(2), Fraction(1, 4), Fraction(3, 4), Fraction(5, 2), Fraction(1, 8),
       Fraction(3), Fraction(1, 1024), Fraction(10)]
OFFS = [None, None, Fraction(0), Fraction(-5), Fraction(3), Fraction(-1, 2), Fraction(1, 4), Fraction(7, 8),
        Fraction(100), Fraction(-3, 1024)]
STEPS = [Fraction(1), Fraction(1, 2), Fraction(1, 4), Fraction(3), Fraction(3, 4), Fraction(5, 4), Fraction(2)]


def to_double(fr):
    """nearest double of an exact rational, as a Fraction"""
    return Fraction(fr.numerator / fr.denominator)


def pick_prefixes(rng, kmode):
    if kmode == "same":
        p = rng.choice(PREFS)
        return p, p
    if kmode == "up":                                   # tag prefix >= dimension prefix, small exponent: exact path
        while True:
            tp, dp = rng.choice(PREFS), rng.choice(PREFS)
            if 0 <= SI_EXP[tp] - SI_EXP[dp] <= 6:
                return tp, dp
    return rng.choice(PREFS), rng.choice(PREFS)


def gen_axis(rng, n, kmode, tagunits):
    """one axis in *tag units*: descriptor parameters and the prefix pair (tp: tag, dp: dimension).
    `tagunits`: the tag will carry units (then every sampled / range axis gets a unit)"""
    kind = rng.choice(["sampled"] * 9 + ["range"] * 6 + ["set"] * 5)
    ax = {"kind": kind, "n": n, "tp": None, "dp": None, "base": None}
    if kind == "set":
        r = rng.random()
        ax["nl"] = n if r < 0.7 else (0 if r < 0.85 else rng.choice([max(n - 1, 1), n + 2]))
        return ax
    if kind == "sampled":
        ax["si"] = rng.choice(SIS)
        ax["off"] = rng.choice(OFFS)
    else:
        r = rng.random()
        m = n if r < 0.8 else (n + rng.choice([1, 3]) if r < 0.92 else max(n - 1, 1))
        t = rng.choice([Fraction(0), Fraction(-3), Fraction(3, 2), Fraction(10), Fraction(-1, 4)])
        ticks = []
        for _ in range(m):
            ticks.append(t)
            t = t + rng.choice(STEPS + [Fraction(0)] if rng.random() < 0.12 else STEPS)
        if m >= 2 and rng.random() < 0.3:
            # repeated-tick stratum: a run of 2-3 equal ticks at the start, inside or at the end of the axis
            ln = min(rng.choice([2, 2, 3]), m)
            a = rng.choice([0, m - ln, rng.randint(0, m - ln)])
            for j in range(a + 1, a + ln):
                ticks[j] = ticks[a]
            ax["runs"] = [(i, j) for i, j, _ in _runs(ticks[:n])]
        ax["ticks"] = ticks
    if tagunits:
        ax["base"] = rng.choice(BASES)
        ax["tp"], ax["dp"] = pick_prefixes(rng, kmode)
    elif rng.random() < 0.5:
        ax["base"] = rng.choice(BASES)                   # the dimension has a unit, the tag has none: scale 1
        ax["tp"] = ax["dp"] = rng.choice(PREFS)
    return ax


def axis_coord(ax, i):
    """coordinate of sample i in tag units (clamped into the descriptor for ticks)"""
    if ax["kind"] == "sampled":
        return (ax["off"] or Fraction(0)) + i * ax["si"]
    if ax["kind"] == "range":
        t = ax["ticks"]
        if i < 0:
            return t[0] + i * Fraction(1, 2)
        if i >= len(t):
            return t[-1] + (i - len(t) + 1) * Fraction(1, 2)
        return t[i]
    return Fraction(i)


def axis_step(ax, k):
    if ax["kind"] == "sampled":
        return ax["si"]
    if ax["kind"] == "range":
        t = ax["ticks"]
        j = min(max(k, 0), len(t) - 1)
        if j + 1 < len(t) and t[j + 1] > t[j]:
            return t[j + 1] - t[j]
        return Fraction(1, 2)
    return Fraction(1)


def gen_region(rng, ax):
    """(position, extent) on one axis in tag units; extent None = no entry"""
    n = ax["n"]
    if ax.get("runs") and rng.random() < 0.6:
        return gen_region_on_run(rng, ax)
    k = rng.choice([0, 0, 1, n - 1, n - 1, n, n + 1, -1, rng.randint(0, max(n - 1, 0)), rng.randint(0, max(n - 1, 0))])
    step = axis_step(ax, k)
    p = axis_coord(ax, k) + rng.choice(DELTAS) * step
    r = rng.random()
    if r < 0.25:
        e = Fraction(0)
    elif r < 0.6:
        m = rng.choice([1, 1, 2, 3, n, rng.randint(1, max(n, 1))])
        e = axis_coord(ax, k + m) - axis_coord(ax, k) + rng.choice([Fraction(0)] * 3 + DELTAS) * step
    elif r < 0.75:
        e = rng.choice([Fraction(1, 2), Fraction(1, 4), Fraction(3, 2), Fraction(5, 2)]) * step
    elif r < 0.85:
        e = (axis_coord(ax, n + 2) - axis_coord(ax, k)) + step
    elif r < 0.92:
        e = rng.choice([Fraction(1, 2 ** 20), Fraction(1, 2 ** 30)]) * step
    else:
        e = -rng.choice([Fraction(1), Fraction(1, 2)]) * step
    return p, e


def gen_region_on_run(rng, ax):
    """a region of an irregular axis with a run of equal ticks whose position or end lies exactly on the repeated
    value (or a hair / half a step beside it)"""
    a, b = rng.choice(ax["runs"])
    t = ax["ticks"]
    v = t[a]
    r = rng.random()
    if r < 0.3:                                                          # a point on the run
        return v, Fraction(0)
    if r < 0.7:                                                          # the end on the run
        k = rng.randint(0, a)
        p = t[k] if k < a else v - rng.choice([Fraction(1, 2), Fraction(1, 4), Fraction(0)])
        if rng.random() < 0.25:
            p -= rng.choice([Fraction(1, 4), Fraction(1, 2)])
        return p, v - p
    if r < 0.9:                                                          # the start on the run
        k = rng.randint(b, len(t) - 1)
        e = t[k] - v if k > b else rng.choice([Fraction(1, 4), Fraction(1, 2), Fraction(1, 2 ** 20)])
        return v, e + rng.choice([Fraction(0), Fraction(0), Fraction(1, 4)])
    d = rng.choice([Fraction(1, 4), Fraction(1, 2 ** 20)])               # the run strictly inside a small region
    return v - d, 2 * d


def scale_of(ax):
    if ax.get("base") is None:
        return Fraction(1)
    return Fraction(10) ** (SI_EXP[ax["tp"]] - SI_EXP[ax["dp"]])


def axis_dim(ax):
    """the descriptor in the dimension's unit, numbers rounded to doubles"""
    sc = scale_of(ax)
    du = None if ax.get("base") is None else ax["dp"] + ax["base"]
    if ax["kind"] == "sampled":
        off = None if ax["off"] is None else fs(to_double(ax["off"] * sc))
        return ["sampled", off, fs(to_double(ax["si"] * sc)), du]
    if ax["kind"] == "range":
        return ["range", [fs(to_double(t * sc)) for t in ax["ticks"]], du]
    return ["set", ax["nl"]]


def gen_flist(rng, link):
    """a feature list holding the case's feature (its link type, on the case's array) somewhere"""
    m = rng.choice([1, 2, 2, 3, 4])
    fl = [[rng.choice(LINKS), rng.random() < 0.4] for _ in range(m)]
    at = rng.randrange(m)
    fl[at] = [link, True]
    return fl, at


def gen_addr(rng, c, at=None):
    """address the reference / feature of a case by name, id, (negative) index, or by something that names nothing"""
    r = rng.random()
    if c["op"] == "tagged":
        n = c["nrefs"]
        if n == 0 or c["refidx"] >= n:
            return
        j = rng.randrange(n) if rng.random() < 0.3 else c["refidx"]
        if r < 0.27:
            c["addr"] = {"by": "name", "of": j}
        elif r < 0.54:
            c["addr"] = {"by": "id", "of": j}
        elif r < 0.76:
            c["addr"] = {"by": "idx", "i": rng.choice([j - n, j - n, j - n, j, -n - 1, n, n + 2])}
        elif r < 0.84:
            c["addr"] = {"by": "text", "s": rng.choice(["no such array", "dummy9", ""])}
        elif r < 0.9:
            c["addr"] = {"by": "absent-id"}
        elif r < 0.95:
            c["addr"] = {"by": "object", "of": j}
        else:
            c["addr"] = {"by": "float"}
        return
    fl = feature_list(c)
    n = len(fl)
    if n == 0:
        return
    j = rng.randrange(n) if (at is None or rng.random() < 0.3) else at
    if r < 0.2:
        c["addr"] = {"by": "fid", "of": j}
    elif r < 0.42:
        c["addr"] = {"by": "dname", "of": j}
    elif r < 0.6:
        c["addr"] = {"by": "did", "of": j}
    elif r < 0.8:
        c["addr"] = {"by": "idx", "i": rng.choice([j - n, j - n, j, j, -n - 1, n, n + 2])}
    elif r < 0.87:
        c["addr"] = {"by": "text", "s": rng.choice(["no such array", "dummy9"])}
    elif r < 0.92:
        c["addr"] = {"by": "absent-id"}
    elif r < 0.96:
        c["addr"] = {"by": "object", "of": j}
    else:
        c["addr"] = {"by": "float"}


def gen_scenario(rng, kmode=None):
    """an array + units + a handful of regions; returns a list of cases"""
    rank = rng.choice([1, 1, 1, 2, 2, 3])
    shape = [rng.choice([1, 2, 3, 4, 5, 6, 8] if rank < 3 else [1, 2, 3, 4]) for _ in range(rank)]
    kmode = kmode or rng.choice(["same", "same", "up", "up", "any"])
    style = rng.choice(["nounits"] * 5 + ["units"] * 13 + ["bad"] * 2)
    axes = [gen_axis(rng, n, kmode, style != "nounits") for n in shape]
    if style == "units" and rng.random() < 0.3:
        # stratum "shared tag unit" (seed C08-r8: a scaling factor remembered per tag-unit text): two axes carry the
        # SAME tag unit while their dimensions' units differ in prefix, so each axis needs its own factor
        real = [ax for ax in axes if ax["kind"] != "set"]
        if len(real) >= 2:
            first = real[0]
            for ax in real[1:]:
                ax["base"], ax["tp"] = first["base"], first["tp"]
                others = [q for q in PREFS if q != first["dp"] and
                          (kmode == "any" or 0 <= SI_EXP[ax["tp"]] - SI_EXP[q] <= 6)]
                if others:
                    ax["dp"] = rng.choice(others)
    units = []
    if style != "nounits":
        for ax in axes:
            units.append(rng.choice(["none", "none", ""]) if ax["kind"] == "set" else ax["tp"] + ax["base"])
        if all(u == "" for u in units):
            units[0] = "none"
        if rng.random() < 0.1:
            units.append("mV")                                        # more units than axes: never read
    dims = [axis_dim(ax) for ax in axes]
    plen = rng.choice([rank] * 6 + [max(rank - 1, 0), rank + 1, 0] if rank > 1 else [1] * 6 + [0, 2])
    if style == "bad":
        d = rng.randrange(rank)
        how = rng.choice(["nodimunit", "otherbase", "short", "setunit"])
        if how == "short":
            if plen >= 2:
                units = units[:plen - 1]
            else:
                how = "otherbase"
        if how == "setunit":
            sets = [i for i, ax in enumerate(axes) if ax["kind"] == "set"]
            if sets:
                units[rng.choice(sets)] = rng.choice(["mV", "s", "None"])
            else:
                how = "otherbase"
        if how == "nodimunit":
            if axes[d]["kind"] != "set":
                dims[d][-1] = None
            else:
                how = "otherbase"
        if how == "otherbase":
            if axes[d]["kind"] != "set":
                b2 = rng.choice([b for b in BASES if b != axes[d]["base"]])
                units[d] = rng.choice(PREFS) + b2
            else:
                units[d] = "mV"
    if units and style == "units":
        r = rng.random()
        if r < 0.08 and min(plen, rank) >= 2:
            units = units[:min(plen, rank) - 1]                          # fewer units than positions: refused
        elif r < 0.14 and plen < rank:
            units = units[:max(plen, 1)]                                 # as many units as positions (< rank): fine
    nrows = rng.choice([4, 6, 8])
    rows = []
    for _ in range(nrows):
        pr, er = [], []
        for d in range(plen):
            ax = axes[d] if d < rank else axes[-1]
            p, e = gen_region(rng, ax)
            pr.append(fs(to_double(p)))
            er.append(fs(to_double(e)))
        rows.append((pr, er))
    cases = []
    base = {"shape": shape, "dims": dims, "units": units}
    feat = rng.random() < 0.3
    addressed = rng.random() < 0.35
    # --- Tag cases
    ext_style = rng.choice(["full"] * 5 + ["none", "short"])
    for pr, er in rows[: rng.choice([2, 3, 4])]:
        if ext_style == "none":
            ext = []
        elif ext_style == "short" and len(er) > 1:
            ext = er[:-1]
        else:
            ext = er
        for stop in STOPS:
            c = dict(base, k="tag", pos=pr, ext=ext, stop=stop)
            if feat:
                c.update(op="feature", nfeats=rng.choice([1, 2, 0] if rng.random() < 0.1 else [1, 2]),
                         link=rng.choice(LINKS))
            else:
                nrefs = rng.choice([1, 1, 1, 2, 3, 4])
                c.update(op="tagged", nrefs=nrefs, refidx=rng.randrange(nrefs))
                if rng.random() < 0.02:
                    c.update(nrefs=rng.choice([0, 1]), refidx=rng.choice([1, 2]))
            if stop == "Exclusive" and rng.random() < 0.12:
                c["via"] = rng.choice(["default", "retrieve"])
            if addressed:
                at = None
                if c["op"] == "feature" and c["nfeats"] > 0 and rng.random() < 0.7:
                    c["flist"], at = gen_flist(rng, c["link"])
                    c["nfeats"] = len(c["flist"])
                elif c["op"] == "tagged" and rng.random() < 0.4:
                    c["churn"] = True
                gen_addr(rng, c, at)
            cases.append(c)
    # --- MultiTag cases: one positions array holding all rows
    if plen >= 1:
        one_d = plen == 1 and rng.random() < 0.6

        def arr(sel, rws, width=plen):
            if one_d:
                return {"r": 1, "v": [sel(x)[0] for x in rws]}
            return {"r": 2, "c": width, "v": [sel(x) for x in rws]}
        pos = arr(lambda x: x[0], rows)
        r = rng.random()
        if r < 0.2:
            ext = None
        elif r < 0.85:
            ext = arr(lambda x: x[1], rows)
        elif r < 0.9:
            ext = arr(lambda x: x[1], [])                               # zero-length: falsy
        elif r < 0.95:
            ext = arr(lambda x: x[1], rows[:-2])                        # fewer rows
        elif r < 0.975 and plen == 1:
            # 1-D positions with (n, 1) extents or the other way round: the shapes differ
            ext = {"r": 2, "c": 1, "v": [er for _, er in rows]} if one_d else {"r": 1, "v": [er[0] for _, er in rows]}
        else:
            ext = {"r": 2, "c": plen + 1, "v": [er + ["0/1"] for _, er in rows]}      # other width / rank
        link = rng.choice(LINKS)
        nfeats = rng.choice([1, 2])
        nrefs = rng.choice([1, 1, 2, 3])
        refidx = rng.randrange(nrefs)
        if rng.random() < 0.02:
            refidx = nrefs
        flist, at, churn = None, None, False
        if addressed:
            if feat and rng.random() < 0.7:
                flist, at = gen_flist(rng, link)
                nfeats = len(flist)
            churn = (not feat) and rng.random() < 0.4
        for i in list(range(nrows)) + [nrows, nrows + 3]:
            for stop in (STOPS if i < nrows else [rng.choice(STOPS)]):
                c = dict(base, k="mtag", pos=pos, ext=ext, stop=stop, idx=i)
                if feat:
                    c.update(op="feature", nfeats=nfeats, link=link)
                    if flist is not None:
                        c["flist"] = flist
                else:
                    c.update(op="tagged", nrefs=nrefs, refidx=refidx)
                    if churn:
                        c["churn"] = True
                if addressed:
                    gen_addr(rng, c, at)
                if stop == "Exclusive" and rng.random() < 0.12:
                    c["via"] = rng.choice(["default", "retrieve"])
                cases.append(c)
        if feat and link == "indexed":
            for i in [shape[0] - 1, shape[0], shape[0] + 1]:
                if i >= nrows:
                    cases.append(dict(base, k="mtag", pos=pos, ext=ext, stop="Exclusive", idx=i, op="feature",
                                      nfeats=nfeats, link=link))
    return cases


def gen_prefix_sweep(rng):
    """all 21 x 21 prefix pairs on one base unit for one 1-D case (region expressed in the tag's unit)"""
    kind = rng.choice(["sampled", "range", "sampled2"])
    n = rng.choice([6, 8, 10])
    base = rng.choice(BASES)
    ax = {"kind": "sampled" if kind != "range" else "range", "n": n, "base": base}
    if ax["kind"] == "sampled":
        ax["si"] = rng.choice([Fraction(1), Fraction(1, 2), Fraction(5, 2), Fraction(1, 4)])
        ax["off"] = rng.choice([None, Fraction(3), Fraction(-1, 2)])
    else:
        t, ticks = Fraction(1), []
        for _ in range(n):
            ticks.append(t)
            t += rng.choice(STEPS)
        ax["ticks"] = ticks
    k = rng.randint(0, n - 3)
    p = axis_coord(ax, k) + rng.choice([Fraction(0), Fraction(1, 4), Fraction(-1, 4)]) * axis_step(ax, k)
    e = axis_coord(ax, k + 2) - axis_coord(ax, k) + rng.choice([Fraction(0), Fraction(1, 8)]) * axis_step(ax, k)
    stop = rng.choice(STOPS)
    twod = kind == "sampled2"
    cases = []
    for tp in PREFS:
        for dp in PREFS:
            ax["tp"], ax["dp"] = tp, dp
            dims = [axis_dim(ax)]
            shape = [n]
            units = [tp + base]
            pos, ext = [fs(to_double(p))], [fs(to_double(e))]
            if twod:
                dims.append(["set", 3])
                shape.append(3)
                units.append("none")
                pos.append("1/1")
                ext.append("1/1")
            cases.append({"k": "tag", "op": "tagged", "shape": shape, "dims": dims, "pos": pos, "ext": ext,
                          "units": units, "stop": stop, "nrefs": 1, "refidx": 0})
    return cases


def gen_long(rng):
    """a long regularly sampled (or unlabelled set) axis: region boundaries between two samples at large indices,
    where a tolerance or a precision that grows with the index would decide wrongly"""
    n = rng.choice([60000, 90000, 120000])
    kind = rng.choice(["sampled", "sampled", "sampled", "set"])
    ax = {"kind": kind, "n": n, "tp": None, "dp": None, "base": None}
    if kind == "sampled":
        ax["si"] = rng.choice([Fraction(1), Fraction(1, 2), Fraction(1, 20), Fraction(1, 20000), Fraction(1, 1024)])
        ax["off"] = rng.choice([None, Fraction(3), Fraction(-1, 2)])
        if rng.random() < 0.5:
            ax["base"] = rng.choice(BASES)
            ax["tp"], ax["dp"] = rng.choice([("", ""), ("m", "m"), ("", "m"), ("k", "")])
    else:
        ax["nl"] = 0
    dims = [axis_dim(ax)]
    units = [] if ax["base"] is None else [ax["tp"] + ax["base"]]
    rows = []
    for _ in range(8):
        k = rng.randint(n // 6, n - 30)
        f = rng.choice([Fraction(0), Fraction(1, 10), Fraction(1, 4), Fraction(2, 5), Fraction(1, 2), Fraction(3, 5),
                        Fraction(9, 10)])
        g = rng.choice([Fraction(0), Fraction(1, 10), Fraction(2, 5), Fraction(1, 2), Fraction(3, 5), Fraction(9, 10)])
        m = rng.choice([0, 1, 5, 10, 12])
        step = axis_step(ax, k)
        p = axis_coord(ax, k) + f * step
        e = (m + g - f) * step if m > 0 else rng.choice([Fraction(0), g * step])
        rows.append(([fs(to_double(p))], [fs(to_double(max(e, Fraction(0))))]))
    cases = []
    base = {"shape": [n], "dims": dims, "units": units}
    pos = {"r": 2, "c": 1, "v": [r[0] for r in rows]}
    ext = {"r": 2, "c": 1, "v": [r[1] for r in rows]}
    for i, (pr, er) in enumerate(rows):
        for stop in STOPS:
            cases.append(dict(base, k="tag", op="tagged", pos=pr, ext=er, stop=stop, nrefs=1, refidx=0))
            cases.append(dict(base, k="mtag", op="tagged", pos=pos, ext=ext, stop=stop, idx=i, nrefs=1, refidx=0))
    return cases


def gen_malformed(rng):
    """outside the property: descriptor count != rank, negative interval, unsorted ticks (through no API check)"""
    out = []
    for _ in range(3):
        rank = rng.choice([1, 2])
        shape = [rng.choice([2, 3, 4]) for _ in range(rank)]
        nd = rng.choice([max(rank - 1, 0), rank + 1])
        dims = [rng.choice([["sampled", None, "1/1", None], ["set", 0], ["range", ["0/1", "1/1", "2/1", "3/1"], None]])
                for _ in range(nd)]
        plen = rng.choice([0, 1, nd, nd + 1])
        pos = [fs(float(rng.choice([0, 1, 2]))) for _ in range(plen)]
        ext = rng.choice([[], [fs(1.0)] * plen])
        for k in ("tag", "mtag"):
            c = {"k": k, "op": rng.choice(["tagged", "feature"]), "shape": shape, "dims": dims, "units": [],
                 "stop": rng.choice(STOPS), "nrefs": 1, "refidx": 0, "nfeats": 1, "link": "tagged"}
            if k == "tag":
                c.update(pos=pos, ext=ext)
            else:
                if plen == 0:
                    continue
                c.update(pos={"r": 2, "c": plen, "v": [pos, pos]},
                         ext=None if not ext else {"r": 2, "c": plen, "v": [ext, ext]}, idx=rng.choice([0, 1]))
            out.append(c)
    out.append({"k": "tag", "op": "tagged", "shape": [5], "dims": [["sampled", None, "-1/1", None]],
                "pos": [fs(-2.0)], "ext": [fs(1.0)], "units": [], "stop": "Exclusive", "nrefs": 1, "refidx": 0})
    return out


def gen_cases(ctx, n_scen, n_sweeps):
    rng = ctx.rng
    cases = repeated_tick_cases()
    tags = ["repeated-ticks"] * len(cases)
    for _ in range(n_scen):
        for c in gen_scenario(rng):
            cases.append(c)
            tags.append("%s.%s" % (c["k"], c["op"]))
    for _ in range(n_sweeps):
        for c in gen_prefix_sweep(rng):
            cases.append(c)
            tags.append("prefix-sweep")
    for _ in range(max(n_scen // 25, 2)):
        for c in gen_malformed(rng):
            cases.append(c)
            tags.append("malformed")
    for _ in range(max(n_scen // 400, 1)):
        for c in gen_long(rng):
            cases.append(c)
            tags.append("long-axis")
    return cases, tags


# ---------------------------------------------------------------------------------------
# correspondence


def _bump(d, k):
    d[k] = d.get(k, 0) + 1


def _outcome_tag(o):
    if "err" in o:
        return "err:" + o["err"]
    if "bad" in o:
        return "bad"
    return "valid" if o["ok"]["valid"] else "invalid-empty"


def correspondence(ctx):
    gen, tags = gen_cases(ctx, ctx.budget(150, 1500), ctx.budget(2, 12))
    corpus = core.load_corpus(PROP)
    cases = corpus + gen
    tags = ["corpus"] * len(corpus) + tags
    cls = [classify(c) for c in cases]
    mouts = [model_out(m, c) for m, c in zip(core.run_driver(PROP, [to_model(c) for c in cases]), cases)]
    # margin test (float class): the unit-less variant carrying the float-path positions must give the same answer
    need = [k for k, (cl, _) in enumerate(cls)
            if cl == "float" and ("ok" in mouts[k] or mouts[k].get("err") in REFUSALS_INDEX)]
    m2 = core.run_driver(PROP, [to_model(prescaled(cases[k], cls[k][1])) for k in need]) if need else []
    alt = {k: model_out(m, cases[k]) for k, m in zip(need, m2)}
    impl = Impl(ctx, "corr")
    disagreements = []
    seen = set()
    dist = {"ops": {}, "class": {}, "impl_outcome": {}, "rank": {}, "dim_kinds": {}, "link": {}, "stop": {}, "via": {},
            "scale_exponent": {}, "positions": {}, "addressed_by": {}, "units_vs_positions": {}, "extent": {}}
    compared = 0
    marginal_differ = 0
    try:
        for k, c in enumerate(cases):
            cl, regs = cls[k]
            m = mouts[k]
            if cl == "float":
                cl = "separated" if (k not in alt or alt[k] == m) else "marginal"
            elif cl == "marginal" and not ("ok" in m or m.get("err") in REFUSALS_INDEX):
                cl = "plain"
            i = impl.run(c)
            _bump(dist["ops"], tags[k])
            _bump(dist["class"], cl)
            _bump(dist["impl_outcome"], _outcome_tag(i))
            _bump(dist["rank"], str(len(c["shape"])))
            _bump(dist["dim_kinds"], "+".join(d[0] for d in c["dims"]))
            _bump(dist["stop"], c["stop"])
            _bump(dist["via"], c.get("via", "explicit stop rule"))
            if c["op"] == "feature":
                _bump(dist["link"], c["link"])
            if c["k"] == "mtag":
                _bump(dist["positions"], "%d-D" % c["pos"]["r"])
            _bump(dist["addressed_by"], c["addr"]["by"] + (".churn" if c.get("churn") else "") if "addr" in c
                  else "index")
            rows_ = tag_rows(c)
            if rows_ is not None:
                np_, nu_ = min(len(rows_[0]), len(c["dims"])), len(c["units"])
                _bump(dist["units_vs_positions"], "no units" if nu_ == 0 else
                      ("fewer" if nu_ < np_ else ("equal" if nu_ == np_ else "more")))
                _bump(dist["extent"], "none" if not rows_[1] else
                      ("all zero" if all(F(x) == 0 for x in rows_[1]) else
                       ("shorter" if len(rows_[1]) < len(rows_[0]) else "full")))
            for d in range(len(c["dims"])):
                au = axis_units(c, d) if c["units"] else ("none",)
                if au[0] == "scale":
                    _bump(dist["scale_exponent"], str(SI_EXP[au[1]] - SI_EXP[au[2]]))
            if "addr" in c and designate(c)[0] == "skip":
                # the property does not say what such a key means (an entity object as key; a data array's name shared
                # by features of different link types): the model records what the code does, a difference is no alarm
                _bump(dist, "unspecified_key_skipped")
                if i != m:
                    _bump(dist, "unspecified_key_differ")
                continue
            if cl == "marginal":
                if i != m:
                    marginal_differ += 1
                continue
            compared += 1
            if i != m:
                disagreements.append(Disagreement(c, m, i))
            if "err" in i or (i.get("ok") or {}).get("valid"):
                seen.add(core.canon(c))
    finally:
        impl.close()
    dist["marginal_skipped"] = dist["class"].get("marginal", 0)
    dist["marginal_that_differ"] = marginal_differ
    disagreements.sort(key=lambda d: len(core.canon(d.case)))
    idx = sorted(ctx.rng.sample(range(len(cases)), min(6, len(cases))))
    samples = [{"case": cases[k], "model": mouts[k]} for k in idx]
    return {"evaluations": compared, "distinct_nontrivial": len(seen),
            "rule": "fixed repeated-tick list (runs of 2-3 equal ticks at the start / inside / at the end of an irregular "
                    "axis, points and region ends / starts exactly on the repeated value, both stop rules, Tag / "
                    "MultiTag, rank 1-2), corpus + seeded scenarios (30% of the irregular axes carry a forced run, "
                    "60% of their regions sit on it): an array of rank 1-3 with a generated mix of sampled (offset, fractional "
                    "interval), range (irregular ticks, repeats, more/fewer ticks than samples) and set (labels = / != "
                    "extent, none) descriptors; regions anchored on, between, a hair beside, before and after the "
                    "samples, extents none / 0 / spanning / fractional / beyond the data / tiny / negative; position "
                    "vectors of rank, rank-1, rank+1, 0 entries; each scenario is run through Tag.tagged_data, "
                    "MultiTag.tagged_data (1-D and 2-D position arrays, every row and two indices beyond, extents "
                    "absent / zero-length / fewer rows / other width) or the feature_data of both with the three link "
                    "types, both stop rules; units: none, same prefix, tag prefix >= dimension prefix (exact float "
                    "path), any of the 21x21 pairs, 'none'/'' on set dimensions, unit on a set dimension, unit without "
                    "dimension unit, other base unit, fewer units than positions; plus complete 21x21 prefix sweeps on "
                    "1-D cases and a malformed stream (descriptor count != rank, negative interval). Compared: error "
                    "class, valid flag, window, and view[:] against NumPy on an in-memory copy. Float handling per "
                    "DESIGN section 5: exact path => must agree; otherwise the model is also run on the float-path "
                    "positions (unit-less variant) and the case is skipped as marginal only if that changes the "
                    "model's answer or a C07 decision margin is below 2^-40. non-trivial = valid view or error.",
            "samples": samples, "distribution": dist, "disagreements": disagreements, "exhaustive": False}


# ---------------------------------------------------------------------------------------
# property oracle on the implementation: brute force over sample coordinates in Fractions, then NumPy gather


def _coord_fn(dim):
    """(coord(i), domain size or None) of a descriptor"""
    if dim[0] == "sampled":
        O, S = F(dim[1]), F(dim[2])
        return (lambda i: O + i * S), None
    if dim[0] == "range":
        T = [F(t) for t in dim[1]]
        return (lambda i: T[i]), len(T)
    return (lambda i: Fraction(i)), (dim[1] if dim[1] else None)


def _inside(s, e, mode, x):
    return s <= x and (x < e if mode == "Exclusive" else x <= e)


def selected_set(dim, n, s, e, mode):
    """(indices i < n + 1 of the descriptor's domain with coordinate inside the region, flag: some index >= n inside)"""
    coord, dom = _coord_fn(dim)
    lim = n if dom is None else min(dom, n)
    inside = [i for i in range(lim) if _inside(s, e, mode, coord(i))]
    beyond = False
    if dom is None:
        # unbounded descriptor (coordinates strictly ascending): the first index >= n at or after the start
        step = coord(1) - coord(0)
        i0 = max(n, fceil((s - coord(0)) / step))
        beyond = _inside(s, e, mode, coord(i0))
    else:
        beyond = any(_inside(s, e, mode, coord(i)) for i in range(n, dom))
    return inside, beyond


def _snap_candidates(dim, x):
    """the values an end point may be taken for: itself, and a sample it lies in the reference tolerance band of"""
    out = [x]
    if dim[0] == "sampled":
        O, S = F(dim[1]), F(dim[2])
        X = (x - O) / S
        for k in (ffloor(X), ffloor(X) + 1):
            if X != k and abs(X - k) <= (REF_ATOL + REF_RTOL * abs(k)) * (1 + Fraction(1, 2 ** 20)):
                out.append(O + k * S)
    elif dim[0] == "set":
        for k in (ffloor(x), ffloor(x) + 1):
            if x != k and abs(x - k) <= (REF_ATOL + REF_RTOL * abs(k)) * (1 + Fraction(1, 2 ** 20)):
                out.append(Fraction(k))
    return out


def well_formed(case):
    """inside the property's quantifier: one descriptor per axis, positive intervals, ascending ticks"""
    if len(case["dims"]) != len(case["shape"]):
        return False
    for d in case["dims"]:
        if d[0] == "sampled" and F(d[2]) <= 0:
            return False
        if d[0] == "range":
            T = [F(t) for t in d[1]]
            if not T or any(a > b for a, b in zip(T, T[1:])):
                return False
    return True


def requirement(case):
    """what the property demands.  Returns
      ("skip", why)                      outside the property
      ("refuse-any", why)                a refusal of any class, or an invalid empty view; never data
      ("region", [alt, ...])             each alt = ("valid", window) or ("refuse",): acceptable outcomes; alt[0] is
                                         the exact one, the others arise from the tolerance band / float rounding
      ("exactly", outcome)               this outcome (index / whole-array features)"""
    if not well_formed(case):
        return ("skip", "descriptor set outside the property")
    shape = case["shape"]
    full = [[0, n] for n in shape]
    if case["op"] == "tagged":
        if case["nrefs"] == 0 or case["refidx"] >= case["nrefs"]:
            return ("refuse-any", "no such reference")
    else:
        if case["nfeats"] == 0:
            return ("refuse-any", "no feature")
        if case["link"] == "untagged" or (case["link"] == "indexed" and case["k"] == "tag"):
            return ("exactly", {"ok": {"valid": True, "window": full, "read": "window"}})
        if case["link"] == "indexed":
            i = case["idx"]
            if i >= len(case["pos"]["v"]):
                return ("skip", "index of no position")
            if i >= shape[0]:
                return ("refuse-any", "position index beyond the feature's rows")
            return ("exactly", {"ok": {"valid": True, "window": [[i, i + 1]] + full[1:], "read": "window"}})
    if case["k"] == "mtag":
        p, e = case["pos"], case["ext"]
        if case["idx"] >= len(p["v"]):
            return ("refuse-any", "position index beyond the positions")
        if e is not None and len(e["v"]) > 0:
            pshape = [len(p["v"])] + ([p["c"]] if p["r"] == 2 else [])
            eshape = [len(e["v"])] + ([e["c"]] if e["r"] == 2 else [])
            if case["idx"] >= len(e["v"]) or pshape != eshape:
                return ("refuse-any", "positions and extents do not match")
    pos, ext = tag_rows(case)
    # position and extent of different lengths: a refusal is fine, and so is reading a missing entry as "no extent"
    lenient = case["k"] == "tag" and bool(ext) and len(ext) != len(pos)
    for d in range(min(len(pos), len(shape))):
        au = axis_units(case, d)
        if au[0] == "incompatible":
            return ("refuse-any", "tag unit cannot be converted to the dimension's unit")
        if au[0] == "unknown":
            return ("skip", "unit outside the oracle's table")
    regs = axis_regions(case)
    # per axis: alternatives of (start, end)
    per_axis = []
    for d, n in enumerate(shape):
        r = regs[d]
        if r is None:
            per_axis.append([("win", 0, n)])
            continue
        dim = case["dims"][d]
        alts = []
        starts = _snap_candidates(dim, r["exact"][0])
        ends = _snap_candidates(dim, r["exact"][1])
        fsx, fex = r["flt"]
        if abs(fsx - r["exact"][0]) <= EPS * abs(r["exact"][0]) and fsx not in starts:
            starts += _snap_candidates(dim, fsx)
        if abs(fex - r["exact"][1]) <= EPS * max(abs(r["exact"][1]), abs(r["exact"][0])) and fex not in ends:
            ends += _snap_candidates(dim, fex)
        for s in starts:
            for e in ends:
                inside, beyond = selected_set(dim, n, s, e, r["mode"])
                if not inside or beyond:
                    a = ("refuse",)
                else:
                    a = ("win", inside[0], inside[-1] + 1)
                    assert inside == list(range(inside[0], inside[-1] + 1))
                if a not in alts:
                    alts.append(a)
        per_axis.append(alts)
    # combine: exact alternative first
    combos = [[]]
    for alts in per_axis:
        combos = [c + [a] for c in combos for a in alts]
        if len(combos) > 64:
            combos = combos[:64]
    outs = []
    for c in combos:
        if any(a[0] == "refuse" for a in c):
            o = ("refuse",)
        else:
            o = ("valid", [[a[1], a[2]] for a in c])
        if o not in outs:
            outs.append(o)
    return ("region", outs, lenient)


REFUSALS_INDEX = ("OutOfBounds", "IndexError")
REFUSALS_ANY = ("OutOfBounds", "IndexError", "IncompatibleDimensions", "InvalidUnit", "ValueError", "KeyError",
                "TypeError")


def _is_refusal(got, classes):
    if "err" in got:
        return got["err"] in classes
    return "ok" in got and got["ok"]["valid"] is False and got["ok"]["read"] == "empty"


def site_of(case):
    cls = "Tag" if case["k"] == "tag" else "MultiTag"
    return "nixio/%s.py:%s.%s" % ("tag" if case["k"] == "tag" else "multi_tag", cls,
                                  "tagged_data" if case["op"] == "tagged" else "feature_data")


def check_case(impl, case):
    """(Failure | None, note)"""
    label = None
    if "addr" in case:
        # the key designates a reference / feature: the result must be what the property demands of *that* one
        d = designate(case)
        if d[0] == "skip":
            return None, "skipped"
        if d[0] == "refuse":
            req = ("refuse-any", d[1]) if well_formed(case) else ("skip", "")
        else:
            req = requirement(d[1])
            label = d[2]
    else:
        req = requirement(case)
    if req[0] == "skip":
        return None, "skipped"
    got = impl.run(case)
    if "bad" in got:
        return None, "setup"
    if "ok" in got and "on" in got["ok"]:
        on = got["ok"]["on"]
        got = {"ok": {k: v for k, v in got["ok"].items() if k != "on"}}
        if got["ok"]["valid"] and label is not None and on != label:
            return Failure("the data returned is taken from another array (%s) than the one the key designates (%s)"
                           % (on, label), case, dict(got, on=on), "data of the designated array", site_of(case)), "fail"
    if req[0] == "refuse-any":
        if _is_refusal(got, REFUSALS_ANY):
            return None, "refused"
        return Failure("a request that must be refused (%s) returned %s" % (req[1], _outcome_tag(got)), case, got,
                       "a refusal or an invalid empty view", site_of(case)), "fail"
    if req[0] == "exactly":
        if got == req[1]:
            return None, "exact"
        return Failure("feature data does not follow the link type", case, got, req[1], site_of(case)), "fail"
    outs = req[1]
    if req[2] and _is_refusal(got, REFUSALS_ANY):
        return None, "refused"
    for k, o in enumerate(outs):
        if o[0] == "refuse":
            if _is_refusal(got, REFUSALS_INDEX):
                return None, ("exact" if k == 0 else "tolerated")
        else:
            if got == {"ok": {"valid": True, "window": o[1], "read": "window"}}:
                return None, ("exact" if k == 0 else "tolerated")
    o = outs[0]
    if o[0] == "refuse":
        return Failure("no stored sample lies in the region on some axis, or the region runs past the stored data, "
                       "but the result is %s" % _outcome_tag(got), case, got,
                       "an invalid empty view or an out-of-bounds error", site_of(case)), "fail"
    return Failure("the result is not exactly the samples whose coordinates lie in the region", case, got,
                   {"ok": {"valid": True, "window": o[1], "read": "window"}}, site_of(case)), "fail"


def _runs(ticks):
    """maximal runs of equal ticks of length >= 2: [(first index, last index, value)]"""
    out, i = [], 0
    while i < len(ticks):
        j = i
        while j + 1 < len(ticks) and ticks[j + 1] == ticks[i]:
            j += 1
        if j > i:
            out.append((i, j, ticks[i]))
        i = j + 1
    return out


REPEATED_LAYOUTS = [
    # ticks (tag units), tag prefix, dimension prefix, base unit (None: no units at all)
    ([1, 1, 2, Fraction(7, 2), 5, 6], None, None, None),                     # pair at the start
    ([1, 2, 2, Fraction(7, 2), 5, 6], "m", "m", "s"),                        # pair inside
    ([1, 2, Fraction(7, 2), 5, 6, 6], "", "m", "s"),                         # pair at the end, s -> ms
    ([-1, -1, -1, Fraction(5, 2), 4, 6], "k", "", "Hz"),                     # triple at the start, kHz -> Hz
    ([1, 2, 2, 2, Fraction(9, 2), 6], None, None, None),                     # triple inside
    ([1, 2, Fraction(7, 2), 6, 6, 6], "u", "u", "V"),                        # triple at the end
    ([0, 0, Fraction(3, 2), 3, 3, 3, 4, 4], "M", "", "Pa"),                  # several runs, MPa -> Pa
    ([2, 2, 2], None, None, None),                                           # nothing but one run
]


def repeated_tick_cases():
    """Irregular axes holding repeated tick values (two events with the same time stamp are legal: the setter only
    rejects descending ticks).  Every sample of a run has the same coordinate, so a region takes all of them or none:
    points (no extent / extent 0) exactly on the repeated value, regions ending on it (included under Inclusive,
    excluded under Exclusive), regions starting on it, a control region ending between ticks; both stop rules, Tag and
    MultiTag (2-D positions with extents, and positions without extents), rank 1 and rank 2 (the irregular axis first
    or second).  Deterministic; run first by the oracle and by the correspondence."""
    out = []
    for li, (ticks, tp, dp, ub) in enumerate(REPEATED_LAYOUTS):
        ticks = [Fraction(t) for t in ticks]
        n = len(ticks)
        ax = {"kind": "range", "n": n, "ticks": ticks, "tp": tp, "dp": dp, "base": ub}
        rdim = axis_dim(ax)
        tunit = [] if ub is None else [tp + ub]
        regions = []                                                          # (position, extent | None)
        for a, b, v in _runs(ticks):
            before = ticks[a - 1] if a > 0 else v - Fraction(1, 2)
            first = ticks[0] if a > 0 else v - Fraction(1, 2)
            after = ticks[b + 1] if b + 1 < n else v + Fraction(1, 2)
            regions += [(v, None), (v, Fraction(0)),
                        (before, v - before), (first, v - first),             # end exactly on the repeated value
                        (v, after - v), (v, (after - v) / 2),                 # start exactly on it
                        (before, v - before + (after - v) / 2),               # control: end between two ticks
                        (v - Fraction(1, 4), Fraction(1, 2))]                 # only the run lies inside
        regions = [r for k, r in enumerate(regions) if r not in regions[:k]]
        for rank in (1, 2):
            if rank == 1:
                shape, dims, units, rax = [n], [rdim], list(tunit), 0
                other_p, other_e = [], []
            else:
                rax = li % 2                                                  # irregular axis second / first
                odim = ["sampled", "1/2", "1/2", None if ub is None else "mV"] if li % 3 else ["set", 4]
                shape, dims = ([4, n], [odim, rdim]) if rax else ([n, 4], [rdim, odim])
                if ub is None:
                    units = []
                else:
                    ou = ["mV" if odim[0] == "sampled" else "none"]
                    units = (ou + tunit) if rax else (tunit + ou)
                other_p, other_e = [Fraction(1)], [Fraction(1)]

            def vec(x, other):
                v_ = ([x] + other) if rax == 0 else (other + [x])
                return [fs(y) for y in v_]
            base = {"shape": shape, "dims": dims, "units": units, "op": "tagged", "nrefs": 1, "refidx": 0}
            with_ext = [(p, e) for p, e in regions if e is not None]
            mpos = {"r": 2, "c": rank, "v": [vec(p, other_p) for p, _ in with_ext]}
            mext = {"r": 2, "c": rank, "v": [vec(e, other_e) for _, e in with_ext]}
            ppos = {"r": 2, "c": rank, "v": [vec(p, other_p) for p, _ in regions]}
            if rank == 1 and li % 2:
                ppos = {"r": 1, "v": [fs(p) for p, _ in regions]}
            for stop in STOPS:
                for p, e in regions:
                    out.append(dict(base, k="tag", pos=vec(p, other_p), ext=[] if e is None else vec(e, other_e),
                                    stop=stop))
                for i in range(len(with_ext)):
                    out.append(dict(base, k="mtag", pos=mpos, ext=mext, idx=i, stop=stop))
                for i in range(len(regions)):
                    if regions[i][1] is None or li % 4 == 0:
                        out.append(dict(base, k="mtag", pos=ppos, ext=None, idx=i, stop=stop))
    # a tagged feature on an irregular axis with a run, both stop rules (Tag and MultiTag)
    ticks, tp, dp, ub = REPEATED_LAYOUTS[1]
    ax = {"kind": "range", "n": len(ticks), "ticks": [Fraction(t) for t in ticks], "tp": tp, "dp": dp, "base": ub}
    fb = {"shape": [len(ticks)], "dims": [axis_dim(ax)], "units": [tp + ub], "op": "feature", "nfeats": 1,
          "link": "tagged"}
    rows = [(Fraction(2), Fraction(0)), (Fraction(1), Fraction(1)), (Fraction(2), Fraction(3, 2)),
            (Fraction(1), Fraction(5, 2))]
    for stop in STOPS:
        for p, e in rows:
            out.append(dict(fb, k="tag", pos=[fs(p)], ext=[fs(e)], stop=stop))
        for i in range(len(rows)):
            out.append(dict(fb, k="mtag", pos={"r": 1, "v": [fs(p) for p, _ in rows]},
                            ext={"r": 1, "v": [fs(e) for _, e in rows]}, idx=i, stop=stop))
    return out


def _fixed_cases():
    return repeated_tick_cases() + _fixed_cases_r1()


def _fixed_cases_r1():
    sm = ["sampled", "1/1", "1/2", "ms"]
    base = {"k": "tag", "op": "tagged", "nrefs": 1, "refidx": 0, "stop": "Exclusive"}
    out = [
        dict(base, shape=[20], dims=[sm], pos=[fs(1.0)], ext=[fs(1.0)], units=["ms"]),
        dict(base, shape=[20], dims=[sm], pos=[fs(1.0)], ext=[fs(1.0)], units=["ms"], stop="Inclusive"),
        dict(base, shape=[20], dims=[sm], pos=[fs(0.002)], ext=[fs(0.001)], units=["s"]),
        dict(base, shape=[20], dims=[["sampled", None, "1/1", "uV"]], pos=[fs(0.003)], ext=[fs(0.002)], units=["mV"],
             stop="Inclusive"),                                                     # D1 (mV -> uV), fixed in C09
        dict(base, shape=[20], dims=[["sampled", "-5/1", "1/1", None]], pos=[fs(-2.0)], ext=[fs(2.0)], units=[]),  # D5
        dict(base, shape=[6, 4], dims=[["range", ["1/1", "2/1", "4/1", "7/1", "8/1", "10/1"], "s"], ["set", 4]],
             pos=[fs(2.0)], ext=[fs(5.0)], units=["s"]),
        dict(base, shape=[6, 4], dims=[["range", ["1/1", "2/1", "4/1", "7/1", "8/1", "10/1"], "s"], ["set", 4]],
             pos=[fs(2.0), fs(1.0)], ext=[fs(5.0), fs(2.0)], units=["s", "none"], stop="Inclusive"),
        dict(base, shape=[5], dims=[["set", 5]], pos=[fs(4.0)], ext=[fs(3.0)], units=[]),
        dict(base, shape=[5], dims=[["sampled", None, "1/1", None]], pos=[fs(3.0)], ext=[fs(4.0)], units=[]),
        dict(base, shape=[5], dims=[["sampled", None, "1/1", None]], pos=[fs(7.0)], ext=[], units=[]),
    ]
    pos2 = {"r": 2, "c": 2, "v": [[fs(1.0), fs(0.0)], [fs(3.0), fs(1.0)], [fs(9.0), fs(1.0)]]}
    ext2 = {"r": 2, "c": 2, "v": [[fs(2.0), fs(1.0)], [fs(0.0), fs(0.0)], [fs(1.0), fs(1.0)]]}
    mt = {"k": "mtag", "shape": [6, 3], "dims": [["sampled", None, "1/1", "ms"], ["set", 3]], "pos": pos2, "ext": ext2,
          "units": ["ms", "none"], "stop": "Exclusive"}
    for i in range(4):
        out.append(dict(mt, op="tagged", nrefs=1, refidx=0, idx=i))
        for link in LINKS:
            out.append(dict(mt, op="feature", nfeats=1, link=link, idx=i))
    for i in (5, 6, 7):
        out.append(dict(mt, op="feature", nfeats=1, link="indexed", idx=i,
                        pos={"r": 1, "v": [fs(float(j)) for j in range(8)]}, ext=None, units=[]))
    return out


def oracle(ctx, broken, hints):
    """fixed order: disagreeing cases of the correspondence (hints), the fixed list, the corpus, then generated
    scenarios.  With a broken obligation the generated stream is large but *bounded*: it stops at the deadline
    (quick 90 s / thorough 600 s after the start of the oracle) or as soon as ENOUGH distinct failing inputs are known,
    so that a concrete failure is reported early."""
    import time
    first = [h for h in hints[:300] if isinstance(h, dict) and "k" in h]
    first += _fixed_cases()
    first += core.load_corpus(PROP)
    n = 2500 if broken else ctx.budget(60, 600)
    sweeps = 3 if broken else ctx.budget(1, 3)
    deadline = time.time() + ((90 if ctx.quick() else 600) if broken else 10 ** 6)
    ENOUGH = 6
    impl = Impl(ctx, "oracle")
    failures, seen = [], set()
    notes = {}
    evaluated = 0
    stopped = "complete"

    def run(c):
        nonlocal evaluated
        evaluated += 1
        f, note = check_case(impl, c)
        _bump(notes, note)
        if f is not None:
            key = (f.what, core.canon(f.input))
            if key not in seen:
                seen.add(key)
                failures.append(f)

    try:
        for c in first:
            run(c)
        # generated stream, scenario by scenario (same rng consumption as one big batch)
        todo = [("sweep", None), ("long", None)] + [("scen", None)] * (n // 2) + [("long", None)] * (2 if broken else 0) \
            + [("scen", None)] * (n - n // 2) + [("sweep", None)] * (sweeps - 1) + [("mal", None)] * max(n // 25, 2)
        for kind, _ in todo:
            if broken and (len(failures) >= ENOUGH or time.time() > deadline):
                stopped = "enough-failures" if len(failures) >= ENOUGH else "deadline"
                break
            if kind == "scen":
                batch = gen_scenario(ctx.rng)
            elif kind == "sweep":
                batch = gen_prefix_sweep(ctx.rng)
            elif kind == "long":
                batch = gen_long(ctx.rng)
            else:
                batch = gen_malformed(ctx.rng)
            for c in batch:
                run(c)
    finally:
        impl.close()
    failures.sort(key=lambda f: len(core.canon(f.input)))
    return {"evaluations": evaluated, "failures": failures[:50], "verdicts": notes, "stopped": stopped,
            "rule": "per axis, every sample index of the descriptor whose coordinate (exact Fractions of the stored "
                    "doubles) lies in the region scaled by the exact prefix ratio (this module's own SI table); valid "
                    "result required iff every axis has such samples and none beyond the stored extent, its window "
                    "must be exactly those and view[:] must equal NumPy's gather on an in-memory copy; otherwise an "
                    "invalid empty view or an IndexError-class exception; end points inside the reference isclose "
                    "band of a sample (atol 1e-8, rtol 1e-12) or within 2^-40 of the float-path value accept either "
                    "reading ('tolerated'); feature data by link type"}


def matches_known(entry, failure):
    return False


def replay_failure(ctx, fj):
    impl = Impl(ctx, "replay")
    try:
        f, _ = check_case(impl, fj["input"])
        return f
    finally:
        impl.close()


READY = True
MANIFEST = {
    "level_text": "Kernel-checked theorems over a Lean model of the region computation of nixio/tag.py and "
                  "nixio/multi_tag.py (_scale_position, _calc_data_slices, _slices_in_data, tagged_data, feature_data, "
                  "_calc_data_slices_mtag, the reference / feature lookups of container.py, the default stop rule and the "
                  "deprecated retrieve_* wrappers) built on the C07 dimension model (generated np.isclose tolerances), the "
                  "C09 unit model (generated tables) and the C06 DataView model; the decisions of the code that are not "
                  "arithmetic (slice-mode test on the extent entry, stop position, slice(a, b+1), stop <= extent, row "
                  "test of indexed features, 'none' text, order and exception class of every check in the eight "
                  "functions, default stop rules) are re-rendered from the source into Generated/TagShape.lean and the "
                  "theorems are stated over them. For arrays of any rank, any mix of sampled/range/set descriptors, any "
                  "position/extent vectors (shorter than the rank, extent absent / zero / negative), any unit pair of "
                  "the SI table and both stop rules: a valid result's window is on every axis exactly the set of sample "
                  "indices whose coordinate lies in the region scaled by the exact prefix ratio; otherwise the result "
                  "is an invalid empty view, IndexError or OutOfBounds, and it is one of those whenever an axis has no "
                  "sample in the region or the region reaches a sample that is not stored (induction over the axis "
                  "list; composition of C07.range_indices_*, C09.scaling_ratio / not_scalable, C06 window validity). "
                  "The tolerance hypothesis is given in checkable form (OffBandAt: each end point, measured in samples, "
                  "is an integer or outside the band of its two neighbours, up to 10^11 samples) and proved sufficient; "
                  "end points on sample coordinates always meet it. An extent of zeros equals no extent; no position = "
                  "whole array; fewer units than positions = refused. Samples with the same coordinate (runs of equal ticks "
                  "on an irregular axis) are taken all or none, per axis and in the valid result of Tag / MultiTag.tagged_data and of a Tag's tagged feature; a "
                  "point (no / zero extent) on an irregular axis yields exactly the ticks equal to the scaled position, "
                  "None iff there is none, never an error. Multi-tag row selection and 1-D -> 2-D promotion, "
                  "feature data per link type (tagged / indexed / untagged) for Tag and MultiTag, refusal classes; a "
                  "reference / feature addressed by index (negative from the end), id, name, data id or data name is "
                  "the one found by the modelled lookup, and the region / link-type theorems apply to it.",
    "level_note": "Trusted: Lean kernel; axioms propext/Classical.choice/Quot.sound; the C07/C09 translators and "
                  "tagshape.py; Rat stand-ins for IEEE doubles and NumPy (np.isclose, np.round, np.less_equal "
                  "broadcasting); CPython's uuid.UUID for is_uuid; the correspondence harness (real Tag/MultiTag/Feature "
                  "objects on real HDF5 files, outcome = error class, valid flag, window, which array the view is on, "
                  "and view[:] against NumPy). Partial: the one-axis statement without a tolerance hypothesis is false "
                  "strictly inside the np.isclose band (C08_axis_full_counterexample, inherited from C07's open "
                  "finding); exact-rational arithmetic; reading the window is C06/C01; descriptor count != rank, "
                  "negative position indices and DataFrame features are outside the theorems.",
    "technique": "Lean 4 proof (inductive lock-step predicates over the axis list, composition of the C06/C07/C09 "
                 "theorems, ast-generated decision definitions and guard tables) with differential correspondence and a "
                 "Fraction brute-force oracle against real nixio",
}
