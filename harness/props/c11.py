"""C11 — open modes and format-version gating (nixio/file.py)."""
import contextlib
import enum
import gc
import hashlib
import importlib
import inspect
import io
import json
import os
import pkgutil
import random
import shutil
import uuid as _uuid

from ..lib import core
from ..lib.core import Failure, Disagreement
from ..extract import fileconst as _ex

PROP = "C11"
LEAN_MODULE = "NixModel.Props.C11"
THEOREMS = [
    "Nix.C11.C11_check_header",
    "Nix.C11.C11_decision",
    "Nix.C11.C11_wrong_tag",
    "Nix.C11.C11_wrong_tag_open",
    "Nix.C11.C11_bad_version",
    "Nix.C11.C11_missing_readonly",
    "Nix.C11.C11_missing_creates",
    "Nix.C11.C11_overwrite_fresh",
    "Nix.C11.C11_readwrite_preserves",
    "Nix.C11.C11_invalid_mode",
    "Nix.C11.C11_readonly_open",
    "Nix.C11.C11_session_flag",
    "Nix.C11.C11_readonly_frame",
    "Nix.C11.C11_readonly_history",
    "Nix.C11.C11_open_keeps",
    "Nix.C11.C11_conservative_history",
    "Nix.C11.C11_canonical_id_accepted",
    "Nix.C11.C11_init_shape",
    "Nix.C11.C11_default_mode",
    "Nix.C11.C11_unopenable_kept",
    "Nix.C11.C11_overwrite_any",
    "Nix.C11.C11_overwrite_dir",
    "Nix.C11.C11_refused_unchanged",
    "Nix.C11.C11_existing_kept",
    "Nix.C11.C11_readonly_path",
    "Nix.C11.C11_create_header_fresh",
    "Nix.C11.C11_create_header_keeps_id",
    "Nix.C11.C11_write_implies_read",
    "Nix.C11.C11_fresh_reopens",
    "Nix.C11.C11_rw_then_ro",
    "Nix.C11.C11_default_decision",
    "Nix.C11.C11_changes_only",
    "Nix.C11.C11_h5_layer_passes_write_errors_on",
    "Nix.C11.C11_step_changes_only",
    "Nix.C11.C11_history_changes_only",
]
ASSUMPTIONS = [
    "nixio has no write guard of its own: that libhdf5 refuses every write through a handle opened ACC_RDONLY is "
    "runtime behaviour; the model's `step` (mutator applied iff the flag is not rdonly) is a stand-in for it, "
    "supported by running every discovered mutating call of every entity kind against read-only sessions",
    "the content of a file is modelled as an association list path -> value; mutators are arbitrary functions on it",
    "what a path can hold is modelled as: nothing, an HDF5 file, a regular file libhdf5 cannot open (opaque bytes; "
    "`h5fOpen`: OSError, except that an EMPTY file opened with write access is initialised by libhdf5), a directory "
    "(h5f.open / h5f.create: OSError); file permissions are not modelled (the checks run as root)",
    "uuid.UUID / int(s, 16) are modelled for ASCII strings (non-ASCII digits and blanks are outside the model and "
    "the generators); uuid4() is assumed to return a string uuid.UUID accepts",
    "version attributes are integer vectors (float or nested version attributes are outside the model)",
    "a crash between h5f.create and the end of File.__init__ is not modelled (C17)",
]
TRUSTED_EXTRA = ["harness/extract/fileconst.py renders FILE_FORMAT, HDF_FF_VERSION, the FileMode letters, the "
                 "map_file_mode chain, the can_write comparison, the can_read condition, the _check_header mode "
                 "dispatch and the id threshold, the _create_header call order, and the shape of File.__init__ / "
                 "File.open (default mode, guards, create-or-open condition, rebound mode, h5f.create / h5f.open with "
                 "flags=map_file_mode(mode) outside any try, ordered tail); and the list of `except` clauses in nixio/hdf5/*.py "
                 "that never raise, with whether the guarded block writes (Generated/H5Handlers.lean)"]

VALID_ID = "017d7764-173b-4716-a6c2-45f6d37ddb52"
T_BUILD = 1500000000       # controlled clock while files are generated
T_SESSION = 1600000000     # controlled clock inside sessions under test


def extract(repo):
    return _ex.extract(repo)


# anchor fingerprints (DESIGN 2.3 F): a changed hash is not an alarm, it only raises the quick-tier budgets
ANCHORS = {
    "nixio/file.py": {"can_write": "f9d83f6f3a8abb39", "can_read": "8085a456a43879f4", "FileMode": "1940d1e9fefb9a61",
                      "map_file_mode": "8f33b4db03bd99d1", "__init__": "42d3f1d700288f69", "open": "3441a486a5638756",
                      "_create_header": "3808df3bea0cbab3", "_check_header": "27be39356d1b8c0d",
                      "_set_id": "9ec423d5720a6e28", "_set_version": "a38d32450054e0f2",
                      "_set_format": "c78ee05a754014fc"},
    "nixio/util/util.py": {"is_uuid": "680f787387136285", "create_id": "6bf57a70ea28defd"},
}
_changed_cache = {}


def changed_anchors():
    if "v" not in _changed_cache:
        out = []
        for rel, want in ANCHORS.items():
            got = core.func_fingerprint(rel, list(want))
            out += ["%s:%s" % (rel, k) for k in want if got.get(k) != want[k]]
        _changed_cache["v"] = sorted(out)
    return _changed_cache["v"]


def B(ctx, quick, thorough):
    """budget: the quick tier is widened (x4, at most the thorough value) when an anchored function changed"""
    if ctx.quick() and changed_anchors():
        return min(thorough, 4 * quick)
    return ctx.budget(quick, thorough)


# ---------------------------------------------------------------------------------------
# small helpers


def _nix():
    import nixio
    return nixio


def _lib_version():
    from nixio import file as F
    return tuple(int(x) for x in F.HDF_FF_VERSION)


def sha_file(path):
    with open(path, "rb") as f:
        return hashlib.sha256(f.read()).hexdigest()


class _IdGen:
    def __init__(self, seed):
        self.r = random.Random(seed)

    def __call__(self):
        return _uuid.UUID(int=self.r.getrandbits(128), version=4)


@contextlib.contextmanager
def patched(now, idseed=None):
    """controlled clock (and, optionally, a seeded uuid4) inside nixio"""
    import nixio.util as U
    import nixio.util.util as UU
    saved = (U.now_int, UU.now_int, UU.uuid4)
    U.now_int = lambda: now
    UU.now_int = lambda: now
    if idseed is not None:
        UU.uuid4 = _IdGen(idseed)
    try:
        yield
    finally:
        U.now_int, UU.now_int, UU.uuid4 = saved


def _decode(v):
    if isinstance(v, bytes):
        try:
            return v.decode()
        except UnicodeDecodeError:
            return repr(v)
    return v


def py_is_uuid(s):
    try:
        _uuid.UUID(str(s))
        return True
    except ValueError:
        return False


# ---------------------------------------------------------------------------------------
# files: crafting with h5py, dumping with h5py (never through nixio)


def craft(path, disk):
    """make the path hold what the disk JSON says (content-free files only)"""
    import h5py
    import numpy as np
    _rm_path(path)
    if disk is None:
        return
    if "blob" in disk:
        with open(path, "wb") as fd:
            fd.write(blob_bytes(disk))
        return
    if "dir" in disk:
        os.makedirs(path)
        for name, hexbytes in disk.get("files", []):
            with open(os.path.join(path, name), "wb") as fd:
                fd.write(bytes.fromhex(hexbytes))
        return
    hd = disk["header"]
    with h5py.File(path, "w", track_order=True) as h:
        if hd["format"] is not None:
            h.attrs["format"] = hd["format"]
        if hd["version"] is not None:
            h.attrs["version"] = np.array(hd["version"], dtype=np.int32)
        if hd["id"] is not None:
            h.attrs["id"] = hd["id"]
        if disk["data"]:
            h.create_group("data", track_order=True)
        if disk["meta"]:
            h.create_group("metadata", track_order=True)
        if disk["created"]:
            h.attrs["created_at"] = "20200101T000000"
        if disk["updated"]:
            h.attrs["updated_at"] = "20200101T000000"


_BLOBS = {}     # sha256 -> bytes of the blobs generated in this run (too long for the case JSON)


def blob_desc(data):
    """the disk JSON of a file libhdf5 cannot open: the tag stands for the bytes"""
    tag = hashlib.sha256(data).hexdigest()
    _BLOBS[tag] = data
    d = {"blob": tag, "empty": len(data) == 0}
    if len(data) <= 64:
        d["hex"] = data.hex()
    return d


def blob_bytes(disk):
    if "hex" in disk:
        return bytes.fromhex(disk["hex"])
    if disk["blob"] in _BLOBS:
        return _BLOBS[disk["blob"]]
    raise ValueError("harness: bytes of blob %s unknown" % disk["blob"][:12])


def dir_desc(files):
    """the disk JSON of a (flat) directory; files = [[name, hex bytes]]"""
    files = sorted(files)
    tag = hashlib.sha256(repr([[n, hashlib.sha256(bytes.fromhex(h)).hexdigest()] for n, h in files]).encode()).hexdigest()
    return {"dir": tag, "files": files}


def _astr(g, name):
    v = g.attrs.get(name)
    if v is None:
        return None
    v = _decode(v)
    return v if isinstance(v, str) else repr(v)


def _tolist(v):
    try:
        return v.tolist()
    except AttributeError:
        return v


def h5_digest(h):
    """digest of everything stored in an open h5py file: objects, attributes, dataset values"""
    import h5py
    acc = hashlib.sha256()

    def attrs(o):
        return sorted((k, repr(_tolist(_decode(o.attrs[k])))) for k in o.attrs)

    acc.update(repr(("/", attrs(h))).encode())
    items = []

    def visit(name, obj):
        if isinstance(obj, h5py.Dataset):
            try:
                val = repr(_tolist(obj[()]))
            except Exception as e:  # unreadable dataset: still deterministic
                val = "unreadable:" + type(e).__name__
            items.append((name, "D", str(obj.dtype), tuple(obj.shape), val, attrs(obj)))
        else:
            items.append((name, "G", attrs(obj)))
    h.visititems(visit)
    for it in sorted(items, key=lambda t: t[0]):
        acc.update(repr(it).encode())
    return acc.hexdigest()[:24]


def dump(path, digest=False):
    """the disk JSON of a path, read with h5py only"""
    import h5py
    if not os.path.exists(path):
        return None
    if os.path.isdir(path):
        files = []
        for n in sorted(os.listdir(path)):
            q = os.path.join(path, n)
            files.append([n, open(q, "rb").read().hex() if os.path.isfile(q) else "00"])
        return dir_desc(files)
    try:
        h = h5py.File(path, "r")
    except OSError:
        with open(path, "rb") as fd:
            return blob_desc(fd.read())
    with h:
        a = h.attrs
        fmt = _decode(a.get("format"))
        ver = a.get("version")
        if ver is not None:
            ver = [int(x) for x in ver]
        id_ = _decode(a.get("id"))
        content = []
        if "data" in h:
            for bn, bg in h["data"].items():
                content.append([["block", bn], _astr(bg, "type") or ""])
                if "definition" in bg.attrs:
                    content.append([["block", bn, "definition"], _astr(bg, "definition")])
                if "data_arrays" in bg:
                    for an, ag in bg["data_arrays"].items():
                        content.append([["block", bn, "array", an], _astr(ag, "type") or ""])
                        if "label" in ag.attrs:
                            content.append([["block", bn, "array", an, "label"], _astr(ag, "label")])
        if "metadata" in h:
            for sn, sg in h["metadata"].items():
                content.append([["section", sn], _astr(sg, "type") or ""])
                if "definition" in sg.attrs:
                    content.append([["section", sn, "definition"], _astr(sg, "definition")])
        if digest:
            content.append([["#h5"], h5_digest(h)])
        content.sort(key=lambda kv: kv[0])
        return {"header": {"format": fmt if (fmt is None or isinstance(fmt, str)) else repr(fmt),
                           "version": ver, "id": id_ if (id_ is None or isinstance(id_, str)) else repr(id_)},
                "data": "data" in h, "meta": "metadata" in h,
                "created": "created_at" in a, "updated": "updated_at" in a, "content": content}


def full_disk(fmt="nix", version=None, id_=VALID_ID, data=True, meta=True, created=True, updated=True):
    return {"header": {"format": fmt, "version": list(_lib_version()) if version is None else version, "id": id_},
            "data": data, "meta": meta, "created": created, "updated": updated, "content": []}


# ---------------------------------------------------------------------------------------
# rich files (every entity kind) for the read-only half


def build_rich(path, seed):
    """a file with every entity kind, deterministic in `seed` (names, sizes, ids, timestamps)"""
    nixio = _nix()
    import numpy as np
    r = random.Random("rich/%s" % seed)
    made = {}

    def nm(p):
        return "%s%d" % (p, r.randint(0, 99))

    def attempt(kind, fn):
        try:
            v = fn()
            made[kind] = made.get(kind, 0) + 1
            return v
        except Exception as e:   # an entity kind that cannot be created (other properties' defects) is skipped
            made["skipped:" + kind] = "%s: %s" % (type(e).__name__, str(e)[:80])
            return None
    if os.path.exists(path):
        os.remove(path)
    def A(kind, fn, *deps):
        """run one construction step unless something it needs could not be built"""
        if any(d is None for d in deps):
            made["skipped:" + kind] = "dependency missing"
            return None
        return attempt(kind, fn)
    with patched(T_BUILD, idseed="rich/%s" % seed):
        f = nixio.File.open(path, nixio.FileMode.Overwrite)
        try:
            sec = A("section", lambda: f.create_section(nm("sec"), "meta.t"))
            sub = A("section", lambda: sec.create_section(nm("sub"), "meta.sub"), sec)
            A("property", lambda: sec.create_property(nm("p"), [1, 2, 3]), sec)
            pr = A("property", lambda: sec.create_property(nm("q"), ["a", "b"]), sec)
            A("property.definition", lambda: setattr(pr, "definition", "a property"), pr)
            A("property", lambda: sub.create_property(nm("f"), [1.5]), sub)
            for bi in range(r.randint(1, 2)):
                b = A("block", lambda: f.create_block(nm("blk%d_" % bi), "blk.t"))
                if b is None:
                    continue
                A("block.definition", lambda: setattr(b, "definition", "block %d" % bi))
                n1 = r.randint(2, 4)
                n2 = r.randint(2, 3)
                n3 = r.randint(2, 3)
                da = A("array", lambda: b.create_data_array(nm("a"), "arr.t",
                                                            data=np.arange(float(n1 * n2)).reshape(n1, n2),
                                                            label="L", unit="mV"))
                A("setdim", lambda: da.append_set_dimension(["l%d" % i for i in range(n1)]), da)
                A("sampleddim", lambda: da.append_sampled_dimension(0.5, label="t", unit="s"), da)
                da3 = A("array", lambda: b.create_data_array(nm("s"), "arr.t", data=[0.5, 1.5, 2.5]))
                A("dimlink", lambda: da3.append_range_dimension_using_self(), da3)
                da2 = A("array", lambda: b.create_data_array(nm("r"), "arr.t", data=[1.0, 2.0, 3.0][:n3]))
                A("rangedim", lambda: da2.append_range_dimension([1.0, 2.0, 3.0][:n3], label="r", unit="ms"), da2)
                A("dataframe", lambda: b.create_data_frame(nm("df"), "df.t", col_dict={"n": str, "v": float},
                                                           data=[("a", 1.0), ("b", 2.0)]))
                g = A("group", lambda: b.create_group(nm("g"), "grp.t"))
                A("grouplink", lambda: g.data_arrays.append(da), g, da)
                A("grouplink", lambda: g.data_frames.append(b.data_frames[0]), g)
                t = A("tag", lambda: b.create_tag(nm("t"), "tag.t", [0.0, 0.5]))
                A("tag.extent", lambda: setattr(t, "extent", [1.0, 1.0]), t)
                A("tag.reference", lambda: t.references.append(da), t, da)
                A("feature", lambda: t.create_feature(da2, nixio.LinkType.Untagged), t, da2)
                pos = A("array", lambda: b.create_data_array(nm("pos"), "arr.t", data=[[0.0, 0.5], [1.0, 1.0]]))
                ext = A("array", lambda: b.create_data_array(nm("ext"), "arr.t", data=[[1.0, 0.5], [0.5, 0.5]]))
                mt = A("multitag", lambda: b.create_multi_tag(nm("m"), "mtag.t", pos), pos)
                A("multitag.extents", lambda: setattr(mt, "extents", ext), mt, ext)
                A("multitag.reference", lambda: mt.references.append(da), mt, da)
                A("feature", lambda: mt.create_feature(da2, nixio.LinkType.Indexed), mt, da2)
                s = A("source", lambda: b.create_source(nm("src"), "src.t"))
                A("source", lambda: s.create_source(nm("ssrc"), "src.t"), s)
                A("sourcelink", lambda: da.sources.append(s), da, s)
                A("grouplink", lambda: g.tags.append(t), g, t)
                A("grouplink", lambda: g.multi_tags.append(mt), g, mt)
                A("metadata", lambda: setattr(b, "metadata", sec), sec)
                A("metadata", lambda: setattr(da, "metadata", sub), da, sub)
        finally:
            f.close()
    return made


# ---- generic object graph --------------------------------------------------------------

SKIP_ATTRS = {"file", "parent", "referring_objects", "referring_data_arrays", "referring_tags",
              "referring_multi_tags", "referring_sources", "referring_blocks", "referring_groups"}
SKIP_CALLS = {"close", "open", "pprint", "print_table", "write_to_csv", "create_new"}
EXTRA_STEPS = {"DataArray": [["call", "get_slice", [[0], [1]]]]}
MAX_PER_CLASS = 3


def _is_nix_obj(v):
    t = type(v)
    return (getattr(t, "__module__", "") or "").startswith("nixio.") and not isinstance(v, enum.Enum) \
        and not isinstance(v, BaseException) and t.__name__ not in ("File", "DataType")


def public_members(cls):
    props, setters, methods = [], [], []
    for name in dir(cls):
        if name.startswith("_") and name not in ("__setitem__", "__delitem__"):
            continue
        try:
            a = inspect.getattr_static(cls, name)
        except AttributeError:
            continue
        if isinstance(a, property):
            props.append(name)
            if a.fset is not None:
                setters.append(name)
        elif isinstance(a, (classmethod, staticmethod)):
            continue
        elif callable(a):
            methods.append(name)
    return props, setters, methods


def resolve(f, path):
    o = f
    for st in path:
        if st[0] == "attr":
            o = getattr(o, st[1])
        elif st[0] == "item":
            o = o[st[1]]
        elif st[0] == "call":
            o = getattr(o, st[1])(*st[2])
        else:
            raise ValueError("bad path step")
    return o


def kind_of(v):
    """the class name; containers are told apart by what they hold (blocks / arrays / tags / properties ... all
    are `Container`, group members / references all `LinkContainer`)"""
    cn = type(v).__name__
    ic = getattr(v, "_itemclass", None)
    if ic is not None and hasattr(type(v), "__getitem__"):
        return "%s[%s]" % (cn, getattr(ic, "__name__", "?"))
    return cn


def collect(f):
    """[(path, class name)] of reachable nixio objects: breadth first over public properties and container items"""
    out = [([], "File")]
    count = {"File": 1}
    work = [([], f, 0)]
    while work:
        path, o, depth = work.pop(0)
        if depth > 7:
            continue
        steps = []
        props, _, _ = public_members(type(o))
        for name in props:
            if name in SKIP_ATTRS:
                continue
            steps.append(["attr", name])
        if hasattr(type(o), "__getitem__") and hasattr(type(o), "__len__") and hasattr(o, "_itemclass"):
            try:
                n = len(o)
            except Exception:
                n = 0
            for i in range(min(n, 2)):
                steps.append(["item", i])
        for st in EXTRA_STEPS.get(type(o).__name__, []):
            steps.append(st)
        for st in steps:
            try:
                v = resolve(o, [st])
            except Exception:
                continue
            if not _is_nix_obj(v):
                continue
            cn = kind_of(v)
            if count.get(cn, 0) >= MAX_PER_CLASS:
                continue
            count[cn] = count.get(cn, 0) + 1
            out.append((path + [st], cn))
            work.append((path + [st], v, depth + 1))
    return out


def canon_value(v, depth=0):
    """JSON-able, session-independent rendering of a value returned by the API"""
    import numpy as np
    if v is None or isinstance(v, (bool, int, str)):
        return v
    if isinstance(v, float):
        return repr(v)
    if isinstance(v, bytes):
        return _decode(v)
    if isinstance(v, enum.Enum):
        return "enum:%s" % v.name
    if isinstance(v, np.generic):
        return canon_value(v.item(), depth)
    if isinstance(v, np.ndarray):
        return ["ndarray", str(v.dtype), list(v.shape), repr(v.tolist())[:2000]]
    if isinstance(v, (list, tuple)):
        return [canon_value(x, depth + 1) for x in list(v)[:50]]
    if isinstance(v, dict):
        return sorted([[str(k), canon_value(x, depth + 1)] for k, x in v.items()], key=lambda t: t[0])
    if _is_nix_obj(v) or type(v).__name__ == "File":
        ident = None
        for attr in ("id", "name"):
            try:
                ident = getattr(v, attr)
                if ident is not None:
                    break
            except Exception:
                pass
        n = None
        if hasattr(type(v), "__len__") and depth < 3:
            try:
                n = len(v)
            except Exception:
                n = "len-error"
        return ["obj", type(v).__name__, canon_value(ident, depth + 1), n]
    return "<%s>" % type(v).__name__


# reads with arguments (compared between a read-only and a writable session): tagged data, dimension
# conversions, table reads, searches
READ_CALLS = {
    "Tag": [("tagged_data", [0]), ("feature_data", [0])],
    "MultiTag": [("tagged_data", [0, 0]), ("tagged_data", [1, 0]), ("feature_data", [0, 0]), ("feature_data", [1, 0])],
    "SampledDimension": [("index_of", [0.6]), ("position_at", [1]), ("axis", [3]), ("axis", [2, 1]),
                         ("range_indices", [0.0, 1.0])],
    "RangeDimension": [("index_of", [1.5]), ("tick_at", [0]), ("axis", [2]), ("range_indices", [1.0, 2.5])],
    "SetDimension": [("index_of", [1]), ("range_indices", [0, 1])],
    "DataFrame": [("read_rows", [[0]]), ("read_rows", [[0, 1]]), ("read_columns", [[0]]), ("read_columns", [None, ["v"]]),
                  ("read_cell", [[0, 1]]), ("read_cell", [None, "n", 0])],
    "DataArray": [("get_slice", [[0], [1]]), ("get_slice", [[0, 0], [1, 2]])],
    "File": [("find_sections", [lambda s: True, 1]), ("find_sections", [lambda s: "sub" in s.name])],
    "Section": [("find_sections", [lambda s: True, 1]), ("find_related", [lambda s: True])],
    "Block": [("find_sources", [lambda s: True, 1])],
    "Source": [("find_sources", [lambda s: True, 1])],
}
READ_CALLS = {k: [(n, a) for n, a in v] for k, v in READ_CALLS.items()}


class _Enc(json.JSONEncoder):
    def default(self, o):
        return "<fn>" if callable(o) else json.JSONEncoder.default(self, o)


def snapshot(f, objs):
    """every public property of every collected object, and the parameterless read methods"""
    snap = {}
    for path, cn in objs:
        key0 = json.dumps(path)
        try:
            o = resolve(f, path)
        except Exception as e:
            snap[key0] = "resolve-error:" + type(e).__name__
            continue
        props, _, methods = public_members(type(o))
        for name in props:
            try:
                snap[key0 + "." + name] = canon_value(getattr(o, name))
            except Exception as e:
                snap[key0 + "." + name] = "raises:" + type(e).__name__
        for name in ("items", "len", "row_count", "is_open", "validate", "iter_dimensions", "inherited_properties",
                     "find_sections", "find_sources"):
            if name in methods:
                try:
                    r = getattr(o, name)()
                    if name == "validate":
                        r = sorted(str(k) for k in (r.get("errors", {}) or {}))[:5] if isinstance(r, dict) else str(type(r))
                    elif inspect.isgenerator(r):
                        r = list(r)
                    snap[key0 + "." + name + "()"] = canon_value(r)
                except Exception as e:
                    snap[key0 + "." + name + "()"] = "raises:" + type(e).__name__
        for name, args in READ_CALLS.get(type(o).__name__, []):
            if name not in methods:
                continue
            key = "%s.%s(%s)" % (key0, name, json.dumps(args, cls=_Enc))
            try:
                r = getattr(o, name)(*args)
                if inspect.isgenerator(r):
                    r = list(r)
                if type(r).__name__ == "DataView":       # tagged / feature data: the values, not the handle
                    r = ["DataView", canon_value(r[:])]
                snap[key] = canon_value(r)
            except Exception as e:
                snap[key] = "raises:" + type(e).__name__
        if hasattr(type(o), "read_direct") or type(o).__name__ in ("DataArray", "DataView", "DataFrame"):
            try:
                snap[key0 + "[:]"] = canon_value(o[:])
            except Exception as e:
                snap[key0 + "[:]"] = "raises:" + type(e).__name__
    return snap


# ---- call candidates -------------------------------------------------------------------

PRIMS = ["zz_val", 2.5, 7, True, [1.0, 2.0, 3.0], ["mV", "s"], ["a", "b"], "mV", None, "tagged", [0.5, 1.0], 0,
         [[0.0, 0.5], [1.0, 1.0]], {"$odml": "int"}, {"$odml": "text"}, {"$odml": "float"}, [3]]
BY_NAME = {
    "name": ["zz_new"], "type_": ["zz.type"], "array_type": ["zz.type"],
    "data": [[1.0, 2.0, 3.0], [4, 5], ["x", "y"], "$DataArray"],
    "position": [[0.5, 0.5]], "positions": ["$DataArray"], "extents": ["$DataArray"], "link_type": ["tagged"],
    "ticks": [[1.0, 2.0, 3.0]], "labels": [["a", "b"]], "label": ["zz"], "unit": ["mV"],
    "sampling_interval": [0.5], "offset": [0.25], "time": [1234567890], "index": [0, 1], "axis": [0],
    "item": ["$*", 0], "items": [["$*"]], "key": ["zz_key", 0], "value": [5.0, "zz"], "values_or_dtype": [[1, 2]],
    "column": [[1.0, 2.0]], "datatype": [None], "rows": [[("c", 3.0)]], "cell": [9.0], "col_dict": [{"n": "str"}],
    "data_array": ["$DataArray"], "data_frame": ["$DataFrame"], "obj": ["$Section"], "enable": [False],
    "col_name": ["v"], "row_idx": [0],
}
# recipes for calls whose arguments cannot be guessed from parameter names (tried first; the generic candidates follow)
SPECIAL = {
    "create_data_frame": [{"kw": {"name": "zz_df", "type_": "zz.type", "col_dict": {"n": "str", "v": "float"},
                                  "data": [["a", 1.0]]}}],
    "append_rows": [[[["c", 3.0]]]],
    "write_rows": [[[["c", 3.0]], [0]]],
    "write_cell": [{"args": [9.0], "kw": {"position": [0, 1]}}],
    "write_column": [{"args": [[5.0, 6.0]], "kw": {"name": "v"}}],
    "link_data_array": [["$DataArray", [0]], ["$DataArray", [-1]]],
    "link_data_frame": [["$DataFrame", 1]],
    "copy_section": [["$Section", True, False, "zz_copy"], ["$Section", False, True, "zz_copy2"]],
    # calls whose argument must fit the object they are made on: built from the object's own data
    "write_direct": [[{"$self": "read_rows", "args": [[1, 0]]}], [{"$selfdata": True}]],
    "__setitem__": [[0, {"$self": "read_rows", "args": [[1]], "index": 0}]],
    "append": [[{"$self": "read_rows", "args": [[0]]}]],
}


def _refs_by_class(objs):
    d = {}
    for path, cn in objs:
        d.setdefault(cn, []).append(path)
    return d


def _expand(val, refs):
    """candidate JSON values: '$Class' -> refs to objects of that class, '$*' -> one of every class"""
    if isinstance(val, str) and val.startswith("$"):
        if val == "$*":
            return [{"$ref": ps[-1]} for cn, ps in sorted(refs.items()) if cn not in ("File",)]
        ps = refs.get(val[1:], [])
        return [{"$ref": p} for k, p in enumerate(ps) if k == 0 or k >= len(ps) - 2]   # the first (shortest path) and the last two
    if isinstance(val, list) and len(val) == 1 and isinstance(val[0], str) and val[0].startswith("$"):
        return [[x] for x in _expand(val[0], refs)]
    return [val]


def _materialise(f, v, o=None):
    if isinstance(v, dict) and "$ref" in v:
        return resolve(f, v["$ref"])
    if isinstance(v, dict) and "$self" in v:        # a value read from the object the call is made on
        r = getattr(o, v["$self"])(*v.get("args", []))
        return r[v["index"]] if "index" in v else r
    if isinstance(v, dict) and "$selfdata" in v:    # the object's own data, changed
        return o[:] + 1
    if isinstance(v, dict) and "$odml" in v:
        from nixio.property import OdmlType
        return OdmlType(v["$odml"])
    if isinstance(v, dict):
        return {k: (str if x == "str" else float if x == "float" else x) for k, x in v.items()}
    if isinstance(v, list):
        return [(_materialise(f, x, o) if not (isinstance(x, list) and x and isinstance(x[0], str) and len(x) == 2
                                              and isinstance(x[1], float)) else tuple(x)) for x in v]
    return v


def candidate_calls(cls, refs, cur_values):
    """call specs (without the object path) to try on an object of class `cls`"""
    _, setters, methods = public_members(cls)
    out = []
    for name in setters:
        vals = []
        cur = cur_values.get(name)
        if isinstance(cur, str):
            vals.append(cur + "x")
        elif isinstance(cur, bool):
            vals.append(not cur)
        elif isinstance(cur, (int, float)):
            vals.append(cur + 1)
        for p in PRIMS:
            vals.extend(_expand(p, refs))
        for cn in ("Section", "DataArray"):
            vals.extend(_expand("$" + cn, refs))
        out.append(("set", name, vals))
    for name in methods:
        if name in SKIP_CALLS:
            continue
        fn = inspect.getattr_static(cls, name)
        try:
            sig = inspect.signature(fn)
        except (TypeError, ValueError):
            continue
        params = [p for p in list(sig.parameters.values())[1:]
                  if p.kind in (p.POSITIONAL_ONLY, p.POSITIONAL_OR_KEYWORD)]
        required = [p for p in params if p.default is p.empty]
        variadic = any(p.kind == p.VAR_POSITIONAL for p in sig.parameters.values())
        argsets = []

        def cands(p):
            vs = []
            for v in BY_NAME.get(p.name, []):
                vs.extend(_expand(v, refs))
            if not vs:
                for v in PRIMS[:8]:
                    vs.extend(_expand(v, refs))
                vs.extend(_expand("$*", refs))
            return vs
        for sp in SPECIAL.get(name, []):
            if isinstance(sp, list):
                exp = [[]]
                for a in sp:
                    exp = [c + [v] for c in exp for v in _expand(a, refs)][:6]
                argsets.extend(exp)
            else:
                argsets.append(sp)
        if name == "__delitem__":
            argsets += [[0], ["$name0"]]
        elif not required:
            argsets.append([])
            # optional parameters that make the call meaningful
            opt = [p for p in params if p.name in BY_NAME]
            if opt:
                kw = {}
                for p in opt[:4]:
                    vs = cands(p)
                    if vs:
                        kw[p.name] = vs[0]
                argsets.append({"kw": kw})
            if variadic:
                for v in _expand("$DataArray", refs):
                    argsets.append([v, 0])
        else:
            lists = [cands(p) for p in required]
            combos = [[]]
            for l in lists:
                combos = [c + [v] for c in combos for v in l][:40]
            argsets.extend(combos)
            if name.startswith("create_") or name.startswith("append_"):
                opt = [p for p in params if p.default is not p.empty and p.name in ("data", "position", "positions")]
                for c in combos[:2]:
                    kw = {p.name: cands(p)[0] for p in opt if cands(p)}
                    if kw:
                        argsets.append({"args": c, "kw": kw})
        out.append(("call", name, argsets))
    return out


def do_call(f, path, spec):
    """perform one call spec on the object at `path`; returns the API's return value"""
    o = resolve(f, path)
    kind, name, arg = spec
    if kind == "set":
        setattr(o, name, _materialise(f, arg, o))
        return None
    if isinstance(arg, dict):
        args = [_materialise(f, a, o) for a in arg.get("args", [])]
        kw = {k: _materialise(f, v, o) for k, v in arg.get("kw", {}).items()}
    else:
        args = [_materialise(f, a, o) for a in arg]
        kw = {}
    if name == "__delitem__" and args == ["$name0"]:
        args = [o[0].name]
    r = getattr(o, name)(*args, **kw)
    if inspect.isgenerator(r):
        r = list(r)
    return r


def discover_mutating_calls(ctx, src, objs, per_member=2, log=None):
    """try candidate calls in writable sessions on copies of `src`; a call is *mutating* when it succeeds there
    and the bytes of the flushed file change.  Returns [(path, spec)], {member: status}."""
    nixio = _nix()
    refs = _refs_by_class(objs)
    found = []
    status = {}
    work = ctx.tmpfile("w-%d.nix" % ctx.rng.getrandbits(40))
    state = {"f": None, "sha": None}

    def reopen():
        if state["f"] is not None:
            try:
                state["f"].close()
            except Exception:
                pass
        shutil.copyfile(src, work)
        state["f"] = nixio.File.open(work, nixio.FileMode.ReadWrite)
        state["f"].flush()
        state["sha"] = sha_file(work)
    with patched(T_SESSION, idseed="disc"), contextlib.redirect_stdout(io.StringIO()):
        reopen()
        seen_cls = {}
        for path, cn in objs:
            if seen_cls.get(cn, 0) >= 2:
                continue
            seen_cls[cn] = seen_cls.get(cn, 0) + 1
            try:
                o = resolve(state["f"], path)
            except Exception:
                reopen()
                try:
                    o = resolve(state["f"], path)
                except Exception:
                    continue
            cls = type(o)
            cur = {}
            for n in public_members(cls)[1]:
                try:
                    cur[n] = getattr(o, n)
                except Exception:
                    cur[n] = None
            for kind, name, options in candidate_calls(cls, refs, cur):
                member = "%s.%s%s" % (cn, name, "=" if kind == "set" else "()")
                kept = 0
                tried = 0
                for arg in options:
                    if kept >= per_member or tried >= 45:
                        break
                    tried += 1
                    spec = [kind, name, arg]
                    dirty = True
                    try:
                        do_call(state["f"], path, spec)
                        ok = True
                    except Exception:
                        ok = False
                    try:
                        if not state["f"].is_open():
                            raise RuntimeError("closed")
                        state["f"].flush()
                        s = sha_file(work)
                        dirty = s != state["sha"]
                    except Exception:
                        dirty = True
                    if ok and dirty:
                        found.append((path, spec))
                        kept += 1
                    if dirty:
                        reopen()     # every candidate sees the original file
                if member not in status or kept:
                    status[member] = "mutating" if kept else status.get(member, "no-mutating-candidate")
        try:
            state["f"].close()
        except Exception:
            pass
    if os.path.exists(work):
        os.remove(work)
    return found, status


# ---------------------------------------------------------------------------------------
# implementation side of the correspondence


KNOWN_ERR = ("InvalidFile", "DuplicateName", "KeyError", "IndexError", "TypeError", "ValueError", "RuntimeError",
             "AttributeError")


def classify(e, readonly_session=False):
    if readonly_session:
        return "H5ReadOnly"     # only ok/refused is compared inside a read-only session
    if "no write intent" in str(e):
        return "H5ReadOnly"
    from nixio.exceptions import InvalidFile, DuplicateName
    if isinstance(e, InvalidFile):
        return "InvalidFile"
    if isinstance(e, DuplicateName):
        return "DuplicateName"
    for cls, nm in ((KeyError, "KeyError"), (IndexError, "IndexError"), (TypeError, "TypeError"),
                    (ValueError, "ValueError"), (RuntimeError, "RuntimeError"), (AttributeError, "AttributeError"),
                    (OSError, "OSError")):
        if isinstance(e, cls):
            return nm
    return type(e).__name__


class _Stub:
    """carries format / version / id the way File exposes them"""

    def __init__(self, hd):
        self._hd = hd

    @property
    def format(self):
        return self._hd["format"]

    @property
    def version(self):
        return tuple(self._hd["version"])     # TypeError for None, as File.version

    @property
    def id(self):
        return self._hd["id"]


def _kv_lookup(f, k):
    try:
        if k[0] == "block":
            b = f.blocks[k[1]]
            if len(k) == 2:
                return b.type
            if k[2] == "definition" and len(k) == 3:
                return b.definition
            if k[2] == "array":
                a = b.data_arrays[k[3]]
                if len(k) == 4:
                    return a.type
                if k[4] == "label" and len(k) == 5:
                    return a.label
        elif k[0] == "section":
            s = f.sections[k[1]]
            if len(k) == 2:
                return s.type
            if k[2] == "definition" and len(k) == 3:
                return s.definition
    except (KeyError, IndexError):
        return None
    return None


def _kv_keys(f):
    out = []
    for b in f.blocks:
        out.append(["block", b.name])
        if b.definition is not None:
            out.append(["block", b.name, "definition"])
        for a in b.data_arrays:
            out.append(["block", b.name, "array", a.name])
            if a.label is not None:
                out.append(["block", b.name, "array", a.name, "label"])
    for s in f.sections:
        out.append(["section", s.name])
        if s.definition is not None:
            out.append(["section", s.name, "definition"])
    return out


def _kv_put(f, k, v):
    if k[0] == "block":
        if len(k) == 2:
            if k[1] in f.blocks:
                f.blocks[k[1]].type = v
            else:
                f.create_block(k[1], v)
            return
        b = f.blocks[k[1]]
        if k[2] == "definition" and len(k) == 3:
            b.definition = v
            return
        if k[2] == "array":
            if len(k) == 4:
                if k[3] in b.data_arrays:
                    b.data_arrays[k[3]].type = v
                else:
                    b.create_data_array(k[3], v, data=[1.0, 2.0])
                return
            if k[4] == "label" and len(k) == 5:
                b.data_arrays[k[3]].label = v
                return
    elif k[0] == "section":
        if len(k) == 2:
            if k[1] in f.sections:
                f.sections[k[1]].type = v
            else:
                f.create_section(k[1], v)
            return
        if k[2] == "definition" and len(k) == 3:
            f.sections[k[1]].definition = v
            return
    raise ValueError("harness: unsupported key %r" % (k,))


def _kv_del(f, k):
    if k[0] == "block" and len(k) == 2:
        del f.blocks[k[1]]
    elif k[0] == "block" and len(k) == 4 and k[2] == "array":
        del f.blocks[k[1]].data_arrays[k[3]]
    elif k[0] == "section" and len(k) == 2:
        del f.sections[k[1]]
    else:
        raise ValueError("harness: unsupported delete key %r" % (k,))


def _is_prefix(p, k):
    return k[:len(p)] == p


def run_hist(ctx, disk, events, path=None, digest=False):
    """a history on one path through the real nixio; `path` given = the file is already there"""
    nixio = _nix()
    if path is None:
        path = ctx.tmpfile("hist-%d.nix" % ctx.rng.getrandbits(48))
        craft(path, disk)
    f = None
    ro = False
    outs = []
    with patched(T_SESSION):
        try:
            for ev in events:
                kind = ev[0]
                if kind == "open":
                    if f is not None:
                        outs.append({"ignored": True})
                        continue
                    try:
                        f = nixio.File.open(path) if ev[1] is None else nixio.File.open(path, ev[1])
                        ro = f._h5file.mode == "r"
                        outs.append({"opened": {"mode": f.mode, "writable": not ro}})
                    except Exception as e:
                        f = None
                        outs.append({"refused": classify(e)})
                        del e
                        gc.collect()
                elif kind == "close":
                    if f is None:
                        outs.append({"ignored": True})
                    else:
                        f.close()
                        f = None
                        outs.append({"closed": True})
                elif kind == "remove":
                    if f is not None:
                        outs.append({"ignored": True})
                    else:
                        _rm_path(path)
                        outs.append({"closed": True})
                elif f is None:
                    outs.append({"ignored": True})
                elif kind == "get":
                    outs.append({"val": _kv_lookup(f, ev[1])})
                elif kind == "keys":
                    outs.append({"keys": sorted(k for k in _kv_keys(f) if _is_prefix(ev[1], k))})
                elif kind == "header":
                    outs.append({"header": {"format": f.format, "version": [int(x) for x in f.version], "id": f.id}})
                elif kind in ("put", "del", "api"):
                    try:
                        if kind == "put":
                            _kv_put(f, ev[1], ev[2])
                        elif kind == "del":
                            _kv_del(f, ev[1])
                        else:
                            spec = json.loads(ev[1])
                            with contextlib.redirect_stdout(io.StringIO()):
                                do_call(f, spec["path"], spec["spec"])
                        outs.append({"done": True})
                    except Exception as e:
                        outs.append({"refused": classify(e, ro)})
                    if not f.is_open():       # an api call closed the file
                        f = None
                else:
                    outs.append({"bad": "unknown event"})
        finally:
            if f is not None:
                try:
                    f.close()
                except Exception:
                    pass
            gc.collect()
    res = {"ok": {"outs": outs, "disk": dump(path, digest)}}
    _rm_path(path)
    return res


def run_create_header(ctx, hd, fid):
    """File._create_header() on an HDF5 file whose root carries the attributes of `hd`; util.create_id -> fid"""
    import h5py
    import numpy as np
    import nixio
    import nixio.util as U
    from nixio.hdf5.h5group import H5Group
    path = ctx.tmpfile("hdr-%d.h5" % ctx.rng.getrandbits(48))
    h = h5py.File(path, "w")
    saved = U.create_id
    try:
        if hd["format"] is not None:
            h.attrs["format"] = hd["format"]
        if hd["version"] is not None:
            h.attrs["version"] = np.array(hd["version"], dtype=np.int32)
        if hd["id"] is not None:
            h.attrs["id"] = hd["id"]
        obj = object.__new__(nixio.File)
        obj._h5file = h
        obj._root = H5Group(h, "/")
        U.create_id = lambda: fid
        try:
            obj._create_header()
        except Exception as e:
            return {"err": classify(e)}
        a = h.attrs
        ver = a.get("version")
        return {"ok": {"format": _decode(a.get("format")), "version": None if ver is None else [int(x) for x in ver],
                       "id": _decode(a.get("id"))}}
    finally:
        U.create_id = saved
        h.close()
        os.remove(path)


def run_impl(ctx, case, path=None):
    from nixio import file as F
    from nixio import util as U
    import h5py
    op = case[0]
    try:
        if op == "is_uuid":
            return {"ok": bool(U.is_uuid(case[1]))}
        if op == "can_write":
            return {"ok": bool(F.can_write(_Stub({"version": case[1]})))}
        if op == "can_read":
            return {"ok": bool(F.can_read(_Stub({"version": case[1]})))}
        if op == "map_mode":
            v = F.map_file_mode(case[1])
            for nm in ("ACC_RDONLY", "ACC_RDWR", "ACC_TRUNC"):
                if v == getattr(h5py.h5f, nm):
                    return {"ok": nm}
            return {"ok": "flag:%r" % (v,)}
        if op == "tuple_ge":
            return {"ok": tuple(case[1]) >= tuple(case[2])}
        if op == "check":
            F.File._check_header(_Stub(case[2]), case[1])
            return {"ok": None}
        if op == "create_header":
            return run_create_header(ctx, case[1], case[2])
        if op == "hist":
            digest = bool(case[1]) and any(kv[0] == ["#h5"] for kv in case[1].get("content", []))
            return run_hist(ctx, case[1], case[2], path=path, digest=digest)
    except Exception as e:
        return {"err": classify(e)}
    return {"bad": "unknown op"}


def canon_out(o):
    """make model and implementation outputs comparable: ids renamed by first occurrence, key lists and content
    sorted, the pseudo key '#h5' dropped from key listings"""
    names = {}

    def rid(s):
        if s is None:
            return None
        if s not in names:
            names[s] = "#%d%s" % (len(names) + 1, "" if py_is_uuid(s) else "!")
        return names[s]

    def walk(x):
        if isinstance(x, dict):
            y = {}
            for k, v in x.items():
                if k == "id" and (v is None or isinstance(v, str)):
                    y[k] = rid(v)
                elif k == "keys" and isinstance(v, list):
                    y[k] = sorted(kk for kk in v if kk != ["#h5"])
                elif k == "content" and isinstance(v, list):
                    y[k] = sorted(v, key=lambda kv: kv[0])
                elif k in ("hex", "files") and ("blob" in x or "dir" in x):
                    continue
                else:
                    y[k] = walk(v)
            return y
        if isinstance(x, list):
            return [walk(v) for v in x]
        return x
    # outs first (session order), then the final disk
    if isinstance(o, dict) and isinstance(o.get("ok"), dict) and "outs" in o["ok"]:
        return {"ok": {"outs": walk(o["ok"]["outs"]), "disk": walk(o["ok"]["disk"])}}
    return walk(o)


# ---------------------------------------------------------------------------------------
# generators


WORDS = ["alpha", "beta", "gamma", "delta", "eps", "zeta", "eta", "theta"]
BAD_IDS = [None, "", "xx", "None", "not-a-uuid", VALID_ID[:-1], VALID_ID + "0", "g" + VALID_ID[1:],
           VALID_ID.replace("-", "_"), "0x" + VALID_ID.replace("-", "")[2:], " " + VALID_ID.replace("-", "")[1:]]
GOOD_IDS = [VALID_ID, VALID_ID.upper(), "{" + VALID_ID + "}", "urn:uuid:" + VALID_ID, VALID_ID.replace("-", ""),
            "0x" + VALID_ID.replace("-", "")[2:], "+" + VALID_ID.replace("-", "")[1:],
            VALID_ID.replace("-", "")[:30] + "_" + VALID_ID.replace("-", "")[30:31]]
ID_ALPHA = list("0123456789abcdefABCDEFgxX_-+{} \t\nurn:id")


def gen_id_strings(rng, n):
    out = []
    for _ in range(n):
        base = "%032x" % rng.getrandbits(128)
        s = base[:8] + "-" + base[8:12] + "-" + base[12:16] + "-" + base[16:20] + "-" + base[20:]
        k = rng.randint(0, 9)
        if k == 0:
            s = s.upper()
        elif k == 1:
            s = "{" + s + "}"
        elif k == 2:
            s = rng.choice(["urn:uuid:", "urn:", "uuid:", "uuid:urn:", "uurn:rn:"]) + s
        elif k == 3:
            s = s.replace("-", "")
        elif k in (4, 5, 6):
            # a few point mutations
            cs = list(s if rng.random() < 0.5 else s.replace("-", ""))
            for _m in range(rng.randint(1, 3)):
                i = rng.randrange(len(cs) + 1)
                m = rng.randint(0, 2)
                if m == 0 and cs:
                    cs[min(i, len(cs) - 1)] = rng.choice(ID_ALPHA)
                elif m == 1:
                    cs.insert(i, rng.choice(ID_ALPHA))
                elif cs:
                    del cs[min(i, len(cs) - 1)]
            s = "".join(cs)
        elif k == 7:
            h = base
            pre = rng.choice(["0x", "0X", "+", "-", " ", "0x_", "_", "+0x", "\t", "0_"])
            s = pre + h[len(pre):]
            if rng.random() < 0.3:
                s = s[:-1] + rng.choice([" ", "_", "\n"])
            if rng.random() < 0.3:
                i = rng.randrange(2, 30)
                s = s[:i] + rng.choice(["_", "__"]) + s[i + rng.choice([1, 2]):]
        elif k == 8:
            s = "".join(rng.choice(ID_ALPHA) for _ in range(rng.choice([0, 1, 5, 31, 32, 32, 33, 36, 38])))
        out.append(s)
    return out


def version_grid(lib, wide):
    lx, ly, lz = lib
    xs = sorted(set([0, 1, 2, lx - 1, lx, lx + 1]))
    ys = sorted(set([0, 1, 2, 3, ly - 1, ly, ly + 1] + ([ly + 2, 9] if wide else [])))
    zs = sorted(set([0, 1, lz - 1, lz, lz + 1] + ([7] if wide else [])))
    return [[x, y, z] for x in xs for y in ys for z in zs if x >= 0 and y >= 0 and z >= 0]


def gen_cases(ctx):
    rng = ctx.rng
    lib = _lib_version()
    cases = []
    dist = {}

    def add(kind, c):
        cases.append(c)
        dist[kind] = dist.get(kind, 0) + 1

    def fid():
        return str(_uuid.UUID(int=rng.getrandbits(128), version=4))

    # --- pure functions -------------------------------------------------------------------
    for s in GOOD_IDS + BAD_IDS:
        add("is_uuid.fixed", ["is_uuid", s])
    for s in gen_id_strings(rng, B(ctx, 4000, 60000)):
        add("is_uuid.gen", ["is_uuid", s])
    wide = version_grid(lib, True)
    for v in wide:
        add("can_read.grid", ["can_read", v])
        add("can_write.grid", ["can_write", v])
    odd = [None, [], [1], [1, 2], [1, 2, 1, 0], [1, 2, -1], [-1, 2, 1], [1, -2, 1], list(lib) + [0], list(lib[:2])]
    for v in odd:
        add("can_read.odd", ["can_read", v])
        add("can_write.odd", ["can_write", v])
    for _ in range(B(ctx, 300, 3000)):
        n = rng.choice([0, 1, 2, 3, 3, 3, 3, 4, 5])
        v = [rng.choice([0, 1, 2, 3, lib[0], lib[1], lib[2], -1, 10, 2 ** 31 - 1]) for _ in range(n)]
        add("can_read.random", ["can_read", v])
        add("can_write.random", ["can_write", v])
        w = [rng.choice([0, 1, 2, 3, -1]) for _ in range(rng.choice([0, 1, 2, 3, 3, 4]))]
        add("tuple_ge", ["tuple_ge", v, w])
        add("tuple_ge", ["tuple_ge", v, [1, 2, 0]])
    for m in ["r", "a", "w", "x", "", "rw", "R", "A", "W", "r+", "ra", " r"]:
        add("map_mode", ["map_mode", m])
    tags = ["nix", "hdf", None, "NIX", "nix ", "", "nixx"]
    for v in wide + odd:
        for m in ["r", "a", "w", "x"]:
            for tag in (tags if (v in odd or rng.random() < 0.15) else ["nix", "nix", rng.choice(tags)]):
                i = rng.choice(GOOD_IDS + BAD_IDS + [VALID_ID] * 6)
                add("check", ["check", m, {"format": tag, "version": v, "id": i}])

    # --- _create_header on roots that already carry attributes --------------------------------
    for fmt in (None, "nix", "hdf", ""):
        for ver in (None, [], [0], [1], list(lib), [1, 2], [0, 0, 0]):
            for idv in (None, "", VALID_ID, "xx"):
                add("create_header", ["create_header", {"format": fmt, "version": ver, "id": idv}, fid()])

    # --- real files: one open per file ------------------------------------------------------
    def one_open(kind, disk, mode):
        add(kind, ["hist", disk, [["open", mode, fid()], ["header"], ["keys", []], ["close"]]])
    near = [v for v in version_grid(lib, False)]
    grid = near if not ctx.quick() else [v for v in near if abs(v[0] - lib[0]) <= 1 and abs(v[1] - lib[1]) <= 1
                                          and (abs(v[2] - lib[2]) <= 1 or v[2] == 0)]
    for v in grid:
        for mode in ["r", "a", "w"]:
            for idv in [VALID_ID, "xx", None]:
                for tag in ["nix", "hdf"]:
                    if tag == "hdf" and ctx.quick() and rng.random() < 0.6:
                        continue
                    one_open("file.grid", full_disk(tag, v, idv), mode)
    for _ in range(B(ctx, 150, 2000)):
        v = rng.choice(wide) if rng.random() < 0.8 else rng.choice([x for x in odd if x is not None])
        disk = full_disk(rng.choice(tags + ["nix"] * 8), v, rng.choice(GOOD_IDS + BAD_IDS + [VALID_ID] * 4),
                         *[rng.random() < 0.85 for _ in range(4)])
        if rng.random() < 0.05:
            disk["header"]["version"] = None
        one_open("file.random", disk, rng.choice(["r", "a", "w", "r", "a", "x"]))
    for flags in [(False, True, True, True), (True, False, True, True), (True, True, False, True),
                  (True, True, True, False), (False, False, False, False)]:
        for mode in ["r", "a", "w"]:
            one_open("file.incomplete", full_disk("nix", list(lib), VALID_ID, *flags), mode)
            one_open("file.incomplete", full_disk("nix", [lib[0], max(lib[1] - 1, 0), 0], VALID_ID, *flags), mode)
    for mode in ["r", "a", "w", "x", "", None]:
        one_open("file.missing", None, mode)
    # --- existing paths that are not HDF5 files: every condition x every mode (None = no mode argument) ----
    for _rep in range(B(ctx, 1, 6)):
        for disk in gen_unopenable(ctx):
            for mode in ["r", "a", "w", "x", None]:
                one_open("file.unopenable", disk, mode)
    for disk in (full_disk(), full_disk("hdf"), full_disk("nix", [lib[0], max(lib[1] - 1, 0), 0])):
        one_open("file.defaultmode", disk, None)

    # --- histories: several sessions with content ------------------------------------------
    unop = gen_unopenable(ctx)
    for _ in range(B(ctx, 60, 800)):
        add("history", gen_history(rng, lib, fid, unop))
    return cases, dist


def gen_unopenable(ctx):
    """disk JSONs of existing paths libhdf5 cannot open: one of every kind, contents seeded"""
    rng = ctx.rng
    out = []
    tmp = ctx.tmpfile("gen-%d.nix" % rng.getrandbits(40))
    build_small(tmp, "gen%d" % rng.getrandbits(24))
    with open(tmp, "rb") as fd:
        whole = fd.read()
    os.remove(tmp)
    size = len(whole)
    for k in (8, 9, 512, size // 2, int(size * rng.random()) or 1, size - 1):
        out.append(blob_desc(whole[:max(1, min(k, size - 1))]))              # truncated copies
    out.append(blob_desc(b"\0" * 8 + whole[8:]))                               # wiped signature
    out.append(blob_desc(b"recording notes, not a NIX file\n" * rng.randint(1, 30)))
    out.append(blob_desc(bytes(rng.getrandbits(8) for _ in range(rng.choice([1, 7, 8, 100, 3000])))))
    out.append(blob_desc(HDF5_SIG + b"\0" * rng.choice([0, 1, 88, 1000])))
    out.append(blob_desc(b""))
    out.append(dir_desc([]))
    out.append(dir_desc([["inner.nix", b"inner".hex()], ["z", b"".hex()]]))
    return out


def gen_history(rng, lib, fid, unopenable=()):
    """sessions (open, calls, close)* on one path; the generator keeps a shadow of the keys so that puts have
    an existing parent and most deletes hit something"""
    start = rng.random()
    if unopenable and start < 0.12:
        disk = rng.choice(unopenable)
    elif start < 0.3:
        disk = None
    elif start < 0.8:
        disk = full_disk()
    else:
        v = rng.choice([[lib[0], max(lib[1] - 1, 0), 0], [lib[0], lib[1], lib[2] + 1], [lib[0] + 1, 0, 0], list(lib)])
        disk = full_disk("nix", v, rng.choice([VALID_ID, None]))
    shadow = set()
    exists = disk is not None
    hdf = exists and "header" in disk
    usable = hdf and disk["header"]["version"] == list(lib) and disk["header"]["id"] == VALID_ID
    readable = hdf and disk["header"]["version"][0] == lib[0] and disk["header"]["version"][1] <= lib[1] and \
        (disk["header"]["id"] == VALID_ID or tuple(disk["header"]["version"]) < (1, 2, 0))
    isdir = exists and "dir" in disk
    evs = []
    for _s in range(rng.randint(1, 5)):
        mode = rng.choice(["r", "a", "w", "a", "r", None])
        evs.append(["open", mode, fid()])
        if mode is None:
            mode = "a"
        if isdir:
            is_open, writable = False, False
        elif mode == "w" or (mode == "a" and not exists):
            shadow = set()
            exists = usable = readable = True
            is_open, writable = True, True
        elif mode == "a":
            is_open, writable = usable, True
        else:
            is_open, writable = (exists and readable), False
        for _o in range(rng.randint(0, 8)):
            k = rng.random()
            if k < 0.45:
                key = gen_key(rng, shadow)
                evs.append(["put", list(key), rng.choice(WORDS)])
                if is_open and writable:
                    shadow.add(key)
            elif k < 0.6:
                ents = [x for x in shadow if len(x) in (2, 4) and (x[0] == "section" or x[0] == "block")]
                if ents and rng.random() < 0.8:
                    key = rng.choice(sorted(ents))
                else:
                    key = ("block", rng.choice(WORDS))
                evs.append(["del", list(key)])
                if is_open and writable:
                    shadow = set(x for x in shadow if x[:len(key)] != key)
            elif k < 0.8:
                key = rng.choice(sorted(shadow)) if shadow and rng.random() < 0.8 else gen_key(rng, shadow)
                evs.append(["get", list(key)])
            elif k < 0.9:
                evs.append(["keys", rng.choice([[], ["block"], ["section"], ["block", rng.choice(WORDS)]])])
            else:
                evs.append(["header"])
        evs.append(["close"])
        if rng.random() < 0.08:
            evs.append(["remove"])
            shadow = set()
            exists = usable = readable = isdir = False
    return ["hist", disk, evs]


def gen_key(rng, shadow):
    blocks = sorted(x for x in shadow if x[0] == "block" and len(x) == 2)
    arrays = sorted(x for x in shadow if x[0] == "block" and len(x) == 4)
    secs = sorted(x for x in shadow if x[0] == "section" and len(x) == 2)
    k = rng.random()
    if k < 0.25 or not (blocks or secs):
        return (rng.choice(["block", "section"]), rng.choice(WORDS))
    if k < 0.45 and blocks:
        return rng.choice(blocks) + ("definition",)
    if k < 0.7 and blocks:
        return rng.choice(blocks) + ("array", rng.choice(WORDS))
    if k < 0.8 and arrays:
        return rng.choice(arrays) + ("label",)
    if secs:
        return rng.choice(secs) + ("definition",)
    return (rng.choice(["block", "section"]), rng.choice(WORDS))


def gen_readonly_cases(ctx, n_files):
    """rich files, read-only session: every discovered mutating call + reads; returns cases with their files"""
    out = []
    info = {"files": 0, "calls": 0, "members": {}, "built": {}}
    for i in range(n_files):
        seed = "%d-%d" % (ctx.seed, ctx.rng.getrandbits(32))
        path = ctx.tmpfile("rich-%s.nix" % seed)
        nixio = _nix()
        try:
            info["built"] = build_rich(path, seed)
            f = nixio.File.open(path, nixio.FileMode.ReadOnly)
            try:
                objs = collect(f)
            finally:
                f.close()
        except Exception as e:     # the implementation cannot create / reopen its own file: reported, not fatal
            info.setdefault("errors", []).append("%s: %s" % (type(e).__name__, str(e)[:200]))
            continue
        calls, status = discover_mutating_calls(ctx, path, objs, per_member=1 if ctx.quick() else 2)
        for k, v in status.items():
            if info["members"].get(k) != "mutating":
                info["members"][k] = v
        disk = dump(path, digest=True)
        keys = [kv[0] for kv in disk["content"] if kv[0] != ["#h5"]]
        evs = [["open", "r", VALID_ID], ["keys", []], ["header"]]
        for pth, spec in calls:
            evs.append(["api", json.dumps({"path": pth, "spec": spec}, sort_keys=True)])
            if ctx.rng.random() < 0.15 and keys:
                evs.append(["get", ctx.rng.choice(keys)])
        for k in keys:
            evs.append(["get", k])
        evs += [["keys", []], ["close"], ["open", "r", VALID_ID], ["keys", ["block"]], ["close"]]
        out.append((["hist", disk, evs], path, seed))
        info["files"] += 1
        info["calls"] += len(calls)
    return out, info


def nontrivial(case, out):
    if "err" in out:
        return True
    op = case[0]
    if op == "hist":
        return True
    if op in ("is_uuid", "can_read", "can_write", "tuple_ge"):
        return out.get("ok") is True
    return True


def correspondence(ctx):
    cases, dist = gen_cases(ctx)
    corpus = core.load_corpus(PROP)
    ro_cases, ro_info = gen_readonly_cases(ctx, ctx.budget(1, 4))
    paths = {}
    all_cases = list(corpus) + cases
    for c, p, _seed in ro_cases:
        paths[len(all_cases)] = p
        all_cases.append(c)
        dist["readonly.session"] = dist.get("readonly.session", 0) + 1
    model = core.run_driver(PROP, all_cases)
    disagreements = []
    for e in ro_info.get("errors", []):
        disagreements.append(Disagreement(["hist", None, [["open", "w", VALID_ID], "<populate>", ["close"],
                                                           ["open", "r", VALID_ID]]],
                                          "a file is created, populated and reopened read-only", e))
    seen = set()
    outcomes = {}
    for k, (c, m) in enumerate(zip(all_cases, model)):
        i = run_impl(ctx, c, path=paths.get(k))
        cm, ci = canon_out(m), canon_out(i)
        if cm != ci:
            small = c
            if c[0] == "hist" and len(json.dumps(c)) > 4000:
                small = ["hist", c[1] if c[1] is None else dict(c[1], content="<%d keys>" % len(c[1]["content"])),
                         first_difference(c[2], cm, ci)]
            disagreements.append(Disagreement(small, cm if len(json.dumps(cm)) < 3000 else "<long>",
                                              ci if len(json.dumps(ci)) < 3000 else "<long>"))
        if c[0] == "hist" and isinstance(ci.get("ok"), dict):
            for o in ci["ok"]["outs"]:
                if "opened" in o:
                    outcomes["opened." + o["opened"]["mode"]] = outcomes.get("opened." + o["opened"]["mode"], 0) + 1
                elif "refused" in o:
                    outcomes["refused." + str(o["refused"])] = outcomes.get("refused." + str(o["refused"]), 0) + 1
        elif "err" in i:
            outcomes["err." + i["err"]] = outcomes.get("err." + i["err"], 0) + 1
        if nontrivial(c, i):
            seen.add(core.sha(core.canon(c)))
    disagreements.sort(key=lambda d: len(core.canon(d.case)))
    idx = [k for k in range(len(all_cases)) if len(json.dumps(all_cases[k])) < 600]
    samples = [{"case": all_cases[k], "model": model[k]} for k in sorted(ctx.rng.sample(idx, min(6, len(idx))))]
    uncovered = sorted(k for k, v in ro_info["members"].items() if v != "mutating")
    return {"evaluations": len(all_cases), "distinct_nontrivial": len(seen),
            "rule": "pure functions: is_uuid on fixed + generated id strings (valid spellings, point mutations, int() "
                    "prefixes/underscores/blanks, random), can_read/can_write on the version grid around the library "
                    "version + odd lengths/negatives/missing + random vectors, map_file_mode on letters, _check_header "
                    "on grid x 4 modes x tags x ids (stub object). real HDF5 files crafted with h5py: version grid x "
                    "{r,a,w} x {valid,invalid,missing id} x {nix,other tag}, random headers with missing groups / "
                    "timestamps / version, missing path x 5 modes; each compared on open outcome (error class), "
                    "File.mode, header and key reads, and the file's state read back with h5py. histories: 1-5 "
                    "sessions of random modes with put/del/get/keys/header calls on blocks, arrays, sections. "
                    "read-only sessions on generated files holding every entity kind: every mutating call found by "
                    "introspection (succeeds and changes the file in a writable session on a copy) must be refused, "
                    "reads agree, h5py digest of the whole file unchanged. non-trivial = error / True / any file case",
            "samples": samples,
            "distribution": {"ops": dist, "impl_outcomes": outcomes,
                             "changed_anchors": changed_anchors(),
                             "readonly": {"files": ro_info["files"], "mutating_calls": ro_info["calls"],
                                          "members_mutating": len([1 for v in ro_info["members"].values()
                                                                   if v == "mutating"]),
                                          "members_without_mutating_candidate": uncovered,
                                          "entity_kinds_built": ro_info["built"]}},
            "disagreements": disagreements, "exhaustive": False, "changed_anchors": changed_anchors()}


def first_difference(events, cm, ci):
    """for long histories: the events up to the first differing output"""
    try:
        a, b = cm["ok"]["outs"], ci["ok"]["outs"]
        for k in range(min(len(a), len(b))):
            if a[k] != b[k]:
                return [events[0], "...", events[k], {"index": k, "model": a[k], "impl": b[k]}]
        return [events[0], "...", {"final-disk-differs": True}]
    except Exception:
        return events[:3]


# ---------------------------------------------------------------------------------------
# property oracle on the implementation (independent of the model)


def spec_outcome(mode, tag, ver, id_, lib):
    """the property statement, literally: 'ok' or 'refused' for an existing complete file"""
    if mode == "w":
        return "ok"
    if tag != "nix":
        return "refused"
    ver = tuple(ver)
    needs_id = ver >= (1, 2, 0)
    if needs_id and not py_is_uuid(id_):
        return "refused"
    if mode == "a":
        return "ok" if ver == tuple(lib) else "refused"
    return "ok" if (ver[0] == lib[0] and ver[1] <= lib[1]) else "refused"


def check_gate(ctx, case):
    """['gate', mode, tag, [x,y,z], id(, [data, meta, created, updated])] — open a crafted file and compare with the
    property text.  The optional flags make a file that lacks top-level groups / timestamps File.__init__ would
    add: such a file need not be readable, but a refused or read-only open must still leave its bytes alone"""
    nixio = _nix()
    mode, tag, ver, id_ = case[1:5]
    flags = [bool(x) for x in case[5]] if len(case) > 5 else [True, True, True, True]
    complete = all(flags)
    lib = _lib_version()
    path = ctx.tmpfile("gate-%d.nix" % ctx.rng.getrandbits(48))
    craft(path, full_disk(tag, ver, id_, *flags))
    before = sha_file(path)
    dig0 = dump(path, True)
    want = spec_outcome(mode, tag, ver, id_, lib)
    got, err, fmode, hdr, nblocks, writable = "ok", None, None, None, None, None
    try:
        with patched(T_SESSION):
            f = nixio.File.open(path, mode)
            try:
                fmode = f.mode
                hdr = (f.format, tuple(int(x) for x in f.version), f.id)
                nblocks = len(f.blocks) + len(f.sections)
                writable = f._h5file.mode != "r"
            finally:
                f.close()
    except Exception as e:
        got, err = "refused", "%s: %s" % (type(e).__name__, str(e)[:80])
    gc.collect()
    try:
        after = sha_file(path)
        site = "nixio/file.py:File._check_header"
        if got != want and not (mode == "r" and not complete and got == "refused"):
            return Failure("open outcome differs from the version/format gating rule", case,
                           {"outcome": got, "error": err}, want, site)
        if got == "refused" and after != before:
            return Failure("a refused open changed the file", case, "sha256 changed", "bytes identical", site)
        if got == "ok" and mode == "r":
            if after != before:
                return Failure("a read-only session changed the bytes of the file", case, "sha256 changed",
                               "bytes identical", "nixio/file.py:map_file_mode")
            if writable:
                return Failure("read-only mode yields a writable HDF5 handle", case, "h5py mode r+", "r",
                               "nixio/file.py:map_file_mode")
        if got == "ok" and mode == "a":
            dig1 = dump(path, True)
            if not complete:     # the groups / timestamps were added: header and content must be what they were
                dig1 = {"header": dig1["header"], "content": [kv for kv in dig1["content"] if kv[0] != ["#h5"]]}
                dig0 = {"header": dig0["header"], "content": [kv for kv in dig0["content"] if kv[0] != ["#h5"]]}
            if dig1 != dig0:
                return Failure("opening read-write changed existing content", case, dig1, dig0,
                               "nixio/file.py:File.__init__")
            if not writable:
                return Failure("read-write mode yields a read-only handle", case, "h5py mode r", "r+",
                               "nixio/file.py:map_file_mode")
        if got == "ok" and mode == "w":
            d1 = dump(path)
            if nblocks != 0 or d1["content"]:
                return Failure("overwrite did not yield an empty file", case, d1["content"], [], "nixio/file.py:File.__init__")
            if hdr[0] != "nix" or hdr[1] != tuple(lib) or not py_is_uuid(hdr[2]) or hdr[2] == id_:
                return Failure("overwrite did not write a fresh header", case, list(map(str, hdr)),
                               ["nix", list(lib), "<new uuid>"], "nixio/file.py:File._create_header")
    finally:
        if os.path.exists(path):
            os.remove(path)
    return None


def check_missing(ctx, case):
    """['missing', mode]"""
    nixio = _nix()
    mode = case[1]
    path = ctx.tmpfile("missing-%d.nix" % ctx.rng.getrandbits(48))
    if os.path.exists(path):
        os.remove(path)
    got, err = "ok", None
    try:
        f = _open_in_mode(path, mode)
        f.close()
    except Exception as e:
        got, err = "refused", "%s: %s" % (type(e).__name__, str(e)[:80])
    gc.collect()
    exists = os.path.exists(path)
    try:
        if mode == "r":
            if got != "refused":
                return Failure("opening a missing path read-only did not fail", case, got, "error",
                               "nixio/file.py:File.__init__")
            if exists:
                return Failure("opening a missing path read-only created a file", case, "file exists", "no file",
                               "nixio/file.py:File.__init__")
        else:
            if got != "ok" or not exists:
                return Failure("read-write / overwrite did not create the missing file", case,
                               {"outcome": got, "error": err, "exists": exists}, "created", "nixio/file.py:File.__init__")
            d = dump(path)
            if d["header"]["format"] != "nix" or tuple(d["header"]["version"] or ()) != _lib_version() or \
                    not py_is_uuid(d["header"]["id"]) or d["content"]:
                return Failure("a created file does not carry a fresh header / is not empty", case, d, "fresh header",
                               "nixio/file.py:File._create_header")
    finally:
        if os.path.exists(path):
            os.remove(path)
    return None


# ---- existing paths in every condition they can be in ---------------------------------------

HDF5_SIG = b"\x89HDF\r\n\x1a\n"
# condition -> is it a NIX file of the library's version (the only thing 'r' / 'a' may open)
PATH_CONDS = {
    "nix": True,             # a populated NIX file
    "nix-tail": True,        # the same with bytes appended behind the end of the HDF5 data
    "symlink-nix": True,     # a symbolic link to a populated NIX file
    "hdf5-other": False,     # an HDF5 file of some other application (groups, datasets, no header)
    "hdf5-bare": False,      # an HDF5 file without any object
    "text": False,           # not HDF5 at all
    "binary": False,         # random bytes
    "empty": False,          # zero bytes
    "truncated": False,      # an interrupted copy of a NIX file: cut at the fraction / byte count given by the seed
    "sig-only": False,       # the HDF5 signature followed by zeros
    "no-sig": False,         # a NIX file whose signature bytes were wiped
    "symlink-text": False,   # a symbolic link to a text file
    "dir": False,            # an empty directory
    "dir-full": False,       # a directory with files in it
}
PATH_MODES = ["r", "a", "w", "default", "default-init", "kw"]


def build_small(path, seed):
    """a small populated NIX file, deterministic in seed"""
    nixio = _nix()
    import numpy as np
    r = random.Random("small/%s" % seed)
    with patched(T_BUILD, idseed="small/%s" % seed):
        f = nixio.File.open(path, nixio.FileMode.Overwrite)
        try:
            for i in range(r.randint(1, 2)):
                b = f.create_block("blk%d" % i, "blk.t")
                b.create_data_array("arr", "arr.t", data=np.arange(float(r.randint(50, 900))), label="L")
            s = f.create_section("sec", "meta.t")
            s.create_property("p", [1, 2, 3])
        finally:
            f.close()


def make_path(ctx, cond, seed):
    """put a path into the named condition; returns (path, the file whose bytes are at stake)"""
    import h5py
    r = random.Random("path/%s/%s" % (cond, seed))
    # the name itself varies too: blanks and non-ASCII characters (File.__init__ encodes the path)
    stem = r.choice(["p", "p q", "päß", "p.nix.bak"]) + "-%d" % ctx.rng.getrandbits(40)
    path = ctx.tmpfile(stem + ".nix")
    target = path
    if cond.startswith("symlink-"):
        target = ctx.tmpfile(stem + ".target")
    if cond in ("nix", "nix-tail", "symlink-nix", "truncated", "no-sig"):
        build_small(target, seed)
        size = os.path.getsize(target)
        if cond == "nix-tail":
            with open(target, "ab") as fd:
                fd.write(b"trailing bytes " * r.randint(1, 40))
        elif cond == "truncated":
            k = r.choice([0.05, 0.25, 0.5, 0.75, 0.9, 0.99, 8, 9, 96, 512, 2048, -1, -8, r.random()])
            n = int(k * size) if isinstance(k, float) else (size + k if k < 0 else min(k, size - 1))
            with open(target, "r+b") as fd:
                fd.truncate(max(1, n))
        elif cond == "no-sig":
            with open(target, "r+b") as fd:
                fd.write(b"\0" * 8)
    elif cond == "hdf5-other":
        with h5py.File(target, "w") as h:
            h.create_dataset("x", data=list(range(r.randint(1, 50))))
            h.create_group("data").create_group("blk")
            h.attrs["creator"] = "someone else"
    elif cond == "hdf5-bare":
        h5py.File(target, "w").close()
    elif cond in ("text", "symlink-text"):
        with open(target, "wb") as fd:
            fd.write(b"recording notes, not a NIX file\n" * r.randint(1, 60))
    elif cond == "binary":
        with open(target, "wb") as fd:
            fd.write(bytes(r.getrandbits(8) for _ in range(r.choice([1, 7, 8, 100, 4096]))))
    elif cond == "empty":
        open(target, "wb").close()
    elif cond == "sig-only":
        with open(target, "wb") as fd:
            fd.write(HDF5_SIG + b"\0" * r.choice([0, 1, 88, 1000]))
    elif cond in ("dir", "dir-full"):
        os.makedirs(target)
        if cond == "dir-full":
            with open(os.path.join(target, "inner.nix"), "wb") as fd:
                fd.write(b"inner")
    else:
        raise ValueError("harness: unknown path condition %r" % (cond,))
    if target != path:
        os.symlink(target, path)
    return path, target


def path_state(p):
    """what is at a path, byte for byte"""
    if os.path.islink(p):
        return ["link", os.readlink(p), path_state(os.path.realpath(p))]
    if os.path.isdir(p):
        return ["dir", sorted([n, path_state(os.path.join(p, n))] for n in os.listdir(p))]
    if os.path.isfile(p):
        return ["file", os.path.getsize(p), sha_file(p)]
    return None


def _rm_path(p):
    try:
        if os.path.islink(p) or os.path.isfile(p):
            os.remove(p)
        elif os.path.isdir(p):
            shutil.rmtree(p, ignore_errors=True)
    except OSError:
        pass


def _open_in_mode(path, mode):
    """the spellings of an open: explicit letter, no mode at all (= the default mode), keyword"""
    nixio = _nix()
    if mode == "default":
        return nixio.File.open(path)
    if mode == "default-init":
        return nixio.File(path)
    if mode == "kw":
        return nixio.File.open(path, mode=nixio.FileMode.ReadWrite)
    return nixio.File.open(path, mode)


def check_path(ctx, case):
    """['path', condition, mode, seed] — open an EXISTING path that is in the given condition.  The property:
    read-only never changes anything; the default read-write mode keeps what exists (it creates only a MISSING
    file); whatever is not a NIX file is refused; only overwrite replaces what is there."""
    _, cond, mode, seed = case
    is_nix = PATH_CONDS[cond]
    path, target = make_path(ctx, cond, seed)
    eff = "a" if mode in ("default", "default-init", "kw") else mode
    site = "nixio/file.py:File.__init__"
    try:
        before = path_state(path)
        dig0 = dump(target, True) if is_nix else None
        got, err, nent, hdr, writable, fmode = "ok", None, None, None, None, None
        try:
            with patched(T_SESSION):
                f = _open_in_mode(path, mode)
                try:
                    fmode = f.mode
                    nent = len(f.blocks) + len(f.sections)
                    hdr = (f.format, tuple(int(x) for x in f.version), f.id)
                    writable = f._h5file.mode != "r"
                finally:
                    f.close()
        except Exception as e:
            got, err = "refused", "%s: %s" % (type(e).__name__, str(e)[:80])
            del e
        gc.collect()
        after = path_state(path)
        obs = {"outcome": got, "error": err, "before": before, "after": after}
        if eff in ("r", "a") and not is_nix:
            if got != "refused":
                return Failure("an existing path that does not hold a NIX file was opened (%s) instead of refused"
                               % ("read-only" if eff == "r" else "read-write / default mode"), case, obs,
                               "an error; the path keeps what it held", site)
            if after != before:
                return Failure("a refused %s open changed what the existing path holds"
                               % ("read-only" if eff == "r" else "read-write / default mode"), case, obs,
                               "bytes identical", site)
        if eff in ("r", "a") and is_nix:
            if got != "ok":
                return Failure("an existing NIX file of the library's version was refused", case, obs, "opened", site)
            if eff == "r" and after != before:
                return Failure("a read-only session changed the bytes of the file", case, obs, "bytes identical",
                               "nixio/file.py:map_file_mode")
            if eff == "r" and writable:
                return Failure("read-only mode yields a writable HDF5 handle", case, "h5py mode r+", "r",
                               "nixio/file.py:map_file_mode")
            if eff == "a":
                dig1 = dump(target, True)
                if dig1 != dig0 or nent == 0:
                    return Failure("opening an existing NIX file in the read-write / default mode did not keep its "
                                   "content", case, {"entities": nent, "after": dig1}, dig0, site)
                if not writable or fmode != "a":
                    return Failure("the read-write / default mode did not yield a writable read-write session", case,
                                   {"File.mode": fmode, "writable": writable}, {"File.mode": "a", "writable": True}, site)
        if eff == "w":
            if cond.startswith("dir"):
                # a directory cannot become a file: nothing is promised but that a refusal leaves it alone
                if got == "refused" and after != before:
                    return Failure("a refused overwrite changed the directory at the path", case, obs, "unchanged", site)
            else:
                if got != "ok":
                    return Failure("overwrite of an existing file was refused", case, obs, "empty file, fresh header", site)
                d1 = dump(target)
                if nent != 0 or d1["content"] or hdr[0] != "nix" or hdr[1] != _lib_version() or not py_is_uuid(hdr[2]) \
                        or (dig0 is not None and hdr[2] == dig0["header"]["id"]):
                    return Failure("overwrite did not yield an empty file with a fresh header", case,
                                   {"entities": nent, "header": list(map(str, hdr))}, "empty, fresh header", site)
    finally:
        _rm_path(path)
        _rm_path(target)
        gc.collect()
    return None


def check_ro_call(ctx, case, path=None):
    """['ro_call', seed, objpath, spec] — one mutating call in a read-only session on the rich file of `seed`"""
    nixio = _nix()
    _, seed, pth, spec = case
    own = path is None
    if own:
        path = ctx.tmpfile("roc-%d.nix" % ctx.rng.getrandbits(48))
        build_rich(path, seed)
    before = sha_file(path)
    raised = None
    with patched(T_SESSION, idseed="roc"):
        f = nixio.File.open(path, nixio.FileMode.ReadOnly)
        try:
            try:
                with contextlib.redirect_stdout(io.StringIO()):
                    do_call(f, pth, spec)
            except Exception as e:
                raised = type(e).__name__
        finally:
            try:
                f.close()
            except Exception:
                pass
    gc.collect()
    after = sha_file(path)
    if own:
        os.remove(path)
    site = "nixio/file.py:map_file_mode (read-only access) / %s" % spec[1]
    if after != before:
        return Failure("a mutating call in a read-only session changed the bytes of the file", case,
                       "sha256 changed (call %s)" % ("raised " + raised if raised else "returned"), "bytes identical",
                       site)
    if raised is None:
        return Failure("a mutating call in a read-only session did not fail", case, "returned normally",
                       "an error", site)
    return None


def check_ro_session(ctx, case):
    """['ro_session', seed] — every discovered mutating call of every entity kind, reads, modes, on one rich file"""
    nixio = _nix()
    seed = case[1]
    path = ctx.tmpfile("ros-%d.nix" % ctx.rng.getrandbits(48))
    failures = []
    stats = {"calls": 0, "reads": 0}
    try:
        build_rich(path, seed)
    except Exception as e:
        # the implementation cannot create a file at all: that is the 'missing path' row of the property
        fl = check_missing(ctx, ["missing", "w"])
        stats["build_error"] = "%s: %s" % (type(e).__name__, str(e)[:160])
        return ([fl] if fl is not None else []), stats, {}
    before = sha_file(path)
    f = nixio.File.open(path, nixio.FileMode.ReadOnly)
    try:
        objs = collect(f)
        with patched(T_SESSION):
            snap_ro = snapshot(f, objs)
    finally:
        f.close()
    if sha_file(path) != before:
        failures.append(Failure("reading every property in a read-only session changed the bytes of the file",
                                ["ro_reads", seed], "sha256 changed", "bytes identical", "nixio/file.py:map_file_mode"))
    # the same reads in a writable session on a copy
    cp = ctx.tmpfile("ros-copy-%d.nix" % ctx.rng.getrandbits(48))
    shutil.copyfile(path, cp)
    with patched(T_SESSION):
        f = nixio.File.open(cp, nixio.FileMode.ReadWrite)
        try:
            snap_rw = snapshot(f, objs)
        finally:
            f.close()
    stats["reads"] = len(snap_ro)
    for k in sorted(set(snap_ro) | set(snap_rw)):
        if snap_ro.get(k, "<absent>") != snap_rw.get(k, "<absent>"):
            failures.append(Failure("a read returns something else in a read-only session than in a writable one",
                                    ["ro_reads", seed, k], snap_ro.get(k, "<absent>"), snap_rw.get(k, "<absent>"),
                                    "read-only session"))
            break
    # read-write keeps everything: the copy was opened 'a' and closed
    if dump(cp, True) != dump(path, True):
        failures.append(Failure("opening an existing file read-write and closing it changed its content",
                                ["modes", seed, "a"], "h5 digest changed", "identical content",
                                "nixio/file.py:File.__init__"))
    # overwrite empties
    old_id = dump(cp)["header"]["id"]
    f = nixio.File.open(cp, nixio.FileMode.Overwrite)
    try:
        n = len(f.blocks) + len(f.sections)
        new_id = f.id
    finally:
        f.close()
    d = dump(cp)
    if n != 0 or d["content"] or new_id == old_id or not py_is_uuid(new_id):
        failures.append(Failure("overwrite of a populated file did not yield an empty file with a fresh header",
                                ["modes", seed, "w"], {"entities": n, "content": d["content"][:3],
                                                       "same_id": new_id == old_id}, "empty, new id",
                                "nixio/file.py:File.__init__"))
    os.remove(cp)
    # every mutating call, one read-only session; narrowed to single calls on failure
    calls, status = discover_mutating_calls(ctx, path, objs, per_member=2)
    stats["calls"] = len(calls)
    not_raised = []
    with patched(T_SESSION, idseed="ros"):
        f = nixio.File.open(path, nixio.FileMode.ReadOnly)
        try:
            for pth, spec in calls:
                try:
                    with contextlib.redirect_stdout(io.StringIO()):
                        do_call(f, pth, spec)
                    not_raised.append((pth, spec))
                except Exception:
                    pass
                if not f.is_open():
                    f = nixio.File.open(path, nixio.FileMode.ReadOnly)
        finally:
            try:
                f.close()
            except Exception:
                pass
    gc.collect()
    changed = sha_file(path) != before
    suspects = not_raised if not changed else (not_raised + [c for c in calls if c not in not_raised])
    if changed or not_raised:
        found = False
        for pth, spec in suspects[:400]:
            fl = check_ro_call(ctx, ["ro_call", seed, pth, spec])
            if fl is not None:
                failures.append(fl)
                found = True
                if len(failures) > 8:
                    break
        if not found:
            failures.append(Failure("a read-only session with mutating calls changed the file or accepted a call "
                                    "(not reproducible call by call)", ["ro_session", seed],
                                    {"bytes_changed": changed, "accepted": [s for _, s in not_raised[:5]]},
                                    "every call refused, bytes identical", "read-only session"))
    if os.path.exists(path):
        os.remove(path)
    return failures, stats, status


def check_case(ctx, case):
    kind = case[0]
    if kind == "gate":
        return check_gate(ctx, case)
    if kind == "missing":
        return check_missing(ctx, case)
    if kind == "path":
        return check_path(ctx, case)
    if kind == "ro_call":
        return check_ro_call(ctx, case)
    if kind in ("ro_session", "ro_reads", "modes"):
        fs, _, _ = check_ro_session(ctx, ["ro_session", case[1]])
        return fs[0] if fs else None
    return None


def _hint_cases(h):
    """oracle cases inside the property's scope for a disagreeing correspondence case"""
    out = []
    try:
        if h[0] == "hist":
            disk, evs = h[1], h[2]
            modes = [e[1] for e in evs if isinstance(e, list) and e and e[0] == "open"]
            if disk is None:
                out += [["missing", m] for m in modes if m in ("r", "a", "w")]
            elif isinstance(disk["header"]["version"], list) and len(disk["header"]["version"]) == 3:
                for m in modes:
                    if m in ("r", "a", "w"):
                        out.append(["gate", m, disk["header"]["format"], disk["header"]["version"],
                                    disk["header"]["id"]])
        elif h[0] == "check" and h[1] in ("r", "a", "w") and isinstance(h[2]["version"], list) \
                and len(h[2]["version"]) == 3 and all(-2 ** 31 <= x < 2 ** 31 for x in h[2]["version"]):
            out.append(["gate", h[1], h[2]["format"], h[2]["version"], h[2]["id"]])
        elif h[0] in ("can_read", "can_write") and isinstance(h[1], list) and len(h[1]) == 3 \
                and all(-2 ** 31 <= x < 2 ** 31 for x in h[1]):
            out.append(["gate", "r" if h[0] == "can_read" else "a", "nix", h[1], VALID_ID])
        elif h[0] == "is_uuid":
            out.append(["gate", "r", "nix", list(_lib_version()), h[1]])
    except Exception:
        pass
    return [c for c in out if c[0] != "gate" or (c[2] is None or "\x00" not in c[2])]


def oracle(ctx, broken, hints):
    rng = ctx.rng
    lib = _lib_version()
    cases = []
    for h in hints[:100]:
        cases += _hint_cases(h)
    # fixed cases (past defects / the rows of the property statement)
    lx, ly, lz = lib
    for m in ("r", "a", "w"):
        for v in ([lx, ly, lz], [lx, ly, lz + 1], [lx, max(ly - 1, 0), 0], [lx, ly + 1, 0], [lx + 1, 0, 0],
                  [max(lx - 1, 0), ly, lz], [1, 2, 0], [1, 1, 9], [1, 2, 1], [1, 1, 0]):
            for idv in (VALID_ID, None, "xx"):
                cases.append(["gate", m, "nix", v, idv])
        cases.append(["gate", m, "hdf", [lx, ly, lz], VALID_ID])
        cases.append(["gate", m, None, [lx, ly, lz], VALID_ID])
    for m in ("r", "a", "w", "default", "default-init", "kw"):
        cases.append(["missing", m])
    # an existing path in every condition x every mode (and spelling of the default mode)
    for cond in PATH_CONDS:
        for m in PATH_MODES:
            cases.append(["path", cond, m, "f%d" % rng.getrandbits(24)])
    for _ in range(300 if broken else B(ctx, 40, 600)):
        cases.append(["path", rng.choice(list(PATH_CONDS) + ["truncated"] * 6), rng.choice(PATH_MODES),
                      "g%d" % rng.getrandbits(32)])
    # files lacking what the tail of File.__init__ adds: a refused / read-only open must not add it
    for m in ("r", "a", "w"):
        for v in ([lx, ly, lz], [lx, ly, lz + 1], [lx, max(ly - 1, 0), 0], [lx + 1, 0, 0]):
            for idv in (VALID_ID, None):
                for tag in ("nix", "hdf"):
                    cases.append(["gate", m, tag, v, idv, [rng.random() < 0.5 for _ in range(4)]])
                    cases.append(["gate", m, tag, v, idv, [False, False, False, False]])
    grid = version_grid(lib, broken or not ctx.quick())
    n = 1500 if broken else B(ctx, 250, 3000)
    for _ in range(n):
        cases.append(["gate", rng.choice(["r", "a", "w", "r", "a"]), rng.choice(["nix"] * 6 + ["hdf", "NIX", None, ""]),
                      rng.choice(grid), rng.choice([VALID_ID] * 4 + GOOD_IDS + BAD_IDS)])
    failures = []
    seen = set()
    evaluations = 0
    for c in cases:
        key = core.canon(c)
        if key in seen:
            continue
        seen.add(key)
        evaluations += 1
        f = check_case(ctx, c)
        if f is not None:
            failures.append(f)
    ro_stats = []
    members = {}
    for _ in range(3 if broken else ctx.budget(1, 3)):
        seed = "o%d-%d" % (ctx.seed, rng.getrandbits(32))
        fs, st, status = check_ro_session(ctx, ["ro_session", seed])
        failures += fs
        ro_stats.append(st)
        evaluations += st["calls"] + st["reads"]
        for k, v in status.items():
            if members.get(k) != "mutating":
                members[k] = v
    failures.sort(key=lambda f: len(core.canon(f.input)))
    return {"evaluations": evaluations, "failures": failures, "gate_cases": len(seen), "readonly_sessions": ro_stats,
            "mutating_members": sorted(k for k, v in members.items() if v == "mutating"),
            "members_without_mutating_candidate": sorted(k for k, v in members.items() if v != "mutating")}


def matches_known(entry, failure):
    return False


def replay_failure(ctx, fj):
    return check_case(ctx, fj["input"])


READY = True
MANIFEST = {
    "level_text": "Kernel-checked theorems over a Lean model of nixio/file.py whose constants, map_file_mode chain, "
                  "can_write comparison, can_read condition, _check_header dispatch, id threshold, _create_header call "
                  "order and the shape of File.__init__ / File.open (default mode, guards, create-or-open condition, "
                  "rebound mode, ordered tail) are regenerated from the source on every run: for ALL integer version "
                  "triples, format tags, id strings and mode strings the open outcome is the table of the property "
                  "(write iff version = library's; read iff same major and minor not newer; id required from 1.2.0 "
                  "on; wrong tag InvalidFile; wrong length RuntimeError; the default mode is read-write); for a path in "
                  "ANY condition (missing, HDF5 file, file libhdf5 cannot open incl. empty, directory) a refused open "
                  "changes nothing, only Overwrite replaces what exists, read-only never changes anything, the state "
                  "of a path changes only by Overwrite / creation of a missing file / completion of an accepted file; "
                  "overwrite yields an empty file with the fresh header _create_header writes, which reopens in both "
                  "modes; what may be written may be read; a read-only session is a frame for every list of calls "
                  "(mutators = arbitrary functions) and, by induction, for every history of sessions on any path.",
    "level_note": "Trusted: Lean kernel; axioms propext/Classical.choice/Quot.sound; the file.py translator; the "
                  "stand-ins for libhdf5 (ACC_RDONLY refusal - nixio has no guard of its own; which paths h5f.open / "
                  "h5f.create reject) - tied to the code by running every introspected mutating call of every entity "
                  "kind (146 members) in read-only sessions on generated files with sha256 of the bytes before/after, "
                  "and by opening existing paths in 14 conditions x 6 mode spellings; uuid.UUID acceptance modelled "
                  "for ASCII; file permissions not modelled.",
    "technique": "Lean 4 proof (case analysis + omega over regenerated decision tables and the regenerated shape of "
                 "File.__init__; induction over call lists and session histories) with differential correspondence "
                 "on real HDF5 files crafted with h5py and on non-HDF5 paths",
}
