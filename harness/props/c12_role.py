"""C12 — role links: the setters of positions / extents / Feature.data / metadata / Section.link (and the object a
dimension is asked to link) on the real nixio against Pure/RoleWrite.lean run on Generated/RoleOrder.lean.

A case = (setter, owner with or without a previous link, offered object).  The offered object is abstracted the way
the model sees it: its class (None / DataArray / DataFrame / Section / anything else), where it lives (held by the
owner's block - for sections: anywhere in this file -, another block, ANOTHER FILE, deleted again) and, for
`Section.link` given something that is no Section, whether a section of the file carries it as id.  Observed on both
sides: refused or accepted (error class), the role link afterwards (none / the previous target / a new target), the
`target_type` attribute of a feature, whether `updated_at` of the owner moved.
"""
import h5py
import nixio

# setter -> (owner key, attribute, role link name, key of the value the owner has, key of another valid value,
#            how the link is removed for the state "no previous link" (None: the link is mandatory))
OWNERS = {
    "MultiTag.extents": ("mte", "extents", "extents", "dx", "d1", lambda o: setattr(o, "extents", None)),
    "MultiTag.positions": ("mte", "positions", "positions", "d1", "dx", None),
    "Feature.data": ("ft", "data", "data", "da", "d1", None),
    "Feature.data(frame)": ("fte", "data", "data", "df", "df2", None),
    "Section.link": ("sk", "link", "link", "s2", "s", lambda o: setattr(o, "link", None)),
    "Block.metadata": ("b", "metadata", "metadata", "s", "s2", lambda o: delattr(o, "metadata")),
    "DataArray.metadata": ("d1", "metadata", "metadata", "s2", "s", lambda o: delattr(o, "metadata")),
    "DataFrame.metadata": ("df", "metadata", "metadata", "s2", "s", lambda o: delattr(o, "metadata")),
    "Tag.metadata": ("t", "metadata", "metadata", "s2", "s", lambda o: delattr(o, "metadata")),
    "MultiTag.metadata": ("mte", "metadata", "metadata", "s2", "s", lambda o: delattr(o, "metadata")),
    "Group.metadata": ("g", "metadata", "metadata", "s2", "s", lambda o: delattr(o, "metadata")),
    "Source.metadata": ("src", "metadata", "metadata", "s2", "s", lambda o: delattr(o, "metadata")),
}
DIM_FUNCS = {   # function -> (dimension key, call, key of another valid object)
    "Dimension.link_data_array": ("rl", lambda d, v: d.link_data_array(v, [-1]), ("dx", "da2", "ofd")),
    "Dimension.link_data_frame": ("rl", lambda d, v: d.link_data_frame(v, 0), ("df", "xf", "off")),
}
# offered objects: scene key -> place
PLACES = {"d1": "member", "dx": "member", "da": "member", "df": "member", "df2": "member", "s": "member", "s2": "member",
          "sk": "member", "da2": "otherBlock", "xf": "otherBlock", "ofd": "otherFile", "off": "otherFile", "ofs": "otherFile",
          "ofs2": "otherFile", "dead_da": "deleted", "dead_df": "deleted", "dead_s": "deleted"}
OTHERS = ["none", "int", "text", "tag", "block", "file", "property", "id-of-section", "id-of-array", "id-unknown",
          "id-of-other-file-section", "list-of-array"]


def all_cases():
    cases = []
    for setter, (okey, attr, role, has, alt, unlink) in sorted(OWNERS.items()):
        for linked in ((True, False) if unlink is not None else (True,)):
            for v in sorted(PLACES) + OTHERS:
                if v == has:
                    continue            # the value the owner has: old and new target could not be told apart
                cases.append({"setter": setter, "linked": linked, "value": v})
    for fn, (dkey, call, vals) in sorted(DIM_FUNCS.items()):
        for v in vals:
            cases.append({"setter": fn, "linked": True, "value": v})
    return cases


def value_of(c, v):
    if v in PLACES:
        return c[v]
    return {"none": None, "int": 5, "text": "nope", "tag": c["t"], "block": c["b2"], "file": c["f"], "property": c["pr"],
            "id-of-section": c["s"].id, "id-of-array": c["d1"].id, "id-unknown": "4a6b1e0c-7d11-4c58-9f0e-3b5a2c1d0e9f",
            "id-of-other-file-section": c["ofs"].id, "list-of-array": [c["d1"]]}[v]


def abstract(c, case):
    """the arguments of the driver's role_run"""
    v = value_of(c, case["value"])
    kind = ("none" if v is None else "array" if isinstance(v, nixio.DataArray) else "frame" if isinstance(v, nixio.DataFrame)
            else "section" if isinstance(v, nixio.Section) else "other")
    place = PLACES.get(case["value"], "member")
    setter = case["setter"]
    found = case["value"] == "id-of-section"
    if setter in DIM_FUNCS:
        return ["role_run", setter, kind, place, False, False, True, False]
    okey = OWNERS[setter][0]
    tframe = {"ft": False, "fte": True}.get(okey)
    return ["role_run", setter.replace("(frame)", ""), kind, place, found, okey == "ft", case["linked"], tframe]


def _addr(obj):
    info = h5py.h5o.get_info(obj.id)
    tok = getattr(info, "token", None)
    return (info.fileno, bytes(tok) if tok is not None else info.addr)


def _attr(grp, name):
    if name not in grp.attrs:
        return None
    v = grp.attrs[name]
    return v.decode() if isinstance(v, bytes) else str(v)


def observe(c, case):
    """(group holding the role link, name of the link) -> what readers see"""
    setter = case["setter"]
    if setter in DIM_FUNCS:
        dim = c[DIM_FUNCS[setter][0]]._h5group.group
        if "link" not in dim:
            return {"target": None, "target_frame": None, "stamp": None}
        lg = dim["link"]
        tf = _attr(lg, "data_object_type")
        kids = list(lg.keys())
        return {"target": _addr(lg[kids[0]]) if kids else None, "target_frame": None if tf is None else tf == "DataFrame",
                "stamp": None}
    okey, attr, role = OWNERS[setter][:3]
    grp = c[okey]._h5group.group
    tf = _attr(grp, "target_type") if okey in ("ft", "fte") else None
    return {"target": _addr(grp[role]) if role in grp else None, "target_frame": None if tf is None else tf == "DataFrame",
            "stamp": _attr(grp, "updated_at")}


def run(c, case):
    """the call on the scene `c`; returns the observation in the model's terms (and whether the scene was changed)"""
    setter = case["setter"]
    dirty = False
    if setter not in DIM_FUNCS and not case["linked"]:
        okey = OWNERS[setter][0]
        OWNERS[setter][5](c[okey])
        dirty = True
    v = value_of(c, case["value"])
    before = observe(c, case)
    err = None
    try:
        if setter in DIM_FUNCS:
            DIM_FUNCS[setter][1](c[DIM_FUNCS[setter][0]], v)
        else:
            setattr(c[OWNERS[setter][0]], OWNERS[setter][1], v)
    except Exception as e:      # noqa
        err = type(e).__name__
    after = observe(c, case)
    out = {"err": err,
           "link": None if after["target"] is None else "old" if after["target"] == before["target"] else "new",
           "target_frame": after["target_frame"],
           "stamped": None if setter in DIM_FUNCS else after["stamp"] != before["stamp"], "changed": after != before}
    return out, dirty or after != before or err is None


ERR_CLASS = {"UnsupportedLinkType": "ValueError"}


def canon_impl(i):
    e = i["err"]
    return {"err": ERR_CLASS.get(e, e), "link": i["link"], "target_frame": i["target_frame"], "stamped": i["stamped"]}


def canon_model(m, case):
    if "ok" not in m:
        return {"model": m}
    o = dict(m["ok"])
    if case["setter"] in DIM_FUNCS:
        o["stamped"] = None
    return {"err": o["err"], "link": o["link"], "target_frame": o["target_frame"], "stamped": o["stamped"]}
