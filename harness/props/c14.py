"""C14 — the validator reports every catalogued inconsistency and nothing else (nixio/validator.py).

A *case* is a recipe (JSON): a complete, possibly inconsistent file state.  The builder realises it as a real
HDF5 file through the nixio API (h5py for what the API forbids: attribute / link deletions, renamed dimension
groups, unsorted ticks).  Three things are then computed from it
  * `describe`  : the description of the file as the public API returns it  -> input of the Lean model driver,
  * `run_impl`  : `File.validate()['errors']` keyed by object (object -> index path), messages parsed back into
                  catalogue identifiers + arguments,
  * `expect`    : the error set the property requires, computed from the *recipe* alone with a hand-labelled
                  unit table (independent of nixio.validator, nixio.util.units and of the Lean model).
correspondence = model(describe) vs run_impl (exact, ordered);  oracle = expect vs run_impl (sets per object).
"""
import copy
import math
import os
import random
import re
from fractions import Fraction

import numpy as np

from ..lib import core
from ..lib.core import Failure, Disagreement
from ..extract import validator as _ex
from ..extract import units as _exu
from ..extract import validator_guards as _exg
from . import c14_units as SI
from . import c14_guards as G

PROP = "C14"
LEAN_MODULE = "NixModel.Props.C14"
THEOREMS = ["Nix.C14." + t for t in """
C14_sound C14_silent_wellformed C14_sound_iff C14_objects C14_entry_at C14_reports C14_validate C14_complete_NoType C14_complete_NoName C14_complete_NoDate
C14_complete_NoID_check C14_entity_part C14_dim_message C14_complete_DimensionMismatch
C14_complete_RangeDimTicksMismatch C14_complete_SetDimLabelsMismatch C14_complete_NoTicks C14_complete_UnsortedTicks
C14_complete_InvalidDimensionUnit C14_complete_NoSamplingInterval C14_complete_InvalidSamplingInterval
C14_complete_DimensionIndex C14_complete_NoPosition C14_complete_PositionExtentMismatch
C14_complete_PositionDimensionMismatch C14_complete_ExtentDimensionMismatch C14_complete_ReferenceUnitsMismatch
C14_complete_ReferenceUnitsIncompatible C14_complete_InvalidUnit C14_complete_feature C14_complete_NoPositions
C14_complete_PositionsExtentsMismatch C14_complete_PositionsDimensionMismatch C14_complete_ExtentsDimensionMismatch
C14_complete_mtag_units C14_missing_positions_reported C14_unit_pair_atoms C14_unconvertible_atoms
C14_complete_property C14_catalogue_distinct C14_catalogue_complete
C14_complete_NoID_counterexample C14_complete_NoID_partial C14_emits_entity C14_emits_dims
C14_emits_feature_property C14_emits_tags C14_emits_array C14_traversal_order C14_shape_tag C14_shape_multi_tag
C14_shape_array C14_shape_entities C14_shape_no_other_sites C14_shape_helpers C14_only_emitted C14_never_reported
C14_complete_NoDataType C14_complete_feature_entries
C14_guards_entity C14_guards_file C14_guards_property C14_guards_feature C14_guards_range C14_guards_sampled
C14_guards_array C14_guards_tag C14_guards_multi_tag C14_guards_opaque C14_guards_cover C14_guards_locals
C14_guards_get_dim_units
C14_linked_ticks_count C14_linked_ticks_read C14_link_accepts_any_length C14_linked_is_alias
""".split()]
ASSUMPTIONS = [
    "the validator reads the file only through the public API; the model works on a description of what those reads "
    "return (type/id/name/created_at, shape, descriptors with ticks/labels/interval/unit/index, tag position/extent "
    "lengths, units, references, features), produced by the harness with the same API calls",
    "entity ids are pairwise distinct (results['errors'] is a dict keyed by objects that hash/compare by id; copies "
    "sharing an id would share one entry) - generated files never share ids",
    "float ticks / intervals are compared exactly (Fraction of the double); NaN is not generated",
    "'strictly increasing ticks' is read as: ticks present and every tick smaller than every later one; an unlabelled "
    "set dimension and an absent dimension unit are legal; a tag needs one unit per descriptor of each reference",
    "per-dimension entries concern descriptors paired with a data dimension (zip of descriptors and shape): a surplus "
    "descriptor is reported as DimensionMismatch, its own content is not inspected",
    "a date at the epoch (created_at == 0) is a date, for entities, features and the file alike; the file's date is "
    "missing when its created_at attribute is absent (check_file catches the KeyError of the read; repaired 5bc8e32)",
    "present-but-falsy-looking values are not missing values: type / name strings such as '0', ' ', 'None', a position "
    "or extent of zeros, ticks (0.0,), labels (''), a dimension unit '' (= no unit), a denormal positive sampling "
    "interval; a sampling interval of 0 / -0.0 counts as 'not set' (nixio: `not dim.sampling_interval`; DESIGN C14)",
    "C14_guards_*: the environments give each read the Python value type the API returns (tuples of floats / strings / "
    "ints, optional text and numbers, objects with a length, enum members); the locals posdim / extlen / extdim / "
    "positions / file_created_at / refs_units are what their pinned assignments compute (C14_guards_locals); this "
    "typing and the PyGuard semantics are checked per object against the Python interpreter in the correspondence",
    "features linking a DataFrame are outside the model",
    "util.is_uuid(id) true implies the id is a non-empty string (hypothesis of C14_complete_NoID_partial)",
    "a multi-tag without positions link has the inconsistency 'positions are not set' only: the two comparisons that "
    "need the positions (against the extents, against the references' ranks) are not made",
    "an empty extents array counts as no extents (nixio: `if mtag.extents`)",
    "oracle units: atomic = [SI prefix] + unit symbol of the SI table + [^ signed integer]; convertible = same symbol "
    "and same power; the same power spelled differently ('^+2'/'^2', ''/'^1'), text around a product of units and "
    "products of units against each other are not decided by the property text (either verdict is accepted)",
]
TRUSTED_EXTRA = ["harness/extract/validator.py renders the ValidationError catalogue (identifiers, texts, arities), the "
                 "identifiers each check function refers to with the conditions they sit under, the statements of the "
                 "verdict helpers, and the container order of check_file; harness/extract/validator_guards.py compiles "
                 "the conditions of the report sites into PyGuard expressions (reads, not/and/or, is None, comparisons, "
                 "len, units.is_atomic / is_si, generators over tuples and over one attribute of the referenced arrays, "
                 "the adjacent-pairs idiom); harness/extract/units.py the SI tables and regex shapes",
                 "harness/props/c14.py: file builder (h5py edits), API walk -> description, message parser, and the "
                 "recipe-level expectation; harness/props/c14_units.py: the oracle's own SI prefix / unit tables and "
                 "reader of unit strings; harness/props/c14_guards.py: rendering of the values the reads return as "
                 "typed Python values for the driver, evaluation of the source's condition nodes by the interpreter"]
READY = True


def extract(repo):
    """the validator catalogue, the conditions of the report sites compiled into PyGuard expressions, and - units.py is
    an anchor of C14 as well - the unit tables / regex shapes the model's is_atomic / is_si / scalable are instantiated
    with"""
    out = dict(_ex.extract(repo))
    out.update(_exg.extract(repo))
    out.update(_exu.extract(repo))
    return out


# ---------------------------------------------------------------------------------------
# units: the oracle's own reading of SI unit strings (harness/props/c14_units.py, three-valued: None = undecided)

SI.selftest()
NONSI = SI.NON_SI


def is_atomic_tbl(u):
    return SI.is_atomic(u)


def is_si_tbl(u):
    return SI.is_si(u)


def pair_ok(u, ru):
    """tag unit u against the unit ru of the descriptor at the same position: True = fine, False = unconvertible,
    None = the property text does not decide"""
    if u == "" and ru == "":
        return True
    return SI.convertible(u, ru)


# ---------------------------------------------------------------------------------------
# recipes: generation of well-formed files

def _x():
    return {"del": [], "empty": []}


TICK0 = [-2.0, 0.0, -0.0, 0.5, 10.0]
TICKD = [0.25, 0.5, 1.0, 3.0, "ulp"]
INTERVALS = [0.125, 0.5, 1.0, 2.0, 10.0, 3, 5e-324, 1e-300, 1e300]
# present-but-falsy-looking values of the fields the validator tests for presence: none of them is an inconsistency
ODD_TEXT = ["0", " ", "None", "False", "0.0", "[]", "nan", "()", "-0", "{}", "''", '""', "null", "no"]
ODD_TIMES = [0, 0, 0, 1, -1]
POS_PATTERNS = ["half", "half", "zero", "neg", "mixed"]


def pos_values(pv, n):
    """the position of a tag with n entries (pattern pv): zeros are positions like any other"""
    if pv == "zero":
        return [0.0] * n
    if pv == "neg":
        return [-(float(k) + 0.5) for k in range(n)]
    if pv == "mixed":
        return [0.0 if k % 2 == 0 else float(k) + 0.5 for k in range(n)]
    return [float(k) + 0.5 for k in range(n)]


def ext_values(ev, n):
    return [0.0 if ev == "zero" else 1.0] * n


def gen_dim(rng, n, q=False, odd=False):
    """a well-formed descriptor for a data dimension of n entries.  q: False = free choice; None = no unit (any
    kind); an atom (prefix, base, power) = range / sampled descriptor in a unit of that quantity"""
    kinds = ["range", "sample", "set"] if n > 0 else ["sample", "set"]
    if q is False:
        k = rng.choice(kinds)
        unit = SI.spell(SI.atom(rng, odd)) if rng.random() < 0.6 else None
    elif q is None:
        k = rng.choice(kinds)
        unit = None
    else:
        k = rng.choice([x for x in kinds if x != "set"])
        unit = SI.spell(SI.variant(rng, q))
    if unit is None and rng.random() < 0.25:
        unit = ""                               # an empty unit string is "no unit" as well
    if k == "range":
        t0 = rng.choice(TICK0 if n > 1 or rng.random() < 0.5 else [0.0, -0.0])
        ticks = []
        for _ in range(n):
            ticks.append(t0)
            step = rng.choice(TICKD)
            t0 = math.nextafter(t0, math.inf) if step == "ulp" else t0 + step
        return {"k": "range", "ticks": ticks, "unit": unit, "idx": None}
    if k == "sample":
        return {"k": "sample", "interval": rng.choice(INTERVALS), "unit": unit, "idx": None,
                "offset": rng.choice([None, None, 0.0, -1.5])}
    return {"k": "set", "labels": rng.choice([0, n]), "idx": None, "lt": rng.choice(["num", "num", "empty"])}


def gen_dims(rng, shape, odd=False):
    return [gen_dim(rng, n, False, odd) for n in shape]


def dim_unit(d):
    if d["k"] in ("range", "sample") and d.get("unit"):
        return d["unit"]
    return ""


def gen_shape(rng, rank, minlen=0):
    shape = [rng.choice([1, 2, 3, 4] if rng.random() < 0.93 else [0]) for _ in range(rank)]
    return [max(s, minlen) for s in shape]


def gen_array(rng, rank=None, minlen=0, odd=False):
    rank = rank or rng.choice([1, 1, 2, 2, 3])
    shape = gen_shape(rng, rank, minlen)
    return {"x": _x(), "shape": shape, "dims": gen_dims(rng, shape, odd)}


def plain_array(shape):
    return {"x": _x(), "shape": list(shape), "dims": [{"k": "set", "labels": 0, "idx": None} for _ in shape]}


def fit(r):
    """provider arrays take the extent of the vector they provide (in place): the ticks a linked descriptor must
    present are a key of the descriptor, the provider's shape follows them"""
    for b in r["blocks"]:
        for a in b["arrays"]:
            for d in a["dims"]:
                ln = d.get("link")
                if ln and isinstance(ln.get("arr"), int):
                    b["arrays"][ln["arr"]]["shape"][ln["index"].index(-1)] = len(d["ticks"])
    return r


def new_provider(rng, b, n, how="array"):
    """appends a provider array holding a vector of n entries (a 1-d array, or one row / column / fibre of a 2-d or
    3-d array) and returns the link"""
    rank = 1 if how == "vector" else (rng.choice([2, 3]) if how == "row" else rng.choice([1, 1, 2, 3]))
    ax = rng.randrange(rank)
    shape = [n if k == ax else rng.choice([1, 2, 3]) for k in range(rank)]
    b["arrays"].append(plain_array(shape))
    return {"arr": len(b["arrays"]) - 1, "index": [(-1 if k == ax else rng.randrange(shape[k])) for k in range(rank)]}


def has_self_link(a):
    return any(d.get("link", {}).get("arr") == "self" for d in a["dims"])


def link_dims(rng, b, p=None):
    """some range descriptors of the block take their ticks (and unit) through a LINK instead of holding them: one
    vector of another DataArray ([-1], or a row / column of an n-d array), one vector of the array they describe, or
    a DataFrame column.  `ticks` / `unit` stay keys of the descriptor (what it must present); build() stores them in
    the provider.  Every link has a provider of its own; at most one self link per array"""
    p = rng.choice([0.0, 0.3, 0.6]) if p is None else p
    for a in list(b["arrays"]):
        for di, d in enumerate(a["dims"]):
            if d["k"] == "set" and d["labels"] and "link" not in d and rng.random() < p / 2:
                d["link"] = {"frame": rng.choice([0, 1])}       # the labels are a text column of a DataFrame
                continue
            if d["k"] != "range" or "link" in d or di >= len(a["shape"]) or rng.random() >= p:
                continue
            n = len(d["ticks"])
            how = rng.choice(["array", "array", "self", "frame"])
            if how == "self" and not has_self_link(a) and all(s > 0 for s in a["shape"]) and a["shape"][di] == n:
                axes = [j for j, s in enumerate(a["shape"]) if s == n]
                ax = di if rng.random() < 0.7 else rng.choice(axes)
                d["link"] = {"arr": "self",
                             "index": [(-1 if k == ax else rng.randrange(s)) for k, s in enumerate(a["shape"])]}
            elif how == "frame" and n > 0:
                d["link"] = {"frame": rng.choice([0, 1])}
            else:
                d["link"] = new_provider(rng, b, n)
    return b


def privatise(b, a, rng=None):
    """array recipe `a` is a copy about to become an array of its own: its links get providers of their own (a self
    link that no longer fits the copy's shape becomes a link to a provider)"""
    rng = rng or random.Random(len(b["arrays"]))
    for d in a["dims"]:
        ln = d.get("link")
        if not ln or "frame" in ln:
            continue
        if ln["arr"] == "self":
            ax = ln["index"].index(-1)
            if (len(ln["index"]) == len(a["shape"]) and a["shape"][ax] == len(d["ticks"])
                    and all(k < s for k, s in zip(ln["index"], a["shape"]))):
                continue
            d["link"] = new_provider(rng, b, len(d["ticks"]), "vector")
        else:
            b["arrays"].append(copy.deepcopy(b["arrays"][ln["arr"]]))
            b["arrays"][-1]["x"] = _x()
            d["link"] = {"arr": len(b["arrays"]) - 1, "index": list(ln["index"])}


def gen_family(rng, odd=False, rank=None):
    """arrays that can be referenced together: a rank and, per data dimension, a quantity (or none)"""
    rank = rank or rng.choice([1, 1, 2, 2, 3])
    return {"rank": rank, "q": [SI.atom(rng, odd) if rng.random() < 0.65 else None for _ in range(rank)], "members": []}


def family_array(rng, fam, odd=False):
    shape = gen_shape(rng, fam["rank"])
    return {"x": _x(), "shape": shape, "dims": [gen_dim(rng, n, q, odd) for n, q in zip(shape, fam["q"])]}


def family_units(rng, fam):
    return ["" if q is None else SI.spell(SI.variant(rng, q)) for q in fam["q"]]


def free_units(rng, n):
    return [rng.choice([SI.spell(SI.atom(rng)), SI.spell(SI.atom(rng)), SI.compound(rng), ""]) for _ in range(n)]


def gen_refs(rng, fams, want=0):
    """0-4 references out of one family (so ranks and units fit), and the units that fit them"""
    fams = [f for f in fams if len(f["members"]) >= max(want, 1)]
    if not fams or (want == 0 and rng.random() < 0.2):
        return [], None, None
    fam = rng.choice(fams)
    n = len(fam["members"])
    k = max(want, rng.choice([1, 1, 2, 2, 3, 4]))
    refs = rng.sample(fam["members"], min(k, n))
    return refs, family_units(rng, fam), fam


def gen_feats(rng, arrays):
    cands = [i for i, a in enumerate(arrays) if a["shape"][0] > 0]
    return [{"data": rng.choice(cands), "lt": rng.choice(["tagged", "untagged", "indexed"]), "del": [],
             "unlink": False} for _ in range(rng.choice([0, 0, 1, 2]) if cands else 0)]


def gen_sources(rng, depth):
    if depth == 0:
        return []
    return [{"x": _x(), "children": gen_sources(rng, depth - 1)} for _ in range(rng.choice([0, 1, 2]))]


def gen_sections(rng, depth):
    if depth == 0:
        return []
    return [{"x": _x(), "props": [{"del": [], "empty": []} for _ in range(rng.choice([0, 1, 2]))],
             "children": gen_sections(rng, depth - 1)} for _ in range(rng.choice([0, 1, 2]))]


def gen_block(rng, small, odd=False, want=0):
    """want = number of references the first tag and the first multi-tag must have"""
    arrays = []
    fams = []
    for fi in range(rng.choice([1, 2] if small else [2, 3])):
        fam = gen_family(rng, odd)
        size = rng.choice([1, 2, 3] if small else [2, 3, 4])
        if fi == 0:
            size = max(size, want)
        for _ in range(size):
            arrays.append(family_array(rng, fam, odd))
            fam["members"].append(len(arrays) - 1)
        fams.append(fam)
    for _ in range(rng.choice([0, 1])):
        arrays.append(gen_array(rng, odd=odd))
    tags, mtags = [], []
    for ti in range(rng.choice([1, 2] if small else [1, 2, 3])):
        refs, units, fam = gen_refs(rng, fams, want if ti == 0 else 0)
        if refs:
            rank = fam["rank"]
            tags.append({"x": _x(), "pos": rank, "ext": rng.choice([0, rank]), "units": units, "refs": refs,
                         "feats": gen_feats(rng, arrays), "pv": rng.choice(POS_PATTERNS),
                         "ev": rng.choice(["one", "zero"])})
        else:
            n = rng.choice([1, 2, 3])
            tags.append({"x": _x(), "pos": n, "ext": rng.choice([0, n]),
                         "units": rng.choice([[], free_units(rng, n)]),
                         "refs": [], "feats": gen_feats(rng, arrays), "pv": rng.choice(POS_PATTERNS),
                         "ev": rng.choice(["one", "zero"])})
    for ti in range(rng.choice([1] if small else [1, 2])):
        refs, units, fam = gen_refs(rng, fams, want if ti == 0 else 0)
        npos = rng.choice([1, 2, 3])
        if refs:
            rank = fam["rank"]
            shp = [npos] if (rank == 1 and rng.random() < 0.6) else [npos, rank]
        else:
            shp = rng.choice([[npos], [npos, rng.choice([1, 2, 3])]])
            units = rng.choice([[], free_units(rng, 1)])
        arrays.append(plain_array(shp))
        pos = len(arrays) - 1
        ext = None
        if rng.random() < 0.5:
            arrays.append(plain_array(shp))
            ext = len(arrays) - 1
        mtags.append({"x": _x(), "pos": pos, "ext": ext, "units": units, "refs": refs,
                      "feats": gen_feats(rng, arrays), "unlink": False})
    return link_dims(rng, {"x": _x(), "groups": [{"x": _x()} for _ in range(rng.choice([0, 1, 2]))],
                           "arrays": arrays, "tags": tags, "mtags": mtags,
                           "sources": gen_sources(rng, 2 if small else 3)})


def gen_recipe(rng, small=False, odd=False, want=0):
    r = {"epoch0": rng.random() < 0.25,
         "blocks": [gen_block(rng, small, odd, want if bi == 0 else 0)
                    for bi in range(rng.choice([1, 1, 1, 2]) if small else rng.choice([1, 2]))],
         "sections": gen_sections(rng, 2 if small else 3)}
    return decorate(rng, r, rng.choice([0.0, 0.15, 0.5, 1.0]))


def decorate(rng, r, p):
    """boundary VALUES of the fields the validator tests for presence (each with probability p per field): creation
    time at the epoch (0), type / name strings that look falsy but are not empty ("0", " ", "None"); names stay
    unique per container.  None of this is an inconsistency: the expectation does not look at these keys"""
    if p <= 0:
        return r
    pools = {}

    def name_for(container):
        pool = pools.setdefault(container, rng.sample(ODD_TEXT, len(ODD_TEXT)))
        return pool.pop() if pool else None
    for kind, path, x in _entities(r):
        if rng.random() < p:
            x["cr"] = rng.choice(ODD_TIMES)
        if rng.random() < p:
            x["type"] = rng.choice(ODD_TEXT)
        if rng.random() < p:
            x["name"] = name_for((kind, tuple(path[:-1])))
    for b in r["blocks"]:
        for t in b["tags"] + b["mtags"]:
            for f in t["feats"]:
                if rng.random() < p:
                    f["cr"] = rng.choice(ODD_TIMES)
    for path, sec in _sections(r):
        for pr in sec["props"]:
            if rng.random() < p:
                pr["name"] = name_for(("prop", tuple(path)))
    return r


def gen_unit_sweep(rng, n, odd=False):
    """one block of n rank-1 arrays and n tags / multi-tags: each tag references 1-3 arrays measuring one quantity in
    differently prefixed units; about half of the tags get one reference in a unit of another quantity (drawn from
    the complete SI tables, with a bias to look-alikes) or a unit that is no SI unit at all; a few arrays carry a
    non-atomic dimension unit"""
    arrays, tags, mtags = [], [], []
    for i in range(n):
        q = SI.atom(rng, odd, homograph=0.6)
        nref = rng.choice([1, 1, 2, 3])
        refs = []
        for _ in range(nref):
            arrays.append({"x": _x(), "shape": [2], "dims": [gen_dim(rng, 2, q, odd)]})
            refs.append(len(arrays) - 1)
        unit = SI.spell(SI.variant(rng, q))
        what = rng.choice(["ok", "ok", "ref", "ref", "tag", "tagnonsi", "refnonatomic"])
        if what == "ref":
            arrays[rng.choice(refs)]["dims"][0]["unit"] = SI.unconvertible(rng, q, atomic_only=True)
        elif what == "tag":
            unit = SI.unconvertible(rng, q, atomic_only=True)
        elif what == "tagnonsi":
            unit = rng.choice(NONSI)
        elif what == "refnonatomic":
            arrays[rng.choice(refs)]["dims"][0]["unit"] = rng.choice([rng.choice(NONSI), SI.compound(rng)])
        if i % 2 == 0:
            tags.append({"x": _x(), "pos": 1, "ext": rng.choice([0, 1]), "units": [unit], "refs": refs, "feats": []})
        else:
            if not mtags or rng.random() < 0.3:
                arrays.append(plain_array([rng.choice([1, 2])]))
                pos = len(arrays) - 1
            mtags.append({"x": _x(), "pos": pos, "ext": None, "units": [unit], "refs": refs, "feats": [],
                          "unlink": False})
    blk = link_dims(rng, {"x": _x(), "groups": [], "arrays": arrays, "tags": tags, "mtags": mtags, "sources": []},
                    rng.choice([0.0, 0.0, 0.3]))
    return decorate(rng, {"epoch0": rng.random() < 0.25, "blocks": [blk], "sections": []}, rng.choice([0.0, 0.3]))


# ---------------------------------------------------------------------------------------
# injections = recipe mutations

ENT_ATTRS = ["type", "name", "created_at", "entity_id"]


def _entities(r):
    """(kind, path, x-dict) of every entity with check_entity fields"""
    out = []
    for bi, b in enumerate(r["blocks"]):
        out.append(("block", [bi], b["x"]))
        for i, g in enumerate(b["groups"]):
            out.append(("group", [bi, i], g["x"]))
        for i, a in enumerate(b["arrays"]):
            out.append(("array", [bi, i], a["x"]))
        for i, t in enumerate(b["tags"]):
            out.append(("tag", [bi, i], t["x"]))
        for i, t in enumerate(b["mtags"]):
            out.append(("mtag", [bi, i], t["x"]))

        def rec(srcs, pre):
            for i, s in enumerate(srcs):
                out.append(("source", pre + [i], s["x"]))
                rec(s["children"], pre + [i])
        rec(b["sources"], [bi])

    def recs(secs, pre):
        for i, s in enumerate(secs):
            out.append(("section", pre + [i], s["x"]))
            recs(s["children"], pre + [i])
    recs(r["sections"], [])
    return out


def _sections(r):
    out = []

    def recs(secs, pre):
        for i, s in enumerate(secs):
            out.append((pre + [i], s))
            recs(s["children"], pre + [i])
    recs(r["sections"], [])
    return out


def _atom_of(u, rng):
    """the reading of unit string u as an atom (a fresh atom when it has none)"""
    ps = SI.parses(u) if u else []
    return ps[0] if ps else SI.atom(rng)


def bad_dim_units(rng):
    """three dimension units that are not atomic SI units: a look-alike, a product of units, anything"""
    return [rng.choice(NONSI), SI.compound(rng), rng.choice(NONSI)]


RELINK_HOW = ["vector", "row", "frame"]
REF_UNIT_MODES = ["base", "homograph", "homograph", "prefixhomograph", "power", "drop"]


def eligible(r, scope="property", rng=None):
    """all injections applicable to recipe r.  scope 'property' = the inconsistencies the property statement lists;
    'all' adds the remaining catalogue entries / raising reads (correspondence only).  Unit strings an injection
    writes are drawn here (from rng), so an injection is a complete, replayable description of the mutation"""
    rng = rng or random.Random(0)
    inj = [["file_nodate"]]
    for kind, path, _x_ in _entities(r):
        for a in ENT_ATTRS:
            inj.append(["ent_del", kind, path, a])
        for a in ("type", "name"):
            inj.append(["ent_empty", kind, path, a])
    for bi, b in enumerate(r["blocks"]):
        for ai, a in enumerate(b["arrays"]):
            for k in ("set", "sample", "range"):
                inj.append(["dim_surplus", [bi, ai], k])
            if a["dims"]:
                inj.append(["dim_missing", [bi, ai]])
            for di, d in enumerate(a["dims"][:len(a["shape"])]):
                p = [bi, ai, di]
                if d["k"] == "range":
                    inj += [["ticks_count", p, 1], ["ticks_count", p, -1], ["ticks_missing", p]]
                    # the descriptor is (re)linked to a new provider whose vector has one entry less / as many / one
                    # more than the data; or to a vector of the array itself that runs along another dimension
                    inj += [["relink", p, rng.choice(RELINK_HOW), dl] for dl in (-1, 0, 1)]
                    if len(a["shape"]) > 1:
                        inj.append(["relink", p, "selfcross", rng.randrange(len(a["shape"]) - 1)])
                    if len(d["ticks"]) >= 2:
                        inj += [["ticks_unsorted", p], ["ticks_equal", p], ["ticks_adj", p, "zeros", 0]]
                        # one adjacent pair (the first, an inner, the last) made equal / swapped
                        for j in sorted({0, (len(d["ticks"]) - 1) // 2, len(d["ticks"]) - 2}):
                            inj += [["ticks_adj", p, "eq", j], ["ticks_adj", p, "swap", j]]
                if d["k"] in ("range", "sample"):
                    for u in bad_dim_units(rng):
                        inj.append(["dim_unit", p, u])
                if d["k"] == "sample":
                    for v in (None, 0, -0.5, -0.0, -5e-324):
                        inj.append(["interval", p, v])
                if d["k"] == "set":
                    inj += [["labels_count", p, 1], ["labels_count", p, -1]]
                if scope == "all":
                    for v in (0, -1, di + 11):
                        inj.append(["dim_index", p, v])
        for kind in ("tags", "mtags"):
            for ti, t in enumerate(b[kind]):
                p = [bi, ti]
                if kind == "tags":
                    inj += [["tag_nopos", p], ["tag_poslen", p, 1], ["tag_poslen", p, -1],
                            ["tag_extlen", p, 1], ["tag_extlen", p, -1]]
                else:
                    inj += [["mt_empty_pos", p], ["mt_pos_dim", p, 1], ["mt_pos_dim", p, -1],
                            ["mt_ext_shape", p, "rows"], ["mt_ext_shape", p, "cols"], ["mt_unlink_pos", p]]
                inj += [["units_len", kind, p, 1], ["units_len", kind, p, -1]]
                for ui in range(max(len(t["units"]), 1)):
                    cur = t["units"][ui] if ui < len(t["units"]) else ""
                    inj += [["unit_unconv", kind, p, ui,
                             SI.unconvertible(rng, _atom_of(cur, rng), atomic_only=True) if cur
                             else SI.spell(SI.atom(rng))],
                            ["unit_nonsi", kind, p, ui, rng.choice(NONSI)]]
                # one reference (first, middle, last) made inconsistent with the tag, the others untouched
                nref = len(t["refs"])
                for k, ri in enumerate(t["refs"]):
                    a = b["arrays"][ri]
                    where = "only" if nref == 1 else ("first" if k == 0 else ("last" if k == nref - 1 else "middle"))
                    for di in range(min(len(a["dims"]), len(t["units"]))):
                        u = t["units"][di]
                        if u:
                            inj.append(["ref_unit", kind, p, k, di, rng.choice(REF_UNIT_MODES),
                                        SI.unconvertible(rng, _atom_of(u, rng), rng.choice(REF_UNIT_MODES[:5]),
                                                         atomic_only=True), where])
                        else:
                            inj.append(["ref_unit", kind, p, k, di, "set", SI.spell(SI.atom(rng)), where])
                    inj += [["ref_rank", kind, p, k, 1, where], ["ref_rank", kind, p, k, -1, where],
                            ["ref_dims", kind, p, k, 1, where], ["ref_dims", kind, p, k, -1, where]]
                for fi, _f in enumerate(t["feats"]):
                    inj.append(["feat_del", kind, p, fi, "created_at"])
                    inj.append(["feat_del", kind, p, fi, "entity_id"])
                    if scope == "all":
                        inj += [["feat_del", kind, p, fi, "link_type"], ["feat_unlink", kind, p, fi],
                                ["feat_empty", kind, p, fi]]
    for path, s in _sections(r):
        for pi, _p in enumerate(s["props"]):
            inj += [["prop_del", path, pi, "name"], ["prop_del", path, pi, "entity_id"],
                    ["prop_empty", path, pi, "name"]]
    return inj


def _ent_x(r, kind, path):
    for k, p, x in _entities(r):
        if k == kind and p == path:
            return x
    return None


def apply_inj(r, inj):
    """returns the mutated copy, or None when the injection no longer applies / changes nothing"""
    r = copy.deepcopy(r)
    op = inj[0]
    try:
        if op == "epoch0":
            r["epoch0"] = True
        elif op == "file_nodate":
            if r.get("nodate"):
                return None
            r["nodate"] = True
        elif op in ("ent_del", "ent_empty"):
            x = _ent_x(r, inj[1], inj[2])
            if x is None or inj[3] in x["del"] or inj[3] in x["empty"]:
                return None
            x["del" if op == "ent_del" else "empty"].append(inj[3])
        elif op == "dim_surplus":
            a = r["blocks"][inj[1][0]]["arrays"][inj[1][1]]
            k = inj[2]
            d = {"set": {"k": "set", "labels": 0, "idx": None},
                 "sample": {"k": "sample", "interval": 0.5, "unit": "ms", "idx": None},
                 "range": {"k": "range", "ticks": [1.0, 2.0], "unit": "s", "idx": None}}[k]
            a["dims"].append(d)
        elif op == "dim_missing":
            a = r["blocks"][inj[1][0]]["arrays"][inj[1][1]]
            if not a["dims"]:
                return None
            a["dims"].pop()
        elif op in ("ticks_count", "ticks_missing", "ticks_unsorted", "ticks_equal", "ticks_adj", "dim_unit",
                    "interval", "labels_count", "dim_index", "relink"):
            bi, ai, di = inj[1]
            a = r["blocks"][bi]["arrays"][ai]
            d = a["dims"][di]
            ln = d.get("link") or {}
            if op in ("ticks_count", "ticks_missing") and (ln.get("arr") == "self" or "frame" in ln):
                # the vector of a self link is as long as the array's extent along it; a frame has rows
                if ln.get("arr") == "self" or op == "ticks_missing":
                    return None
            if op == "relink":
                if d["k"] != "range" or di >= len(a["shape"]):
                    return None
                how = inj[2]
                lrng = random.Random(len(r["blocks"][bi]["arrays"]) * 7 + di)
                if how == "selfcross":
                    others = [j for j in range(len(a["shape"])) if j != di]
                    if not others or ln.get("arr") == "self" or has_self_link(a) or not all(s > 0 for s in a["shape"]):
                        return None
                    ax = others[inj[3] % len(others)]
                    n = a["shape"][ax]
                    d["link"] = {"arr": "self",
                                 "index": [(-1 if k == ax else lrng.randrange(s)) for k, s in enumerate(a["shape"])]}
                else:
                    n = a["shape"][di] + inj[3]
                    if n < 1:
                        return None
                    d["link"] = {"frame": lrng.choice([0, 1])} if how == "frame" else \
                        new_provider(lrng, r["blocks"][bi], n, how)
                if n != len(d["ticks"]):
                    d["ticks"] = [float(k) + 0.5 for k in range(n)]
            elif op == "ticks_count":
                if d["k"] != "range":
                    return None
                if inj[2] > 0:
                    d["ticks"] = d["ticks"] + [(d["ticks"][-1] if d["ticks"] else 0.0) + 1.0]
                else:
                    if len(d["ticks"]) < 2:
                        return None
                    d["ticks"] = d["ticks"][:-1]
            elif op == "ticks_missing":
                if d["k"] != "range" or not d["ticks"]:
                    return None
                d["ticks"] = []
            elif op == "ticks_unsorted":
                if d["k"] != "range" or len(d["ticks"]) < 2:
                    return None
                d["ticks"] = [d["ticks"][-1]] + d["ticks"][1:-1] + [d["ticks"][0]]
                if d["ticks"][0] == d["ticks"][-1]:
                    return None
            elif op == "ticks_equal":
                if d["k"] != "range" or len(d["ticks"]) < 2:
                    return None
                d["ticks"] = [d["ticks"][0]] + [d["ticks"][0]] + d["ticks"][2:]
            elif op == "ticks_adj":
                if d["k"] != "range" or len(d["ticks"]) < 2:
                    return None
                t, j = list(d["ticks"]), inj[3]
                if inj[2] == "zeros":
                    t = [-0.0, 0.0] + [float(k) for k in range(1, len(t) - 1)]
                elif j + 1 >= len(t):
                    return None
                elif inj[2] == "eq":
                    t[j + 1] = t[j]
                else:
                    if t[j] == t[j + 1]:
                        return None
                    t[j], t[j + 1] = t[j + 1], t[j]
                if [repr(v) for v in t] == [repr(v) for v in d["ticks"]]:
                    return None
                d["ticks"] = t
            elif op == "dim_unit":
                if d["k"] not in ("range", "sample"):
                    return None
                d["unit"] = inj[2]
            elif op == "interval":
                if d["k"] != "sample":
                    return None
                d["interval"] = inj[2]
            elif op == "labels_count":
                if d["k"] != "set":
                    return None
                n = (d["labels"] or a["shape"][di]) + inj[2]
                if n < 1 or n == a["shape"][di]:
                    return None
                d["labels"] = n
            elif op == "dim_index":
                used = [(x["idx"] if x["idx"] is not None else j + 1) for j, x in enumerate(a["dims"])]
                if inj[2] in used:
                    return None
                d["idx"] = inj[2]
        elif op in ("tag_nopos", "tag_poslen", "tag_extlen"):
            t = r["blocks"][inj[1][0]]["tags"][inj[1][1]]
            if op == "tag_nopos":
                if t["pos"] == 0:
                    return None
                t["pos"] = 0
            elif op == "tag_poslen":
                if t["pos"] + inj[2] < 1:
                    return None
                t["pos"] += inj[2]
            else:
                base = t["ext"] or t["pos"]
                if base + inj[2] < 1:
                    return None
                t["ext"] = base + inj[2]
        elif op in ("mt_empty_pos", "mt_pos_dim", "mt_ext_shape", "mt_unlink_pos"):
            b = r["blocks"][inj[1][0]]
            t = b["mtags"][inj[1][1]]
            pshape = b["arrays"][t["pos"]]["shape"]
            if op == "mt_unlink_pos":
                if t["unlink"]:
                    return None
                t["unlink"] = True
            elif op == "mt_empty_pos":
                if pshape[0] == 0:
                    return None
                b["arrays"].append(plain_array([0] + pshape[1:]))
                t["pos"] = len(b["arrays"]) - 1
            elif op == "mt_pos_dim":
                cur = 1 if len(pshape) == 1 else pshape[1]
                if cur + inj[2] < 1:
                    return None
                b["arrays"].append(plain_array([pshape[0], cur + inj[2]]))
                t["pos"] = len(b["arrays"]) - 1
            else:
                if inj[2] == "rows":
                    shp = [pshape[0] + 1] + pshape[1:]
                else:
                    shp = [pshape[0], (1 if len(pshape) == 1 else pshape[1]) + 1]
                b["arrays"].append(plain_array(shp))
                t["ext"] = len(b["arrays"]) - 1
        elif op in ("ref_unit", "ref_rank", "ref_dims"):
            b = r["blocks"][inj[2][0]]
            t = b[inj[1]][inj[2][1]]
            k = inj[3]
            src = b["arrays"][t["refs"][k]]
            if op == "ref_unit":
                # the reference becomes a private copy of the array whose descriptor `di` is in another unit
                di, mode, unit = inj[4], inj[5], inj[6]
                a = copy.deepcopy(src)
                a["x"] = _x()
                d = a["dims"][di]
                if mode == "drop":
                    if not dim_unit(d):
                        return None
                    d["unit"] = None
                else:
                    if d["k"] == "set":
                        d = {"k": "sample", "interval": 0.5, "unit": None, "idx": d["idx"]}
                        a["dims"][di] = d
                    if d["unit"] == unit:
                        return None
                    d["unit"] = unit
            elif op == "ref_rank":
                # the reference becomes a new array of another rank (its leading descriptors as before)
                rank = len(src["shape"]) + inj[4]
                if rank < 1 or rank > 4:
                    return None
                a = copy.deepcopy(src)
                a["x"] = _x()
                if inj[4] > 0:
                    a["shape"] = a["shape"] + [2]
                    a["dims"] = a["dims"] + [{"k": "set", "labels": 0, "idx": None}]
                else:
                    a["shape"] = a["shape"][:-1]
                    a["dims"] = a["dims"][:len(a["shape"])]
            else:
                # the reference becomes a copy with a surplus / a missing descriptor
                a = copy.deepcopy(src)
                a["x"] = _x()
                if inj[4] > 0:
                    a["dims"] = a["dims"] + [{"k": "sample", "interval": 0.5, "unit": "ms", "idx": None}]
                else:
                    if not a["dims"]:
                        return None
                    a["dims"] = a["dims"][:-1]
            privatise(b, a)
            b["arrays"].append(a)
            t["refs"] = list(t["refs"])
            t["refs"][k] = len(b["arrays"]) - 1
        elif op in ("units_len", "unit_unconv", "unit_nonsi"):
            b = r["blocks"][inj[2][0]]
            t = b[inj[1]][inj[2][1]]
            if op == "units_len":
                if inj[3] > 0:
                    t["units"] = list(t["units"]) + ["s"]
                else:
                    if not t["units"]:
                        return None
                    t["units"] = list(t["units"])[:-1]
            else:
                ui = inj[3]
                units = list(t["units"])
                if ui >= len(units):
                    if ui > 0 or units:
                        return None
                    units = [""]
                    ui = 0
                if units[ui] == inj[4]:
                    return None
                units[ui] = inj[4]
                t["units"] = units
        elif op in ("feat_del", "feat_unlink", "feat_empty"):
            b = r["blocks"][inj[2][0]]
            f = b[inj[1]][inj[2][1]]["feats"][inj[3]]
            if op == "feat_del":
                if inj[4] in f["del"]:
                    return None
                f["del"].append(inj[4])
            elif op == "feat_unlink":
                if f["unlink"]:
                    return None
                f["unlink"] = True
            else:
                b["arrays"].append(plain_array([0]))
                f["data"] = len(b["arrays"]) - 1
        elif op in ("prop_del", "prop_empty"):
            s = dict(_sections_map(r))[tuple(inj[1])]
            p = s["props"][inj[2]]
            if inj[3] in p["del"] or inj[3] in p["empty"]:
                return None
            p["del" if op == "prop_del" else "empty"].append(inj[3])
        else:
            return None
    except (IndexError, KeyError):
        return None
    return fit(r)


def _sections_map(r):
    return [(tuple(p), s) for p, s in _sections(r)]


# ---------------------------------------------------------------------------------------
# expected errors, from the recipe alone (the property, written from the catalogue text)

def _ent_expect(x):
    out = set()
    if "type" in x["del"] or "type" in x["empty"]:
        out.add(("NoType",))
    if "entity_id" in x["del"]:
        out.add(("NoID",))
    if "name" in x["del"] or "name" in x["empty"]:
        out.add(("NoName",))
    if "created_at" in x["del"]:
        out.add(("NoDate",))
    return out


def _dim_order(a):
    """descriptors are iterated in HDF5 link creation order; a renamed group is a new link (goes last)"""
    keep = [j for j, d in enumerate(a["dims"]) if d["idx"] is None or d["idx"] == j + 1]
    moved = [j for j, d in enumerate(a["dims"]) if not (d["idx"] is None or d["idx"] == j + 1)]
    return keep + moved


def _dim_index(d, pos):
    return d["idx"] if d["idx"] is not None else pos


def _array_expect(a):
    out = _ent_expect(a["x"])
    if len(a["dims"]) != len(a["shape"]):
        out.add(("DimensionMismatch",))
    order = _dim_order(a)
    for idx, (j, n) in enumerate(zip(order, a["shape"]), 1):
        d = a["dims"][j]
        di = _dim_index(d, j + 1)
        if di <= 0:
            out.add(("InvalidDimensionIndex", idx))
        elif di != idx:
            out.add(("IncorrectDimensionIndex", idx, di))
        if d["k"] == "range":
            t = d["ticks"]
            if len(t) != n:
                out.add(("RangeDimTicksMismatch", idx))
            if not t:
                out.add(("NoTicks", idx))
            elif not all(x < y for x, y in zip(t, t[1:])):
                out.add(("UnsortedTicks", idx))
        if d["k"] == "sample":
            iv = d["interval"]
            if iv is None or iv == 0:
                out.add(("NoSamplingInterval", idx))
            elif iv < 0:
                out.add(("InvalidSamplingInterval", idx))
        if d["k"] in ("range", "sample") and d["unit"] and not is_atomic_tbl(d["unit"]):
            out.add(("InvalidDimensionUnit", idx))
        if d["k"] == "set" and d["labels"] and d["labels"] != n:
            out.add(("SetDimLabelsMismatch", idx))
    return out


def _dims_in_order(a):
    return [a["dims"][j] for j in _dim_order(a)]


def _feats_expect(b, feats):
    out = set()
    for i, f in enumerate(feats):
        if "entity_id" in f["del"]:
            out.add(("feature", i, "NoID"))
        if "created_at" in f["del"]:
            out.add(("feature", i, "NoDate"))
        if f["unlink"] or b["arrays"][f["data"]]["shape"][0] == 0:
            out.add(("feature", i, "NoData"))
        if "link_type" in f["del"]:
            out.add(("feature", i, "NoLinkType"))
    return out


def _units_expect(b, t, refs, und):
    """unit messages of a tag / multi-tag; messages the property text leaves undecided are added to `und`"""
    out = set()
    units = list(t["units"])
    if refs:
        if any(len(a["dims"]) != len(units) for a in refs):
            out.add(("ReferenceUnitsMismatch",))
        verdicts = [pair_ok(u, dim_unit(d)) for a in refs for u, d in zip(units, _dims_in_order(a))]
        if any(v is False for v in verdicts):
            out.add(("ReferenceUnitsIncompatible",))
        elif any(v is None for v in verdicts):
            und.add(("ReferenceUnitsIncompatible",))
    si = [is_si_tbl(u) for u in units if u]
    if any(v is False for v in si):
        out.add(("InvalidUnit",))
    elif any(v is None for v in si):
        und.add(("InvalidUnit",))
    return out


def _tag_expect(b, t, und):
    out = _ent_expect(t["x"])
    refs = [b["arrays"][i] for i in t["refs"]]
    if t["pos"] == 0:
        out.add(("NoPosition",))
    if t["ext"] and t["ext"] != t["pos"]:
        out.add(("PositionExtentMismatch",))
    if any(len(a["shape"]) != t["pos"] for a in refs):
        out.add(("PositionDimensionMismatch",))
    if t["ext"] and any(len(a["shape"]) != t["ext"] for a in refs):
        out.add(("ExtentDimensionMismatch",))
    return out | _units_expect(b, t, refs, und) | _feats_expect(b, t["feats"])


def _second(shape):
    return 1 if len(shape) == 1 else shape[1]


def _mtag_expect(b, t, und):
    out = _ent_expect(t["x"])
    refs = [b["arrays"][i] for i in t["refs"]]
    ps = None if t["unlink"] else b["arrays"][t["pos"]]["shape"]
    if ps is None or ps[0] == 0:
        out.add(("NoPositions",))
    if ps is not None and any(len(a["shape"]) != _second(ps) for a in refs):
        out.add(("PositionsDimensionMismatch",))
    if t["ext"] is not None:
        es = b["arrays"][t["ext"]]["shape"]
        if es[0] != 0:
            if ps is not None and es != ps:
                out.add(("PositionsExtentsMismatch",))
            if any(len(a["shape"]) != _second(es) for a in refs):
                out.add(("ExtentsDimensionMismatch",))
    return out | _units_expect(b, t, refs, und) | _feats_expect(b, t["feats"])


def expect(r, undecided=None):
    """{(kind, path tuple): set of messages} the property requires (non-empty sets only); `undecided` (a dict) receives
    per object the messages the property text does not decide (differently spelled powers ...)"""
    out = {}
    undecided = {} if undecided is None else undecided

    def put(kind, path, msgs):
        if msgs:
            out[(kind, tuple(path))] = msgs
    if r.get("nodate"):
        put("file", [], {("NoDate",)})      # a file dated at the epoch (epoch0) HAS a date
    for bi, b in enumerate(r["blocks"]):
        put("block", [bi], _ent_expect(b["x"]))
        for i, g in enumerate(b["groups"]):
            put("group", [bi, i], _ent_expect(g["x"]))
        for i, a in enumerate(b["arrays"]):
            put("array", [bi, i], _array_expect(a))
        for i, t in enumerate(b["tags"]):
            put("tag", [bi, i], _tag_expect(b, t, undecided.setdefault(("tag", (bi, i)), set())))
        for i, t in enumerate(b["mtags"]):
            put("mtag", [bi, i], _mtag_expect(b, t, undecided.setdefault(("mtag", (bi, i)), set())))

        def rec(srcs, pre):
            for i, s in enumerate(srcs):
                put("source", pre + [i], _ent_expect(s["x"]))
                rec(s["children"], pre + [i])
        rec(b["sources"], [bi])
    for path, s in _sections(r):
        msgs = _ent_expect(s["x"])
        for i, p in enumerate(s["props"]):
            if "entity_id" in p["del"]:
                msgs.add(("property", i, "NoID"))
            if "name" in p["del"] or "name" in p["empty"]:
                msgs.add(("property", i, "NoName"))
        put("section", path, msgs)
    return out


# ---------------------------------------------------------------------------------------
# builder: recipe -> real file

def _nix():
    import nixio
    return nixio


def _raw(obj, x):
    h = obj._h5group
    g = h.dataset if hasattr(h, "dataset") else h.group
    for a in x["del"]:
        if a in g.attrs:
            del g.attrs[a]
    for a in x["empty"]:
        g.attrs[a] = ""


def build(ctx, r, tag="c"):
    """returns (nix file handle, {entity id: (kind, recipe path)})"""
    nix = _nix()
    ctx._c14n = getattr(ctx, "_c14n", 0) + 1
    path = ctx.tmpfile("%s%d.nix" % (tag, ctx._c14n))
    f = nix.File.open(path, nix.FileMode.Overwrite)
    ids = {}
    raws = []

    def reg(obj, kind, p, x):
        ids[obj.id] = (kind, tuple(p))
        if x.get("cr") is not None:
            obj.force_created_at(x["cr"])
        if x["del"] or x["empty"]:
            raws.append((obj, x))

    def nm(x, default):
        return x.get("name") or default

    def ty(x, default):
        return x.get("type") or default

    for bi, b in enumerate(r["blocks"]):
        blk = f.create_block(nm(b["x"], "b%d" % bi), ty(b["x"], "t.block"))
        reg(blk, "block", [bi], b["x"])
        for i, g in enumerate(b["groups"]):
            reg(blk.create_group(nm(g["x"], "g%d" % i), ty(g["x"], "t.group")), "group", [bi, i], g["x"])
        das = []
        datas = [np.zeros(tuple(a["shape"])) for a in b["arrays"]]
        for i, a in enumerate(b["arrays"]):
            # the vectors that linked descriptors present as their ticks are data of the provider
            for d in a["dims"]:
                ln = d.get("link")
                if ln and "arr" in ln:
                    sel = tuple(slice(None) if k == -1 else k for k in ln["index"])
                    datas[i if ln["arr"] == "self" else ln["arr"]][sel] = d["ticks"]
        for i, a in enumerate(b["arrays"]):
            da = blk.create_data_array(nm(a["x"], "a%d" % i), ty(a["x"], "t.array"), data=datas[i])
            das.append(da)
            reg(da, "array", [bi, i], a["x"])
        for i, a in enumerate(b["arrays"]):
            da = das[i]
            for di, d in enumerate(a["dims"]):
                if d["k"] == "range" and d.get("link"):
                    ln = d["link"]
                    rd = da.append_range_dimension()
                    if "frame" in ln:
                        cols = [("t", nix.DataType.Double), ("n", nix.DataType.Int64)]
                        rows = [(t, k) for k, t in enumerate(d["ticks"])]
                        if ln["frame"] == 1:
                            cols.reverse()
                            rows = [(k, t) for t, k in rows]
                        fr = blk.create_data_frame("f%d_%d" % (i, di), "t.frame", col_dict=dict(cols), data=rows)
                        rd.link_data_frame(fr, ln["frame"])
                    else:
                        rd.link_data_array(da if ln["arr"] == "self" else das[ln["arr"]], list(ln["index"]))
                    if d["unit"] is not None:
                        rd.unit = d["unit"]
                elif d["k"] == "range":
                    rd = da.append_range_dimension(ticks=[0.0])
                    rd._h5group.write_data("ticks", list(d["ticks"]), nix.DataType.Double)
                    if not d["ticks"] and "ticks" in rd._h5group.group:
                        del rd._h5group.group["ticks"]
                    if d["unit"] is not None:
                        rd.unit = d["unit"]
                elif d["k"] == "sample":
                    sd = da.append_sampled_dimension(1.0)
                    sd.sampling_interval = d["interval"]
                    if d["unit"] is not None:
                        sd.unit = d["unit"]
                    if d.get("offset") is not None:
                        sd.offset = d["offset"]
                else:
                    st = da.append_set_dimension()
                    if d["labels"] and d.get("link"):
                        col = d["link"]["frame"]
                        cols = [("l", nix.DataType.String), ("n", nix.DataType.Int64)]
                        rows = [("" if d.get("lt") == "empty" else "l%d" % k, k) for k in range(d["labels"])]
                        if col == 1:
                            cols.reverse()
                            rows = [(k, t) for t, k in rows]
                        fr = blk.create_data_frame("f%d_%d" % (i, di), "t.frame", col_dict=dict(cols), data=rows)
                        st.link_data_frame(fr, col)
                    elif d["labels"]:
                        st.labels = ["" if d.get("lt") == "empty" else "l%d" % k for k in range(d["labels"])]
            dg = da._h5group.group.get("dimensions")
            for j, d in enumerate(a["dims"]):
                if d["idx"] is not None and d["idx"] != j + 1:
                    dg.move(str(j + 1), str(d["idx"]))

        def feats(t, spec):
            for fs in spec["feats"]:
                ft = t.create_feature(das[fs["data"]], fs["lt"])
                if fs.get("cr") is not None:
                    ft._h5group.set_attr("created_at", nix.util.time_to_str(fs["cr"]))
                g = ft._h5group.group
                for a in fs["del"]:
                    if a in g.attrs:
                        del g.attrs[a]
                if fs["unlink"]:
                    del g["data"]

        for i, t in enumerate(b["tags"]):
            tg = blk.create_tag(nm(t["x"], "t%d" % i), ty(t["x"], "t.tag"), position=[0.5])
            tg.position = pos_values(t.get("pv"), t["pos"])
            if t["ext"]:
                tg.extent = ext_values(t.get("ev"), t["ext"])
            for ri in t["refs"]:
                tg.references.append(das[ri])
            if t["units"]:
                tg.units = list(t["units"])
            feats(tg, t)
            reg(tg, "tag", [bi, i], t["x"])
        for i, t in enumerate(b["mtags"]):
            mt = blk.create_multi_tag(nm(t["x"], "m%d" % i), ty(t["x"], "t.mtag"), positions=das[t["pos"]])
            if t["ext"] is not None:
                mt.extents = das[t["ext"]]
            for ri in t["refs"]:
                mt.references.append(das[ri])
            if t["units"]:
                mt.units = list(t["units"])
            feats(mt, t)
            if t["unlink"]:
                del mt._h5group.group["positions"]
            reg(mt, "mtag", [bi, i], t["x"])

        def rec(parent, srcs, pre):
            for i, s in enumerate(srcs):
                so = parent.create_source(nm(s["x"], "s" + "_".join(map(str, pre[1:] + [i]))),
                                          ty(s["x"], "t.source"))
                reg(so, "source", pre + [i], s["x"])
                rec(so, s["children"], pre + [i])
        rec(blk, b["sources"], [bi])

    def recs(parent, secs, pre):
        for i, s in enumerate(secs):
            se = parent.create_section(nm(s["x"], "sec" + "_".join(map(str, pre + [i]))), ty(s["x"], "t.section"))
            reg(se, "section", pre + [i], s["x"])
            for k, p in enumerate(s["props"]):
                pr = se.create_property(p.get("name") or "p%d" % k, [k, k + 1])
                pr.unit = "s"
                if p["del"] or p["empty"]:
                    raws.append((pr, p))
            recs(se, s["children"], pre + [i])
    recs(f, r["sections"], [])
    if r["epoch0"]:
        f.force_created_at(0)
    for obj, x in raws:
        _raw(obj, x)
    if r.get("nodate") and "created_at" in f._h5file.attrs:
        del f._h5file.attrs["created_at"]
    return f, ids


# ---------------------------------------------------------------------------------------
# description of a real file as the public API returns it (input of the model driver)

def _frac(x):
    fr = Fraction(float(x))
    return "%d/%d" % (fr.numerator, fr.denominator)


def _s(v):
    if v is None:
        return None
    if isinstance(v, bytes):
        v = v.decode()
    return str(v)


def _created(o):
    try:
        v = o.created_at
    except TypeError:
        return None
    return None if v is None else int(v)


def _items(container):
    """(h5group, API object or None when the constructor refuses it), in the container's iteration order"""
    for h5 in container._backend:
        try:
            yield h5, container._inst_item(h5)
        except ValueError:
            yield h5, None


def _ent(h5, o):
    if o is None:
        return {"type": _s(h5.get_attr("type")), "id": _s(h5.get_attr("entity_id")), "uuid": False,
                "name": _s(h5.get_attr("name")), "created_at": None}
    return {"type": _s(o.type), "id": _s(o.id), "uuid": True, "name": _s(o.name), "created_at": _created(o)}


def describe(f, links=None):
    """returns (description, {entity id: (kind, walk path)}); `links` (a list) receives, per range descriptor linked to
    a DataArray, the driver case of the link model and what the real descriptor presents as its ticks"""
    keys = {}

    def reg(o, kind, path):
        if o is not None and o.id is not None:
            keys.setdefault(o.id, (kind, tuple(path)))

    def feats(t, aidx):
        out = []
        for h5, ft in _items(t.features):
            if ft is None:
                out.append({"id": _s(h5.get_attr("entity_id")), "uuid": False, "created_at": None, "data": None,
                            "link_type": _s(h5.get_attr("link_type"))})
                continue
            try:
                data = aidx(ft.data._h5group.group)
            except (RuntimeError, ValueError):
                data = None
            try:
                lt = ft.link_type.value
            except ValueError:
                lt = None
            out.append({"id": _s(ft.id), "uuid": True, "created_at": _created(ft), "data": data, "link_type": lt})
        return out

    def sources(parent, pre):
        out = []
        for i, (h5, s) in enumerate(_items(parent.sources)):
            reg(s, "source", pre + [i])
            out.append({"ent": _ent(h5, s), "children": sources(s, pre + [i]) if s is not None else []})
        return out

    def sections(parent, pre):
        out = []
        for i, (h5, s) in enumerate(_items(parent.sections)):
            reg(s, "section", pre + [i])
            props = []
            if s is not None:
                for ph5, p in _items(s.props):
                    if p is None:
                        props.append({"id": _s(ph5.get_attr("entity_id")), "uuid": False,
                                      "name": _s(ph5.get_attr("name"))})
                    else:
                        props.append({"id": _s(p.id), "uuid": True, "name": _s(p.name)})
            out.append({"ent": _ent(h5, s), "props": props,
                        "children": sections(s, pre + [i]) if s is not None else []})
        return out

    blocks = []
    for bi, (bh5, b) in enumerate(_items(f.blocks)):
        reg(b, "block", [bi])
        bd = {"ent": _ent(bh5, b), "groups": [], "arrays": [], "tags": [], "mtags": [], "sources": []}
        blocks.append(bd)
        if b is None:
            continue
        for i, (h5, g) in enumerate(_items(b.groups)):
            reg(g, "group", [bi, i])
            bd["groups"].append(_ent(h5, g))
        agroups = []

        def aidx(h5obj, agroups=agroups):
            """index of the block's array that is this HDF5 object (links are hard links)"""
            for k, g in enumerate(agroups):
                if g == h5obj:
                    return k
            return None
        for i, (h5, da) in enumerate(_items(b.data_arrays)):
            reg(da, "array", [bi, i])
            agroups.append(h5.group)
            if da is None:
                bd["arrays"].append({"ent": _ent(h5, da), "dtype": "?", "shape": [1], "dims": []})
                continue
            dims = []
            for d in da.dimensions:
                k = d.dimension_type.value
                dd = {"kind": k, "index": int(d.index), "ticks": [], "nlabels": 0, "interval": None, "unit": None}
                if k == "range":
                    dd["ticks"] = [_frac(t) for t in d.ticks]
                    dd["unit"] = _s(d.unit)
                    if links is not None and d.has_link and d.dimension_link._data_object_type == "DataArray":
                        prov = np.asarray(d.dimension_link.linked_data)
                        links.append((["linkticks", [int(n) for n in prov.shape],
                                       [int(v) for v in d.dimension_link.index], [_frac(v) for v in prov.ravel()]],
                                      {"ok": list(dd["ticks"])}))
                elif k == "sample":
                    iv = d.sampling_interval
                    dd["interval"] = None if iv is None else _frac(iv)
                    dd["unit"] = _s(d.unit)
                else:
                    dd["nlabels"] = len(d.labels)
                dims.append(dd)
            dt = da.data_type
            bd["arrays"].append({"ent": _ent(h5, da), "dtype": None if not dt else str(dt),
                                 "shape": [int(n) for n in da.shape], "dims": dims})
        for i, (h5, t) in enumerate(_items(b.tags)):
            reg(t, "tag", [bi, i])
            if t is None:
                bd["tags"].append({"ent": _ent(h5, t), "poslen": 0, "extlen": 0, "units": [], "refs": [],
                                   "features": []})
                continue
            bd["tags"].append({"ent": _ent(h5, t), "poslen": len(t.position), "extlen": len(t.extent),
                               "units": [_s(u) for u in t.units], "refs": [aidx(r.group) for r in t.references._backend],
                               "features": feats(t, aidx)})
        for i, (h5, t) in enumerate(_items(b.multi_tags)):
            reg(t, "mtag", [bi, i])
            if t is None:
                bd["mtags"].append({"ent": _ent(h5, t), "positions": None, "extents": None, "units": [], "refs": [],
                                    "features": []})
                continue
            try:
                pos = aidx(t.positions._h5group.group)
            except (RuntimeError, ValueError):
                pos = None
            try:
                ext = t.extents
            except ValueError:
                ext = None
            bd["mtags"].append({"ent": _ent(h5, t), "positions": pos, "extents": None if ext is None else aidx(ext._h5group.group),
                                "units": [_s(u) for u in t.units], "refs": [aidx(r.group) for r in t.references._backend],
                                "features": feats(t, aidx)})
        bd["sources"] = sources(b, [bi])
    try:
        fcr = int(f.created_at)
    except KeyError:
        fcr = None
    desc = {"created_at": fcr, "blocks": blocks, "sections": sections(f, [])}
    return desc, keys


# ---------------------------------------------------------------------------------------
# implementation: File.validate()['errors'], canonicalised

_TEMPL = None


def templates():
    """[(identifier, compiled regex, arity)] from the real catalogue class"""
    global _TEMPL
    if _TEMPL is None:
        from nixio.validator import ValidationError as VE
        out = []
        for name, text in vars(VE).items():
            if name.startswith("_") or not isinstance(text, str):
                continue
            rx = re.escape(text).replace(re.escape("{}"), r"(-?\d+)")
            out.append((name, re.compile("^" + rx + "$", re.S), text.count("{}")))
        _TEMPL = out
    return _TEMPL


def parse_msg(m):
    if not isinstance(m, str):
        return ["?", repr(m)]
    w = re.match(r"^(feature|property) (\d+): (.*)$", m, re.S)
    if w:
        inner = [n for n, rx, ar in templates() if ar == 0 and rx.match(w.group(3))]
        if len(inner) == 1:
            return [w.group(1), int(w.group(2)), inner[0]]
        return ["?", m]
    hits = []
    for n, rx, ar in templates():
        mm = rx.match(m)
        if mm:
            hits.append([n] + [int(g) for g in mm.groups()])
    if len(hits) == 1:
        return hits[0]
    return ["?", m]


ERRS = (("IndexError", IndexError), ("KeyError", KeyError), ("ValueError", ValueError), ("TypeError", TypeError),
        ("RuntimeError", RuntimeError), ("AttributeError", AttributeError))


def err_name(e):
    for nm, cls in ERRS:
        if isinstance(e, cls):
            return nm
    return "Exception"


def run_validate(f):
    """validate() once: ("ok", [(object, [parsed message...])...] in insertion order) or ("err", class, text)"""
    try:
        res = f.validate()
    except Exception as e:
        return ("err", err_name(e), str(e)[:120])
    return ("ok", [(obj, [parse_msg(m) for m in msgs]) for obj, msgs in res["errors"].items()])


def keyed(f, raw, keys):
    """the validate() result with objects replaced by (kind, index path) through `keys` (entity id -> key)"""
    if raw[0] == "err":
        return {"err": raw[1], "text": raw[2]}
    out = []
    for obj, msgs in raw[1]:
        if obj is f:
            kind, path = "file", ()
        else:
            kind, path = keys.get(getattr(obj, "id", None), ("?", ()))
        out.append([kind, list(path), msgs])
    return {"ok": out}


def run_impl(f, keys):
    """validate() -> {"ok": [[kind, path, [msg...]], ...]} in insertion order, or {"err": class}"""
    return keyed(f, run_validate(f), keys)


def same(model, impl):
    if "err" in model or "err" in impl:
        return model.get("err") == impl.get("err") and "ok" not in model and "ok" not in impl
    return model.get("ok") == impl.get("ok")


# ---------------------------------------------------------------------------------------
# case streams

def inj_kind(inj):
    if inj[0] in ("ent_del", "ent_empty"):
        nested = (inj[1] == "source" and len(inj[2]) > 2) or (inj[1] == "section" and len(inj[2]) > 1)
        return "%s.%s%s.%s" % (inj[0], inj[1], ".nested" if nested else "", inj[3])
    if inj[0] in ("prop_del", "prop_empty"):
        return "%s%s.%s" % (inj[0], ".nested" if len(inj[1]) > 1 else "", inj[-1])
    if inj[0] == "feat_del":
        return "%s.%s" % (inj[0], inj[-1])
    if inj[0] in ("ref_unit", "ref_rank", "ref_dims"):
        return "%s.%s.%s" % (inj[0], inj[1], inj[-1])
    if inj[0] == "ticks_adj":
        return "%s.%s" % (inj[0], inj[2])
    if inj[0] == "relink":
        return "%s.%s%s" % (inj[0], inj[2], "" if inj[2] == "selfcross" else ".%+d" % inj[3])
    return inj[0]


def apply_all(base, injs):
    m = base
    for i in injs:
        m = apply_inj(m, i)
        if m is None:
            return None
    return m


SUBSETS = ["first", "last", "middle", "notlast", "notfirst", "random", "random", "all"]


def pick_subset(rng, n):
    """a non-empty subset of range(n), by position pattern (first / last / inner / all but one end / any / all)"""
    how = rng.choice(SUBSETS)
    if how == "first":
        return [0]
    if how == "last":
        return [n - 1]
    if how == "middle":
        return [rng.randrange(1, n - 1)] if n > 2 else [0]
    if how == "notlast":
        return list(range(n - 1)) or [0]
    if how == "notfirst":
        return list(range(1, n)) or [0]
    if how == "all":
        return list(range(n))
    return sorted(rng.sample(range(n), rng.randint(1, n)))


def gen_multiref(rng, scope, odd=False):
    """a tag / multi-tag with 2-4 references of which a subset (first only, last only, an inner one, all but the last,
    ...) is inconsistent with the tag in one per-reference rule (unit of one or several descriptors, rank, descriptor
    count); everything else in the file stays well-formed"""
    for _ in range(20):
        base = gen_recipe(rng, small=True, odd=odd, want=rng.choice([2, 3, 3, 4]))
        el = [i for i in eligible(base, scope, rng) if i[0] in ("ref_unit", "ref_rank", "ref_dims")]
        tags = sorted(set((i[1], tuple(i[2])) for i in el
                          if len(base["blocks"][i[2][0]][i[1]][i[2][1]]["refs"]) >= 2))
        if not tags:
            continue
        kind, p = rng.choice(tags)
        nref = len(base["blocks"][p[0]][kind][p[1]]["refs"])
        rule = rng.choice(["ref_unit", "ref_unit", "ref_unit", "ref_rank", "ref_dims"])
        injs = []
        for k in pick_subset(rng, nref):
            c = [i for i in el if i[0] == rule and i[1] == kind and tuple(i[2]) == p and i[3] == k]
            if not c:
                continue
            if rule == "ref_unit" and rng.random() < 0.3:
                # several descriptors of the same reference
                dis = sorted(set(i[4] for i in c))
                for di in pick_subset(rng, len(dis)):
                    injs.append(rng.choice([i for i in c if i[4] == dis[di]]))
            else:
                injs.append(rng.choice(c))
        m = apply_all(base, injs) if injs else None
        if m is not None:
            return ("multiref", m, injs)
    return None


def gen_multiobj(rng, scope, odd=False):
    """one kind of inconsistency injected at a subset of the sites that can have it (several descriptors of one array,
    several arrays, tags, features, properties, entities): per-object rules must report each of them and no other"""
    for _ in range(20):
        base = gen_recipe(rng, small=True, odd=odd)
        el = eligible(base, scope, rng)
        by = {}
        for i in el:
            by.setdefault(inj_kind(i).split(".")[0] if i[0].startswith("ref_") else inj_kind(i), []).append(i)
        kinds = sorted(k for k, v in by.items() if len(v) >= 2)
        if not kinds:
            continue
        sites = by[rng.choice(kinds)]
        injs = [sites[j] for j in pick_subset(rng, min(len(sites), 5))]
        m = base
        used = []
        for i in injs:
            m2 = apply_inj(m, i)
            if m2 is not None:
                m, used = m2, used + [i]
        if len(used) >= 2:
            return ("multi", m, used)
    return None


def gen_cases(ctx, scope, n_plain, n_bases, singles_per_base, pairs_per_base, exhaustive_bases=0,
              exhaustive_pairs=60, n_multiref=0, n_multi=0, n_sweep=0, sweep_size=24, each_kind=True):
    """[(label, recipe, [injections])]"""
    rng = ctx.rng
    odd = scope == "all"
    cases = []
    for _ in range(n_sweep):
        cases.append(("unitsweep", gen_unit_sweep(rng, sweep_size, odd), []))
    for _ in range(n_multiref):
        c = gen_multiref(rng, scope, odd)
        if c:
            cases.append(c)
    for _ in range(n_multi):
        c = gen_multiobj(rng, scope, odd)
        if c:
            cases.append(c)
    for _ in range(n_plain):
        cases.append(("wellformed", gen_recipe(rng, small=False, odd=odd), []))
    # every injection kind at least once per run, on a fresh small base each
    seen = set()
    tries = 0 if each_kind else 40
    while tries < 40:
        tries += 1
        base = gen_recipe(rng, small=True, odd=odd, want=rng.choice([0, 2, 3]))
        for inj in eligible(base, scope, rng):
            k = inj_kind(inj)
            if k not in seen:
                m = apply_inj(base, inj)
                if m is not None:
                    seen.add(k)
                    cases.append(("single", m, [inj]))
    for bi in range(n_bases):
        base = gen_recipe(rng, small=True, odd=odd)
        el = eligible(base, scope, rng)
        cases.append(("wellformed", base, []))
        full = bi < exhaustive_bases
        singles = el if full else rng.sample(el, min(singles_per_base, len(el)))
        for inj in singles:
            m = apply_inj(base, inj)
            if m is not None:
                cases.append(("single", m, [inj]))
        if full:
            pairs = [(a, b) for i, a in enumerate(el) for b in el[i + 1:]]
            if len(pairs) > exhaustive_pairs:
                pairs = rng.sample(pairs, exhaustive_pairs)
        else:
            pairs = [tuple(rng.sample(el, 2)) for _ in range(pairs_per_base)] if len(el) >= 2 else []
        for a, b in pairs:
            m = apply_all(base, [a, b])
            if m is not None:
                cases.append(("pair", m, [a, b]))
    return cases


def link_cases(ctx, n):
    """malformed stream of the link model: `link_data_array(provider, index)` with indices of the wrong rank, with no /
    several -1, other negative entries, coordinates outside the provider; after an accepted link the ticks are read.
    [(driver case, what nixio did)]"""
    nix = _nix()
    from nixio.exceptions import IncompatibleDimensions
    rng = ctx.rng
    ctx._c14n = getattr(ctx, "_c14n", 0) + 1
    path = ctx.tmpfile("l%d.nix" % ctx._c14n)
    f = nix.File.open(path, nix.FileMode.Overwrite)
    out = []
    try:
        blk = f.create_block("b", "t")
        da = blk.create_data_array("d", "t", data=np.zeros(3))
        rd = da.append_range_dimension(ticks=[1.0, 2.0, 3.0])
        provs = {}
        for _ in range(n):
            shape = tuple(rng.choice([1, 2, 3, 4]) for _ in range(rng.choice([1, 1, 2, 2, 3])))
            if shape not in provs:
                provs[shape] = blk.create_data_array("p%d" % len(provs), "t",
                                                     data=np.arange(float(np.prod(shape))).reshape(shape) * 0.5)
            rank = len(shape) + rng.choice([0, 0, 0, 0, 0, 0, -1, 1])
            index = [rng.choice([0, 0, 1, 2, 3, -2, 4]) for _ in range(max(rank, 0))]
            for _k in range(rng.choice([0, 1, 1, 1, 1, 1, 1, 2])):
                if index:
                    index[rng.randrange(len(index))] = -1
            try:
                rd.link_data_array(provs[shape], list(index))
                res = {"ok": None}
            except IncompatibleDimensions:
                res = {"err": "IncompatibleDimensions"}
            except ValueError:
                res = {"err": "ValueError"}
            out.append((["linkaccept", list(shape), index], res))
            if "ok" in res:
                try:
                    res = {"ok": [_frac(t) for t in rd.ticks]}
                except IndexError:
                    res = {"err": "IndexError"}
                out.append((["linkticks", list(shape), index, [_frac(v) for v in np.asarray(provs[shape][:]).ravel()]],
                            res))
    finally:
        f.close()
        try:
            os.remove(path)
        except OSError:
            pass
    return out


def run_case(ctx, recipe, guards=None, gstats=None, walk=True, links=None):
    """build, describe, validate; returns (description, impl result keyed by walk path, impl keyed by recipe path).
    guards (a list) receives, for every object of the file, the compiled-guard case and what the interpreter finds"""
    f, ids = build(ctx, recipe)
    try:
        desc, keys = describe(f, links) if walk else (None, {})
        if guards is not None:
            guards.extend(G.collect(f, gstats))
        raw = run_validate(f)
        impl = keyed(f, raw, keys)
        impl_r = keyed(f, raw, ids)
    finally:
        path = f._h5file.filename
        f.close()
        try:
            os.remove(path)
        except OSError:
            pass
    return desc, impl, impl_r


def correspondence(ctx):
    corpus = [("corpus", c[1], []) for c in core.load_corpus(PROP) if c and c[0] == "recipe"]

    def q(quick, thorough):
        """per-base counts: by tier only (the number of bases carries the harness's budget boost)"""
        return quick if ctx.quick() else thorough
    cases = corpus + gen_cases(ctx, "all", ctx.budget(10, 80), ctx.budget(7, 12), q(12, 24),
                               q(12, 24), exhaustive_bases=ctx.budget(0, 1), exhaustive_pairs=200,
                               n_multiref=ctx.budget(18, 80), n_multi=ctx.budget(12, 60),
                               n_sweep=ctx.budget(3, 12), sweep_size=ctx.budget(24, 40))
    descs, impls = [], []
    dist = {"labels": {}, "injections": {}, "impl_errors": {}, "messages": {}, "guards": {}}
    gpairs = []
    lpairs = []             # the link model: ticks of descriptors linked to a DataArray, link acceptance
    gfiles = ctx.budget(20, 200)        # files whose objects also go through the compiled guards
    for ci, (label, recipe, injs) in enumerate(cases):
        desc, impl, _ = run_case(ctx, recipe, gpairs if ci % 2 == 0 and ci < 2 * gfiles else None, dist["guards"],
                                 links=lpairs)
        descs.append(["validate", desc])
        impls.append(impl)
        dist["labels"][label] = dist["labels"].get(label, 0) + 1
        for i in injs:
            dist["injections"][inj_kind(i)] = dist["injections"].get(inj_kind(i), 0) + 1
        if "err" in impl:
            dist["impl_errors"][impl["err"]] = dist["impl_errors"].get(impl["err"], 0) + 1
        else:
            for _k, _p, msgs in impl["ok"]:
                for m in msgs:
                    nm = m[2] if m[0] in ("feature", "property") else m[0]
                    dist["messages"][nm] = dist["messages"].get(nm, 0) + 1
    gpairs = G.dedup(gpairs)
    lpairs += link_cases(ctx, ctx.budget(60, 600))
    lseen = set()
    lpairs = [(c, r) for c, r in lpairs if core.canon(c) not in lseen and not lseen.add(core.canon(c))]
    model = core.run_driver(PROP, descs + [c for c, _r in gpairs] + [c for c, _r in lpairs])
    lmodel, model = model[len(descs) + len(gpairs):], model[:len(descs) + len(gpairs)]
    gmodel, model = model[len(descs):], model[:len(descs)]
    disagreements = []
    for (case, res), m in zip(lpairs, lmodel):
        if m != res:
            disagreements.append(Disagreement(case, m, res))
    dist["links"] = {"distinct": len(lpairs)}
    for c, r in lpairs:
        k = "%s.%s" % (c[0], r.get("err", "ok"))
        dist["links"][k] = dist["links"].get(k, 0) + 1
    for (case, res), m in zip(gpairs, gmodel):
        if m != res:
            disagreements.append(Disagreement(case, m, res))
    dist["guards"]["distinct"] = len(gpairs)
    seen = set()
    for (label, recipe, injs), d, m, i in zip(cases, descs, model, impls):
        i2 = {k: v for k, v in i.items() if k != "text"}
        if not same(m, i2):
            disagreements.append(Disagreement(["recipe", recipe, injs], m, i))
        if "err" in i or i.get("ok"):
            seen.add(core.canon(i2))
    disagreements.sort(key=lambda d: len(core.canon(d.case)))
    samples = [{"case": cases[k][2], "label": cases[k][0], "model": model[k]} for k in
               sorted(ctx.rng.sample(range(len(cases)), min(6, len(cases))))]
    return {"evaluations": len(cases) + len(gpairs) + len(lpairs), "distinct_nontrivial": len(seen),
            "rule": "generated well-formed files (1-2 blocks; arrays of rank 1-3 in families that share per-dimension "
                    "quantities, range/sampled/set descriptor mixes, units = prefix x base unit x power over the "
                    "complete SI tables with a bias to look-alike symbols; tags and multi-tags with 0-4 references, "
                    "features; source and section trees) + every injection kind at least once (per-reference "
                    "injections at the first / an inner / the last reference) + sampled single and pairwise injections "
                    "per base + multi-reference cases (a subset of 2-4 references inconsistent in one rule) + one "
                    "inconsistency kind at a subset of its sites + unit sweeps (24-40 tags per file, convertible / "
                    "unconvertible / non-SI unit pairs) (thorough: all singles and 200 sampled pairs on one base); each "
                    "case is a real HDF5 file; model(description) and validate()['errors'] compared exactly (objects, "
                    "order, messages with arguments, or the exception class). non-trivial = at least one error "
                    "reported or an exception; distinct by canonical result. On every second file the conditions of "
                    "the report sites are also evaluated per object: by the Python interpreter (the AST nodes of "
                    "validator.py on the real nixio object) and by the driver (the compiled PyGuard expressions on "
                    "the values the reads returned), compared exactly. Range descriptors take their ticks / units and set "
                    "descriptors their labels also through links (a vector of another DataArray of rank 1-3, a vector of "
                    "the array itself, a DataFrame column; relink injections: provider one entry shorter / equal / longer, "
                    "self link along another dimension); per linked descriptor the link model's vector vs the real "
                    "dim.ticks, plus a malformed stream of link_data_array calls (wrong rank, no / several -1, other "
                    "negatives, coordinates outside the provider) compared by exception class",
            "samples": samples, "distribution": dist, "disagreements": disagreements, "exhaustive": False}


# ---------------------------------------------------------------------------------------
# property oracle on the implementation (independent of the model)

def check_recipe(ctx, recipe, injs=None):
    """Failures of the property on this recipe: validate() must return, and report exactly `expect(recipe)`"""
    und = {}
    want = expect(recipe, und)
    _desc, _impl, impl = run_case(ctx, recipe, walk=False)      # the oracle needs no description of the file
    inp = ["recipe", recipe, injs or []]
    if "err" in impl:
        return [Failure("validate() raised %s instead of reporting" % impl["err"], inp,
                        {"exception": impl["err"], "text": impl.get("text")},
                        {"errors": _fmt(want)}, "nixio/validator.py:check_file")]
    got = {}
    for kind, path, msgs in impl["ok"]:
        got[(kind, tuple(path))] = set(tuple(m) for m in msgs)
    fails = []
    for key in sorted(set(want) | set(got), key=str):
        skip = und.get(key, set())
        w, g = want.get(key, set()) - skip, got.get(key, set()) - skip
        if w != g:
            missing, extra = sorted(w - g, key=str), sorted(g - w, key=str)
            what = []
            if missing:
                what.append("not reported: %s" % ", ".join(_m(m) for m in missing))
            if extra:
                what.append("reported without cause: %s" % ", ".join(_m(m) for m in extra))
            fails.append(Failure("%s %s: %s" % (key[0], list(key[1]), "; ".join(what)), inp,
                                 {"errors": _fmt(got)}, {"errors": _fmt(want)}, "nixio/validator.py"))
    return fails


def _m(m):
    return ":".join(str(x) for x in m)


def _fmt(d):
    return {"%s%s" % (k[0], list(k[1])): sorted(_m(m) for m in v) for k, v in sorted(d.items(), key=str)}


def _fixed_cases(ctx):
    """repaired defects on a fixed base (independent of the seed): missing created_at on every kind of object, missing
    positions link of a multi-tag"""
    import random
    rng = random.Random(14)
    out = []
    base = gen_recipe(rng, small=True)
    base["epoch0"] = True       # a file dated at the epoch has a date (repaired: `not nixfile.created_at`)
    out.append(("fixed", base, []))
    for inj in eligible(base, "property"):
        if ((inj[0] == "ent_del" and inj[3] == "created_at") or (inj[0] == "feat_del" and inj[-1] == "created_at")
                or inj[0] in ("mt_unlink_pos", "file_nodate")):
            m = apply_inj(base, inj)
            if m is not None:
                out.append(("fixed", m, [inj]))
    return out


def _used_arrays(b):
    used = set()
    for t in b["tags"]:
        used.update(t["refs"])
        used.update(f["data"] for f in t["feats"])
    for t in b["mtags"]:
        used.update(t["refs"])
        used.update(f["data"] for f in t["feats"])
        used.add(t["pos"])
        if t["ext"] is not None:
            used.add(t["ext"])
    for a in b["arrays"]:
        used.update(d["link"]["arr"] for d in a["dims"] if isinstance(d.get("link", {}).get("arr"), int))
    return used


def _shrink_candidates(r):
    """smaller recipes: drop sections, sources, groups, tags, multi-tags, blocks, trailing unreferenced arrays"""
    if r["sections"]:
        c = copy.deepcopy(r)
        c["sections"] = []
        yield c
    for bi in reversed(range(len(r["blocks"]))):
        if len(r["blocks"]) > 1:
            c = copy.deepcopy(r)
            del c["blocks"][bi]
            yield c
        b = r["blocks"][bi]
        for key in ("sources", "groups"):
            if b[key]:
                c = copy.deepcopy(r)
                c["blocks"][bi][key] = []
                yield c
        for key in ("tags", "mtags"):
            for ti in reversed(range(len(b[key]))):
                c = copy.deepcopy(r)
                del c["blocks"][bi][key][ti]
                yield c
                if b[key][ti]["feats"]:
                    c = copy.deepcopy(r)
                    c["blocks"][bi][key][ti]["feats"] = []
                    yield c
        if b["arrays"] and (len(b["arrays"]) - 1) not in _used_arrays(b):
            c = copy.deepcopy(r)
            c["blocks"][bi]["arrays"].pop()
            yield c


def shrink(ctx, failure, known, limit=120):
    """greedy reduction of the recipe of a failure; keeps a recipe only if it still fails outside the known findings"""
    recipe = failure.input[1]
    best = failure
    trials = 0
    progress = True
    while progress and trials < limit:
        progress = False
        for cand in _shrink_candidates(recipe):
            trials += 1
            if trials > limit:
                break
            try:
                fails = [fl for fl in check_recipe(ctx, cand, failure.input[2] if len(failure.input) > 2 else [])
                         if not any(matches_known(e, fl) for e in known)]
            except Exception:
                continue
            if fails:
                recipe, best, progress = cand, fails[0], True
                break
    return best


def oracle(ctx, broken, hints):
    cases = []
    for h in hints[:40]:
        if isinstance(h, list) and h and h[0] == "recipe":
            cases.append(("hint", h[1], h[2] if len(h) > 2 else []))
    cases += [("corpus", c[1], c[2] if len(c) > 2 else []) for c in core.load_corpus(PROP) if c and c[0] == "recipe"]
    cases += _fixed_cases(ctx)

    def q(quick, thorough):
        return quick if ctx.quick() else thorough
    if broken:
        # (quick budgets are tripled by the harness when an anchored source differs from the baseline)
        cases += gen_cases(ctx, "property", ctx.budget(10, 100), ctx.budget(8, 120), q(20, 30),
                           q(20, 30), exhaustive_bases=ctx.budget(0, 3),
                           n_multiref=ctx.budget(40, 400), n_multi=ctx.budget(20, 200),
                           n_sweep=ctx.budget(5, 40), sweep_size=ctx.budget(30, 40))
    else:
        cases += gen_cases(ctx, "property", ctx.budget(5, 30), ctx.budget(5, 8), q(8, 25),
                           q(8, 30), exhaustive_bases=ctx.budget(0, 1), exhaustive_pairs=150,
                           n_multiref=ctx.budget(16, 70), n_multi=ctx.budget(8, 40),
                           n_sweep=ctx.budget(3, 12), sweep_size=ctx.budget(24, 40), each_kind=not ctx.quick())
    failures = []
    seen = set()
    kinds = {}
    known = [e for e in core.load_known(PROP) if e.get("status") == "open"]
    fresh = 0
    evaluated = 0
    for label, recipe, injs in cases:
        if broken and fresh >= 8:
            break       # enough concrete failing inputs outside the known findings
        evaluated += 1
        kinds[label] = kinds.get(label, 0) + 1
        for fl in check_recipe(ctx, recipe, injs):
            key = (fl.what, core.canon(recipe))
            if key not in seen:
                seen.add(key)
                failures.append(fl)
                if not any(matches_known(e, fl) for e in known):
                    fresh += 1
    failures.sort(key=lambda fl: len(core.canon(fl.input)))
    news = [fl for fl in failures if not any(matches_known(e, fl) for e in known)]
    if news:
        small = shrink(ctx, news[0], known)
        failures = [small] + [fl for fl in failures if fl is not small]
    return {"evaluations": evaluated, "failures": failures, "cases": kinds}


# ---------------------------------------------------------------------------------------
# known findings

def _has(recipe, pred):
    return any(pred(kind, x) for kind, _p, x in _entities(recipe))


def _deleted_ids(recipe):
    n = sum(1 for _k, _p, x in _entities(recipe) if "entity_id" in x["del"])
    for b in recipe["blocks"]:
        for kind in ("tags", "mtags"):
            for t in b[kind]:
                n += sum(1 for f in t["feats"] if "entity_id" in f["del"])
    for _p, sec in _sections(recipe):
        n += sum(1 for pr in sec["props"] if "entity_id" in pr["del"])
    return n


def matches_known(entry, failure):
    """narrow class: validate() raises ValueError because an entity / feature / property has no entity_id"""
    inp = failure.input
    if not (isinstance(inp, list) and len(inp) >= 2 and inp[0] == "recipe"):
        return False
    cls = entry.get("class")
    if cls == "missing-id-raises":
        return failure.what.startswith("validate() raised ValueError") and _deleted_ids(inp[1]) > 0
    return False


def reproduces(ctx, entry):
    try:
        fails = check_recipe(ctx, entry["input"][1], [])
    except Exception:
        return False
    return any(matches_known(entry, fl) for fl in fails)


def replay_failure(ctx, fj):
    inp = fj["input"]
    fails = check_recipe(ctx, inp[1], inp[2] if len(inp) > 2 else [])
    for fl in fails:
        if fl.what == fj.get("what"):
            return fl
    return fails[0] if fails else None


MANIFEST = {
    "level_text": "Kernel-checked theorems over a Lean model of validator.py (check functions branch for branch, the "
                  "check_file traversal incl. the recursive source/section walks, the API reads that raise; unit tests "
                  "through the C09 model of units.py instantiated with the regenerated SI tables): a file validates to "
                  "no errors iff it is well-formed (C14_sound, C14_silent_wellformed, C14_sound_iff: WellFormed is "
                  "exactly the conjunction the validator's silence forces); the traversal reports exactly the objects "
                  "of the file whose message list is non-empty, under the key that names their position (C14_objects, "
                  "C14_entry_at, C14_reports); for each catalogue entry the message is in an object's list iff the "
                  "object has that inconsistency, per-dimension/feature/property messages tied to the position they "
                  "name (C14_complete_*); on units written from the SI tables 'convertible' is same symbol and power, "
                  "and one inconvertible descriptor of any one reference suffices (C14_unit_pair_atoms, "
                  "C14_unconvertible_atoms); the catalogue texts are pairwise distinct. Tie: catalogue, emitted "
                  "identifiers, guard structure of every check function and the statements of the verdict helpers are "
                  "regenerated from the AST and compared by named theorems (C14_emits_*, C14_shape_*); the CONDITIONS "
                  "of all 37 report sites are compiled from the AST into an expression language with Python's "
                  "truthiness / and / or / is None / comparison / len / generator semantics (Pure/PyGuard.lean; the "
                  "verdict helper tag_units_match_refs_units inlined at its calls, get_dim_units compiled as a "
                  "collecting loop) and proved, for all values the reads can return, to compute exactly the model's "
                  "message lists (C14_guards_entity/file/property/feature/range/sampled/array/tag/multi_tag/"
                  "get_dim_units; coverage and locals pinned by C14_guards_opaque/cover/locals); the read behind `dim.ticks` of a "
                  "descriptor linked to a DataArray is modelled too (Pure/DimLinkTicks.lean: link_data_array's verdict, "
                  "is_alias, DimensionLink.values as a vector of row-major data): the tick count message is reported "
                  "iff the provider's extent along the marked axis differs from the data extent, whatever is_alias says "
                  "(C14_linked_ticks_count / _read / C14_link_accepts_any_length / C14_linked_is_alias); exact differential runs on "
                  "real HDF5 files (well-formed files incl. boundary values of every presence-tested field and descriptors "
                  "whose ticks / labels come through a link: vector of another or the same DataArray, DataFrame column; single / "
                  "pairwise / subset injections, multi-reference cases, unit sweeps over the complete SI tables), and "
                  "per object the compiled conditions under the Lean semantics against the same AST nodes run by the "
                  "Python interpreter; an independent recipe-level oracle with its own SI unit reader states the "
                  "property on the implementation.",
    "level_note": "Partial: the API reads are abstracted to a description produced by the same walk on both sides; "
                  "'no ID set' cannot be reported (the API refuses an entity without UUID id, validate() raises): full "
                  "statement refuted (C14_complete_NoID_counterexample), partial theorem under the UUID hypothesis, "
                  "open known finding (missing id). Repaired in /repo: missing date (d015b28), position/extent mismatch "
                  "without references (961745b), missing positions link (b01e565), file dated at the epoch reported as "
                  "undated / missing file date raised KeyError (5bc8e32). In C14_guards_* the locals (refs_units, posdim, "
                  "extdim, positions, file_created_at) are environment values whose assignments are pinned as text "
                  "(C14_guards_locals). C14_unit_pair_atoms covers powers "
                  "^-3..^3 (the C09 atom table). Trusted: Lean kernel; axioms propext/Classical.choice/Quot.sound; the "
                  "catalogue, guards and units translators; the harness builder/walker/parser and the oracle's SI table "
                  "(harness/props/c14_units.py).",
    "technique": "Lean 4 proof over a model of validator.py + conditions compiled from the AST and proved equal to the "
                 "model + differential correspondence on real HDF5 files",
}
