"""C06 — index expressions on arrays and views mean what they mean in NumPy
(nixio/data_view.py, data_set.py, data_array.py get_slice/_read_data, hdf5/h5dataset.py)."""
import itertools
import os
from fractions import Fraction

import numpy as np

from ..lib import core
from ..lib.core import Failure, Disagreement
from ..extract import viewshape as _ex

PROP = "C06"
LEAN_MODULE = "NixModel.Props.C06"
THEOREMS = [
    "Nix.C06.C06_slice_indices",
    "Nix.C06.C06_window",
    "Nix.C06.C06_get_slice",
    "Nix.C06.C06_window_read",
    "Nix.C06.C06_transform",
    "Nix.C06.C06_transform_refuses",
    "Nix.C06.C06_view_read",
    "Nix.C06.C06_write_exact",
    "Nix.C06.C06_array",
    # the model is the source: Generated/ViewShape.lean (compiled from the Python AST) = Pure/DataView.lean
    "Nix.C06.C06_source_init",
    "Nix.C06.C06_source_expand",
    "Nix.C06.C06_source_transform",
    "Nix.C06.C06_source_read_write",
    "Nix.C06.C06_source_single",
    "Nix.C06.C06_source_get_slice",
    "Nix.C06.C06_generated_view_read",
    # get_slice in DATA mode: _get_slice_bydim over C07's index_of, composed with the window theorems
    "Nix.C06.C06_data_slice",
    "Nix.C06.C06_data_windows",
    "Nix.C06.C06_data_axis_range",
    "Nix.C06.C06_data_axis_sampled",
    "Nix.C06.C06_source_bydim",
]
ASSUMPTIONS = [
    "array content is not modelled here (C01): reads and writes are described by the ordered list of parent "
    "elements they address; the harness observes that list through arrays whose elements are their own offsets",
    "h5py's region selection (`dataset[tuple]`) is replaced by the executable stand-in `h5Select` (scan order and "
    "error classes of h5py/_selector.pyx), NumPy basic indexing by `npSelect`, CPython `slice.indices`/`range` by "
    "`PySlice.indices`/`pyRange`; each is compared with the real library on every run",
    "windows are built from integers (`slice(p, p + e)`, as every nixio caller does); `None` inside a window "
    "slice, NumPy `newaxis`/boolean/array indices and non-integer positions are outside the model",
    "value broadcasting on assignment is h5py's (runtime); the theorems speak about which elements are addressed. The "
    "oracle assigns scalar, exactly shaped, broadcast (leading 1s, 1 for an axis, trailing axes), wrongly shaped and "
    "empty sources and compares the array with NumPy's result (a source NumPy refuses must leave the array unchanged; "
    "sources of rank >= 1 for a single-element (rank-0) selection are left out: NumPy's answer depends on its version)",
    "DATA-mode get_slice: floats are exact rationals; positions, extents, offsets, intervals and ticks are drawn from a "
    "dyadic grid (power-of-two intervals) so that every float operation on nixio's path is exact and a position is on a "
    "sample or a quarter sample away; the index_of conversions are C07's model (Pure/Dim.lean) with C07's assumptions "
    "(tolerance band, positive interval); DataFrame-backed dimensions are outside the model",
    "Generated/ViewShape.lean is produced by a compiler for the Python subset the anchored functions are written in "
    "(harness/extract/viewshape.py); the compiler and the control-flow interpreters of Pure/ViewGen.lean (loop over "
    "zip, any(), early return) are trusted to render Python's semantics - they are small, and the compiled functions "
    "are exercised against the real code through the hand-written model they are proved equal to",
]
TRUSTED_EXTRA = ["harness/extract/viewshape.py (Python-subset -> Lean compiler) and Pure/ViewGen.lean (Python built-ins and "
                 "control-flow interpreters the generated code is written in)",
                 "the hand-written model of data_view.py / data_array.py index paths is proved equal to the generated code "
                 "and tied by differential execution (exhaustive over small shapes in the thorough tier)"]



def extract(repo):
    return _ex.extract(repo)


SITE_VIEW = "nixio/data_view.py"
SITE_ARRAY = "nixio/data_array.py / nixio/hdf5/h5dataset.py"


# ---------------------------------------------------------------------------------------
# protocol helpers


def py_ix1(c):
    """integers divisible by 3 (0 included) are handed over as numpy integers, the others as Python ints: both are
    `numbers.Integral`, both are what users index with (loop counters vs. results of np.argmax / np.where)"""
    if c == "...":
        return Ellipsis
    if isinstance(c, dict):
        return slice(*[(np.int64(x) if isinstance(x, int) and x % 3 == 0 and x % 2 else x) for x in c["s"]])
    if isinstance(c, int) and not isinstance(c, bool) and c % 3 == 0:
        return np.int64(c)
    return c


def py_ix(ix):
    """JSON index expression -> Python object handed to __getitem__"""
    if isinstance(ix, list):
        return tuple(py_ix1(c) for c in ix)
    return py_ix1(ix)


def ix_components(ix):
    return ix if isinstance(ix, list) else [ix]


def show_ix(ix):
    def one(c):
        if c == "...":
            return "..."
        if isinstance(c, dict):
            a, b, k = c["s"]
            s = "%s:%s" % ("" if a is None else a, "" if b is None else b)
            return s if k is None else s + ":%s" % k
        return str(c)
    if ix is None:
        return "<None>"
    if isinstance(ix, list):
        return "(" + ", ".join(one(c) for c in ix) + ("," if len(ix) == 1 else "") + ")"
    return one(ix)


def err_name(e):
    from nixio.exceptions import OutOfBounds, InvalidSlice, IncompatibleDimensions
    for cls, nm in ((OutOfBounds, "OutOfBounds"), (InvalidSlice, "InvalidSlice"),
                    (IncompatibleDimensions, "IncompatibleDimensions"), (IndexError, "IndexError"),
                    (ValueError, "ValueError"), (TypeError, "TypeError"), (KeyError, "KeyError"),
                    (AttributeError, "AttributeError"), (OverflowError, "OverflowError")):
        if isinstance(e, cls):
            return nm
    return type(e).__name__


def prod(shape):
    n = 1
    for s in shape:
        n *= s
    return n


WBASE = 1000000     # values written by the harness: WBASE + k for the k-th element of the assigned array


class Env:
    """one nix file per run; one data array per shape; content reset / inspected through h5py directly"""

    def __init__(self, ctx, tag):
        import nixio as nix
        self.nix = nix
        self.path = os.path.join(ctx.scratch, "c06-%s-%d.nix" % (tag, os.getpid()))
        self.file = nix.File.open(self.path, nix.FileMode.Overwrite)
        self.block = self.file.create_block("b", "t")
        self.arrays = {}
        self.dimarrays = {}
        self.dirty = set()

    def close(self):
        try:
            self.file.close()
        except Exception:
            pass

    @staticmethod
    def base(shape):
        return np.arange(prod(shape), dtype=np.int64).reshape(shape)

    def array(self, shape):
        key = tuple(shape)
        if key not in self.arrays:
            name = "a" + "_".join(map(str, key))
            if prod(shape) == 0:
                da = self.block.create_data_array(name, "t", dtype=self.nix.DataType.Int64, shape=key)
            else:
                da = self.block.create_data_array(name, "t", data=self.base(key))
            self.arrays[key] = (da, da._h5group.group["data"])
        da, ds = self.arrays[key]
        if key in self.dirty:
            if prod(shape):
                ds[...] = self.base(key)
            self.dirty.discard(key)
        return da

    def dim_array(self, shape, dims):
        """array of this shape (content = own offsets) carrying the given dimension descriptors; read-only use"""
        key = (tuple(shape), core.canon(dims))
        if key not in self.dimarrays:
            name = "d%d" % len(self.dimarrays)
            tshape = tuple(shape)
            if prod(shape) == 0:
                da = self.block.create_data_array(name, "t", dtype=self.nix.DataType.Int64, shape=tshape)
            else:
                da = self.block.create_data_array(name, "t", data=self.base(tshape))
            for d in dims:
                if d[0] == "sampled":
                    da.append_sampled_dimension(float(rat(d[2])), offset=None if d[1] is None else float(rat(d[1])))
                elif d[0] == "range":
                    da.append_range_dimension([float(rat(t)) for t in d[1]])
                else:
                    da.append_set_dimension()
            self.dimarrays[key] = da
        return self.dimarrays[key]

    def raw(self, shape):
        """whole content, read with h5py (not through nixio)"""
        ds = self.arrays[tuple(shape)][1]
        return ds[...] if prod(shape) else np.zeros(tuple(shape), dtype=np.int64)

    def mark(self, shape):
        self.dirty.add(tuple(shape))


def rat(x):
    """protocol number (int or "num/den") -> Fraction"""
    return Fraction(x) if isinstance(x, str) else Fraction(int(x))


def fs(x):
    fr = Fraction(x)
    return fr.numerator if fr.denominator == 1 else "%d/%d" % (fr.numerator, fr.denominator)


def read_out(r):
    r = np.asarray(r)
    return {"ok": {"shape": list(r.shape), "idx": [int(x) for x in r.ravel()]}}


def write_value(shape, ixp):
    """the array assigned in a write case: WBASE + k, shaped like NumPy's selection (scalar if NumPy refuses)"""
    try:
        sel = Env.base(shape)[ixp] if ixp is not None else Env.base(shape)
        sel = np.asarray(sel)
        if sel.shape == ():
            return WBASE, []
        return (WBASE + np.arange(sel.size, dtype=np.int64)).reshape(sel.shape), list(sel.shape)
    except Exception:
        return WBASE, None


def written(env, shape):
    after = env.raw(shape).ravel()
    pos = np.nonzero(after >= WBASE)[0]
    order = np.argsort(after[pos], kind="stable")
    return [int(p) for p in pos[order]], after


def view_json(v):
    if v.valid:
        return {"valid": True, "shape": [int(x) for x in v.shape],
                "window": [[int(s.start), int(s.stop)] for s in v._slices]}
    return {"valid": False, "shape": None if v.shape is None else list(v.shape), "window": None}


def run_impl(env, case):
    """execute one correspondence case on the real libraries; canonicalised like the driver's output"""
    op = case[0]
    try:
        if op == "indices":
            return {"ok": list(slice(*case[1]).indices(case[2]))}
        if op == "range":
            if case[3] == 0:
                return {"ok": []}
            return {"ok": list(range(case[1], case[2], case[3]))}
        if op == "np":
            return read_out(Env.base(case[1])[py_ix(case[2])])
        if op == "da_read":
            return read_out(env.array(case[1])[py_ix(case[2])])
        if op == "da_write":
            shape = case[1]
            da = env.array(shape)
            ixp = py_ix(case[2])
            val, vshape = write_value(shape, ixp)
            env.mark(shape)
            da[ixp] = val
            idx, _ = written(env, shape)
            return {"ok": {"shape": vshape, "idx": idx}}
        if op == "mkview":
            from nixio.data_view import DataView
            da = env.array(case[1])
            sl = case[2]
            if sl is not None:
                sl = tuple(None if w is None else slice(w[0], w[1]) for w in sl)
            return {"ok": view_json(DataView(da, sl))}
        if op in ("view", "view_read", "view_write"):
            shape = case[1]
            da = env.array(shape)
            v = da.get_slice(case[2], case[3])
            if op == "view":
                return {"ok": view_json(v)}
            ix = case[4]
            if op == "view_read":
                if ix is None:
                    return read_out(v._read_data())
                return read_out(v[py_ix(ix)])
            # view_write: value shaped like NumPy's selection on the window
            ixp = None if ix is None else py_ix(ix)
            try:
                win = tuple(slice(p, p + e) for p, e in zip(case[2], case[3]))
                wsel = Env.base(shape)[win]
                sel = np.asarray(wsel if ixp is None else wsel[ixp])
                if sel.shape == ():
                    val, vshape = WBASE, []
                else:
                    val, vshape = (WBASE + np.arange(sel.size, dtype=np.int64)).reshape(sel.shape), list(sel.shape)
            except Exception:
                val, vshape = WBASE, None
            env.mark(shape)
            if ix is None:
                v.write_direct(val)
            else:
                v[ixp] = val
            idx, _ = written(env, shape)
            return {"ok": {"shape": vshape, "idx": idx}}
        if op in ("view_data", "view_data_read"):
            da = env.dim_array(case[1], case[2])
            pos = [float(rat(x)) for x in case[3]]
            ext = None if case[4] is None else [float(rat(x)) for x in case[4]]
            v = da.get_slice(pos, ext, env.nix.DataSliceMode.Data)
            if op == "view_data":
                return {"ok": view_json(v)}
            ix = case[5]
            if ix is None:
                return read_out(v._read_data())
            return read_out(v[py_ix(ix)])
    except Exception as e:
        return {"err": err_name(e)}
    return {"bad": "unknown op"}


# ---------------------------------------------------------------------------------------
# generators


def S(a, b, k):
    return {"s": [a, b, k]}


def gen_component(rng, n, malformed=0.0):
    r = rng.random()
    if r < 0.33:
        return rng.randint(-(n + 2), n + 2)
    lo, hi = -(n + 2), n + 2

    def bound():
        return None if rng.random() < 0.3 else rng.randint(lo, hi)
    u = rng.random()
    if u < malformed:
        step = rng.choice([0, -1, -2, -(n + 1)])
    elif u < 0.55:
        step = None
    else:
        step = rng.choice([1, 2, 2, 3, n + 1, n + 3])
    return S(bound(), bound(), step)


def gen_ix(rng, shape, malformed=0.0):
    """index expression for an array/view of this shape: mostly well-formed"""
    rank = len(shape)
    r = rng.random()
    if r < 0.12:
        return gen_component(rng, shape[0] if rank else 0, malformed)      # single unwrapped component
    if r < 0.16:
        return "..."
    use_ell = rng.random() < 0.4
    naxes = rng.randint(0, rank)
    if rng.random() < (0.04 + malformed):
        naxes = rank + rng.randint(1, 2)                                  # surplus indices
    if use_ell:
        pos = rng.randint(0, naxes)
        comps = []
        # axes before the ellipsis index the leading dims, the ones after it the trailing dims
        for i in range(naxes):
            if i < pos:
                ax = i
            else:
                ax = rank - (naxes - i)
            n = shape[ax] if 0 <= ax < rank else 3
            comps.append(gen_component(rng, n, malformed))
        comps.insert(pos, "...")
        if rng.random() < malformed * 0.5:
            comps.insert(rng.randint(0, len(comps)), "...")
        return comps
    return [gen_component(rng, shape[i] if i < rank else 3, malformed) for i in range(naxes)]


def gen_shape(rng, maxrank=4):
    rank = rng.choice([r for r in [1, 1, 2, 2, 2, 3, 3, 4] if r <= maxrank])
    shape = []
    for _ in range(rank):
        shape.append(rng.choice([0, 1, 1, 2, 2, 3, 3, 4, 5, 6]) if rng.random() < 0.9 else rng.randint(0, 9))
    while prod(shape) > 400:
        shape[rng.randrange(rank)] = 2
    return shape


def gen_window(rng, shape, inside=0.75):
    pos, ext = [], []
    ok = rng.random() < inside
    for n in shape:
        if ok:
            p = rng.randint(0, n)
            e = rng.randint(0, n - p)
        else:
            p = rng.randint(-(n + 2), n + 2)
            e = rng.randint(-(n + 2), n + 3)
        pos.append(p)
        ext.append(e)
    return pos, ext


POW2 = [Fraction(1, 8), Fraction(1, 4), Fraction(1, 2), Fraction(1), Fraction(2), Fraction(4)]
FRACS = [Fraction(0), Fraction(0), Fraction(1, 4), Fraction(-1, 4), Fraction(1, 2), Fraction(-1, 2)]


def gen_dim(rng, n):
    """a dimension descriptor for an axis of n samples and a generator of (position, extent) in its units; all
    numbers are dyadic with power-of-two intervals, so every float operation on nixio's path is exact and a position
    is either on a sample or a quarter sample away (far outside the np.isclose bands)"""
    kind = rng.choice(["sampled", "sampled", "range", "range", "set"])
    if kind == "sampled":
        si = rng.choice(POW2)
        off = rng.choice([None, Fraction(0), Fraction(1, 4), Fraction(-1, 2), Fraction(3), Fraction(-5, 4)])
        o = off or Fraction(0)

        def pe():
            if rng.random() < 0.7:              # inside the array
                k = rng.randint(0, n)
                p = o + (k + rng.choice(FRACS) * (k > 0)) * si
                e = (rng.randint(0, n - k) + rng.choice([Fraction(0), Fraction(0), Fraction(1, 4)])) * si
            else:
                p = o + (rng.randint(-2, n + 2) + rng.choice(FRACS)) * si
                e = (rng.randint(-1, n + 2) + rng.choice(FRACS)) * si
            return p, e
        return ["sampled", None if off is None else fs(off), fs(si)], pe
    if kind == "range":
        m = max(1, n + rng.choice([0, 0, 0, 0, 1, -1]))
        t = Fraction(rng.randint(-8, 8), 4)
        ticks = []
        for _ in range(m):
            ticks.append(t)
            t += Fraction(rng.randint(1, 6), 4)

        def pe():
            r = rng.random()
            if r < 0.7:                         # start and end on or near ticks, in order
                i = rng.randrange(len(ticks))
                j = rng.randint(i, len(ticks) - 1)
                p = ticks[i] + rng.choice(FRACS) / 2
                e = ticks[j] + rng.choice(FRACS) / 2 - p
            elif r < 0.85:
                p = rng.choice(ticks) + rng.choice(FRACS) / 2
                e = rng.choice(ticks) + rng.choice(FRACS) / 2 - p
            else:
                p = ticks[0] + Fraction(rng.randint(-6, 4 * (ticks[-1] - ticks[0]).__ceil__() + 6), 4)
                e = Fraction(rng.randint(-3, 24), 4)
            return p, e
        return ["range", [fs(x) for x in ticks]], pe

    def pe():
        if rng.random() < 0.7:
            k = rng.randint(0, n)
            return k + rng.choice([0, 0, Fraction(1, 2)]), rng.randint(0, n - k) + rng.choice([0, 0, Fraction(1, 4)])
        return rng.randint(-1, n + 1) + rng.choice(FRACS), rng.randint(-1, n + 1) + rng.choice(FRACS)
    return ["set"], pe


def gen_data_scene(rng):
    """an array with dimension descriptors (mostly one per dimension) and a generator of get_slice(...,
    DataSliceMode.Data) requests on it: [shape, dims, positions, extents]"""
    rank = rng.choice([1, 1, 2, 2, 3])
    shape = [rng.choice([1, 2, 3, 4, 5, 6]) for _ in range(rank)]
    dims, pes = [], []
    for n in shape:
        d, pe = gen_dim(rng, n)
        dims.append(d)
        pes.append(pe)
    r = rng.random()
    if r < 0.04:
        dims = dims[:-1]                        # fewer descriptors than dimensions
    elif r < 0.06:
        dims = dims + [["set"]]

    def request():
        pos, ext = [], []
        for pe in pes:
            p, e = pe()
            pos.append(fs(p))
            ext.append(fs(e))
        r = rng.random()
        if r < 0.02:
            pos = pos[:-1] if rng.random() < 0.5 else pos + [0]
        elif r < 0.04:
            ext = rng.choice([None, [], ext[:-1], ext + [1]])
        return [shape, dims, pos, ext]
    return request


def gen_data_cases(rng, n, per_scene=8):
    out = []
    while len(out) < n:
        req = gen_data_scene(rng)
        for _ in range(per_scene):
            out.append(req())
    return out[:n]


def all_components(n, steps=(None, 1, 2, 3), bounds=None):
    lo, hi = -(n + 2), n + 2
    comps = list(range(lo, hi + 1))
    bs = [None] + list(range(lo, hi + 1)) if bounds is None else bounds
    for a in bs:
        for b in bs:
            for k in steps:
                comps.append(S(a, b, k))
    return comps


def exhaustive_cases(maxn, rank2=True, reduced=False):
    """thorough tier: all windows x all index expressions for rank 1 (extents <= maxn), all windows x index
    pairs over a reduced component set for rank 2"""
    cases = []
    for n in range(0, maxn + 1):
        comps = all_components(n)
        wins = [(p, e) for p in range(-2, n + 3) for e in range(-2, n + 3)]
        for c in comps:
            cases.append(["da_read", [n], c])
            cases.append(["da_write", [n], [c]])
            cases.append(["np", [n], [c]])
        for (p, e) in wins:
            cases.append(["view", [n], [p], [e]])
            inside = 0 <= p and e >= 0 and p + e <= n
            for c in (comps if inside else comps[::37]):
                cases.append(["view_read", [n], [p], [e], c])
                if inside:
                    cases.append(["view_write", [n], [p], [e], [c]])
            for ix in (None, [], "...", ["...", 0], [0, "..."], [0, 0], [S(None, None, None), 0], ["...", "..."]):
                cases.append(["view_read", [n], [p], [e], ix])
                cases.append(["view_write", [n], [p], [e], ix])
    if rank2:
        for n0 in range(0, maxn + 1):
            for n1 in range(0, maxn + 1):
                if reduced and (n0 + n1) % 2:
                    continue
                shape = [n0, n1]

                def red(n):
                    bs = [None, -(n + 2), -1, 0, 1, n, n + 2]
                    return list(range(-(n + 1), n + 2)) + [S(a, b, k) for a in bs for b in bs for k in (None, 2)]
                c0, c1 = red(n0), red(n1)
                wins = [((p0, p1), (e0, e1)) for p0 in range(0, n0 + 1) for e0 in range(0, n0 - p0 + 1)
                        for p1 in range(0, n1 + 1) for e1 in range(0, n1 - p1 + 1)]
                bad = [((-1, 0), (1, 1)), ((0, 0), (n0 + 1, n1)), ((0, n1), (n0, 1)), ((0, -1), (n0, 2)),
                       ((n0, 0), (-1, n1)), ((1, 1), (n0, n1))]
                for (pp, ee) in wins + bad:
                    cases.append(["view", shape, list(pp), list(ee)])
                k = 0
                for (pp, ee) in wins:
                    # pair every component of axis 0 with a rotating component of axis 1 and vice versa
                    for i, a in enumerate(c0):
                        b = c1[(i + k) % len(c1)]
                        k += 1
                        cases.append(["view_read", shape, list(pp), list(ee), [a, b]])
                    for i, b in enumerate(c1):
                        a = c0[(i + k) % len(c0)]
                        k += 3
                        cases.append(["view_write", shape, list(pp), list(ee), [a, b]])
                    for ix in ([c0[k % len(c0)]], ["...", c1[k % len(c1)]], [c0[k % len(c0)], "..."], "...", [],
                               [0, 0, 0], ["...", 0, 0], [0, "...", 0], [0, 0, "..."]):
                        cases.append(["view_read", shape, list(pp), list(ee), ix])
                        cases.append(["view_write", shape, list(pp), list(ee), ix])
                if reduced:
                    for i, a in enumerate(c0):
                        for b in (c1[(i * 7) % len(c1)], c1[(i * 7 + 3) % len(c1)]):
                            cases.append(["da_read", shape, [a, b]])
                            cases.append(["np", shape, [a, b]])
                else:
                    for a in c0:
                        for b in c1:
                            cases.append(["da_read", shape, [a, b]])
                            cases.append(["np", shape, [a, b]])
    return cases


FIXED_CASES = [
    # D14 (fixed by 46988fc / 7d1abda) and the `if sl:` defect (fixed by 5443bf0): keep them running
    ["view", [10], [-3], [2]], ["view_read", [10], [-3], [2], S(None, None, None)],
    ["view", [10], [-1], [2]], ["view_read", [10], [-1], [2], S(None, None, None)],
    ["view", [10], [12], [-3]], ["view", [10], [2], [-3]], ["view_read", [10], [2], [-3], S(None, None, None)],
    ["view", [10], [5], [-2]], ["view_read", [10], [5], [-2], None],
    ["view_read", [10], [2], [5], [0, 0]], ["view_write", [10], [2], [5], [0, 0]],
    ["view_read", [10], [2], [5], [S(None, None, None), "...", 0]],
    ["view_read", [3, 4], [1, 1], [2, 2], [0, 0, 0]], ["view_read", [3, 4], [1, 1], [2, 2], [0, 0, 0, "..."]],
    ["view_write", [10], [2], [5], 0], ["view_write", [3, 4], [1, 1], [2, 2], 0],
    ["view_write", [10], [2], [5], [0]], ["view_write", [10], [2], [5], []], ["view_write", [10], [2], [5], None],
    # boundary windows
    ["view", [10], [10], [0]], ["view", [10], [11], [0]], ["view", [10], [8], [3]], ["view", [10], [0], [10]],
    ["view", [10], [0], [11]], ["view", [3, 4], [0, 0], [3, 5]], ["view", [3, 4], [1], [2]],
    ["view", [3, 4], [1, 1], [2]], ["view", [3, 4], [1, 1], []], ["view", [3, 4], [1, 1], None],
    ["view", [3, 4], [1, 1, 1], [1, 1, 1]],
    ["mkview", [3, 4], None], ["mkview", [3, 4], [[0, 2], None]], ["mkview", [3, 4], [[0, 2], [1, 4]]],
    ["mkview", [3, 4], [[0, 2]]], ["mkview", [3, 4], [[0, 4], [0, 4]]], ["mkview", [3, 4], [[-1, 2], [0, 4]]],
    ["mkview", [3, 4], [[2, 1], [0, 4]]], ["mkview", [3, 4], []],
    # test-suite style expressions
    ["view_read", [6, 8], [1, 2], [4, 5], [S(None, 100, None), 1]],
    ["view_read", [6, 8], [1, 2], [4, 5], [S(-3, -1, None), -1]],
    ["view_read", [6, 8], [1, 2], [4, 5], [4, S(None, None, None)]],
    ["view_read", [6, 8], [1, 2], [4, 5], [-5]], ["view_read", [6, 8], [1, 2], [4, 5], [0, -6]],
    ["view_read", [2, 3, 2, 3], [0, 1, 0, 1], [2, 2, 2, 2], [1, "...", 1]],
    ["view_read", [2, 3, 2, 3], [0, 1, 0, 1], [2, 2, 2, 2], ["...", 0, 0]],
    ["view_write", [2, 3, 2, 3], [0, 1, 0, 1], [2, 2, 2, 2], [S(0, 2, None), 0, "..."]],
    ["da_read", [10], 10], ["da_read", [10], -11], ["da_read", [10], S(None, None, -1)], ["da_read", [10], [1, 2]],
    ["da_read", [10], ["...", "..."]], ["da_read", [10], []], ["da_read", [0], 0], ["da_read", [0], S(None, None, None)],
    ["da_write", [10], 10], ["da_write", [10], S(None, None, -1)], ["da_write", [10], [1, 2]],
    ["da_write", [3, 4], [10, S(None, None, -1)]], ["da_write", [3, 4], [S(None, None, -1), 10]],
    ["da_write", [3, 4], ["...", "...", 1, 1, 1]], ["da_write", [3, 4], [1, "...", S(None, None, -1), "..."]],
    ["da_write", [3, 4], [1, 1, 1, "...", "..."]], ["da_write", [3, 4], [10, "...", "..."]],
    # DATA mode: on ticks, between ticks, before/after all ticks, negative extent, sampled with offset, set
    ["view_data", [4], [["range", [1, 2, 3, 5]]], [2], [3]], ["view_data", [4], [["range", [1, 2, 3, 5]]], [6], [1]],
    ["view_data", [4], [["range", [1, 2, 3, 5]]], ["3/2"], ["1/4"]], ["view_data", [4], [["range", [1, 2, 3, 5]]], [0], [9]],
    ["view_data", [4], [["range", [1, 2, 3, 5]]], [3], [-2]], ["view_data", [4], [["range", [1, 2, 3, 5]]], [-3], [1]],
    ["view_data", [6], [["sampled", "1/4", "1/2"]], ["3/4"], [1]], ["view_data", [6], [["sampled", None, 1]], [-1], [3]],
    ["view_data", [6], [["sampled", None, 1]], [2], [9]], ["view_data", [6], [["sampled", 3, 1]], [0], [2]],
    ["view_data", [6], [["set"]], ["3/2"], ["5/2"]], ["view_data", [6], [["set"]], ["-1/2"], [7]],
    ["view_data", [3, 4], [["set"]], [0, 0], [1, 1]], ["view_data", [3, 4], [["set"], ["set"]], [0, 0], None],
    ["view_data", [3, 4], [["set"], ["set"]], [0, 0], []], ["view_data", [3, 4], [["set"], ["set"]], [0], [1, 1]],
    ["view_data_read", [4], [["range", [1, 2, 3, 5]]], [2], [3], [-1]],
    ["view_data_read", [3, 4], [["range", [1, 2, 4]], ["sampled", None, "1/2"]], [1, "1/2"], [3, 1], ["...", 0]],
]


# assignments of sources NumPy refuses / broadcasts (oracle only; the model does not speak about values):
# the empty source with a leading zero-length axis stored uninitialised memory before the fix (see known findings)
ORACLE_FIXED = [
    ["da_write_src", [1], [], [0, 1]], ["da_write_src", [2, 3], [], [0, 2, 3]], ["da_write_src", [2, 3], "...", [0, 3]],
    ["da_write_src", [4], S(1, 3, None), [0, 2]], ["da_write_src", [4], S(1, 3, None), [0]],
    ["da_write_src", [4], S(1, 3, None), [3]], ["da_write_src", [4], S(1, 3, None), [1, 1, 2]],
    ["da_write_src", [4], S(2, 2, None), [0, 0]], ["da_write_src", [2, 3], [S(None, None, None), 0], [0, 2]],
    ["da_write_src", [2, 3], [S(None, None, None), 0], [1]], ["da_write_src", [2, 3], [], [3]],
    ["da_write_src", [2, 3], [], [2, 1]], ["da_write_src", [2, 3], [], [2]], ["da_write_src", [2, 3], [], [2, 2, 3]],
    ["view_write_src", [4], [1], [2], S(None, None, None), [0, 2]], ["view_write_src", [4], [1], [2], None, [0, 2]],
    ["view_write_src", [3, 4], [1, 1], [2, 2], [S(None, None, None), 0], [0, 2]],
    ["view_write_src", [3, 4], [1, 1], [2, 2], "...", [2, 1]], ["view_write_src", [3, 4], [1, 1], [2, 2], [], [3, 2]],
]


def gen_cases(ctx):
    rng = ctx.rng
    cases = []
    dist = {}

    def add(kind, c):
        cases.append(c)
        dist[kind] = dist.get(kind, 0) + 1

    for c in FIXED_CASES:
        add("fixed", c)
    # CPython stand-ins
    for _ in range(ctx.budget(1500, 20000)):
        n = rng.randint(0, 7)

        def b():
            return None if rng.random() < 0.25 else rng.randint(-(n + 3), n + 3)
        add("py.indices", ["indices", [b(), b(), rng.choice([None, 1, 2, 3, -1, -2, -3, 0, n + 1, -(n + 1)])], n])
        add("py.range", ["range", rng.randint(-9, 9), rng.randint(-9, 9), rng.choice([1, 2, 3, -1, -2, -3, 5, -5])])
    # NumPy stand-in and DataArray paths
    for _ in range(ctx.budget(2500, 40000)):
        shape = gen_shape(rng)
        mal = 0.25 if rng.random() < 0.2 else 0.0
        ix = gen_ix(rng, shape, mal)
        add("np", ["np", shape, ix])
        add("da_read" + (".malformed" if mal else ""), ["da_read", shape, ix])
        if rng.random() < 0.6:
            add("da_write" + (".malformed" if mal else ""), ["da_write", shape, ix])
    # views
    for _ in range(ctx.budget(4500, 60000)):
        shape = gen_shape(rng)
        pos, ext = gen_window(rng, shape)
        r = rng.random()
        if r < 0.04:
            # rank mismatch / missing extents
            which = rng.choice(["pos", "ext", "none", "empty"])
            if which == "pos":
                pos = pos[:-1] if rng.random() < 0.5 else pos + [0]
            elif which == "ext":
                ext = ext[:-1] if rng.random() < 0.5 else ext + [1]
            elif which == "none":
                ext = None
            else:
                ext = []
            add("view.malformed", ["view", shape, pos, ext])
            continue
        inside = all(0 <= p and e >= 0 and p + e <= n for p, e, n in zip(pos, ext, shape))
        add("view.inside" if inside else "view.outside", ["view", shape, pos, ext])
        vshape = [max(e, 0) for e in ext]
        mal = 0.25 if rng.random() < 0.15 else 0.0
        for _k in range(2):
            ix = gen_ix(rng, vshape, mal) if rng.random() < 0.97 else None
            tag = (".inside" if inside else ".outside") + (".malformed" if mal else "")
            if rng.random() < 0.6:
                add("view_read" + tag, ["view_read", shape, pos, ext, ix])
            else:
                add("view_write" + tag, ["view_write", shape, pos, ext, ix])
    # direct DataView construction with None entries (what tags hand over)
    for _ in range(ctx.budget(200, 2000)):
        shape = gen_shape(rng, 3)
        pos, ext = gen_window(rng, shape, 0.6)
        sl = [[p, p + e] for p, e in zip(pos, ext)]
        r = rng.random()
        if r < 0.15:
            sl[rng.randrange(len(sl))] = None
        elif r < 0.2:
            sl = None
        elif r < 0.25:
            sl = sl[:-1]
        add("mkview", ["mkview", shape, sl])
    # get_slice in DATA mode: positions in dimension units (C07's index_of) -> window -> view
    for shape, dims, pos, ext in gen_data_cases(rng, ctx.budget(1200, 20000)):
        kinds = "+".join(sorted(set(d[0] for d in dims))) or "none"
        add("view_data." + kinds, ["view_data", shape, dims, pos, ext])
        if ext is not None and rng.random() < 0.6:
            vs = [3] * len(shape)
            ix = gen_ix(rng, vs) if rng.random() < 0.9 else None
            add("view_data_read", ["view_data_read", shape, dims, pos, ext, ix])
    if not ctx.quick():
        for c in exhaustive_cases(4):
            add("exhaustive." + c[0], c)
    else:
        for c in exhaustive_cases(2, rank2=True, reduced=True):
            add("exhaustive-small." + c[0], c)
    return cases, dist


def nontrivial(case, out):
    if "err" in out:
        return True
    v = out.get("ok")
    op = case[0]
    if op in ("indices", "range"):
        return True
    if op in ("view", "mkview"):
        return True
    if isinstance(v, dict) and "idx" in v:
        return len(v["idx"]) != prod(case[1])       # anything but "the whole array"
    return True


def _run_all(ctx, cases, tag):
    env = Env(ctx, tag)
    try:
        return [run_impl(env, c) for c in cases]
    finally:
        env.close()


def correspondence(ctx):
    cases, dist = gen_cases(ctx)
    cases = core.load_corpus(PROP) + cases
    # distinct cases only (the exhaustive part overlaps the random part)
    seen_c = set()
    uniq = []
    for c in cases:
        k = core.canon(c)
        if k not in seen_c:
            seen_c.add(k)
            uniq.append(c)
    cases = uniq
    model = core.run_driver(PROP, cases)
    impl = _run_all(ctx, cases, "corr")
    disagreements = []
    seen = set()
    errs = {}
    ranks = {}
    for c, m, i in zip(cases, model, impl):
        if m != i:
            disagreements.append(Disagreement(c, m, i))
        if "err" in i:
            errs[i["err"]] = errs.get(i["err"], 0) + 1
        if c[0] not in ("indices", "range"):
            r = len(c[1])
            ranks[r] = ranks.get(r, 0) + 1
        if nontrivial(c, i):
            seen.add(core.canon(c))
    disagreements.sort(key=lambda d: len(core.canon(d.case)))
    samples = [{"case": cases[k], "model": model[k]} for k in
               sorted(ctx.rng.sample(range(len(cases)), min(6, len(cases))))]
    return {"evaluations": len(cases), "distinct_nontrivial": len(seen),
            "rule": "fixed regression cases; slice.indices / range vs CPython; npSelect vs numpy on arange arrays; "
                    "DataArray read/write, get_slice windows (75% inside, 25% around the borders incl. negative "
                    "start/extent, rank mismatch, missing extents), reads/writes through views with ints, slices "
                    "(bounds in [-(n+2), n+2] or None, steps None/1/2/3/n+1/n+3), one ellipsis at any position, "
                    "unwrapped single components, surplus indices, a malformed stream (steps 0/-1/-2, two ellipses); "
                    "integer components divisible by 3 are handed over as numpy integers; "
                    "get_slice in DATA mode on arrays with sampled / range / set descriptors (scenes of 8 requests: 70% "
                    "inside, on samples or a quarter sample off; before/after all samples, negative extents, fewer or "
                    "more descriptors than dimensions, missing/short extents), view and reads through it; "
                    "ranks 1-4, extents 0-9. quick adds the exhaustive enumeration for extents <= 2 (rank 1 complete, "
                    "rank 2 reduced); thorough enumerates all windows x all components for rank 1, extents <= 4, and "
                    "all in-range windows x reduced component pairs for rank 2. Reads return the parent offsets "
                    "(arrays hold their own C-order offsets); writes assign WBASE+k and the changed offsets are read "
                    "back with h5py. non-trivial = error, view construction, or a selection other than the whole array",
            "samples": samples, "distribution": {"ops": dist, "impl_errors": errs, "ranks": ranks},
            "disagreements": disagreements, "exhaustive": not ctx.quick()}


# ---------------------------------------------------------------------------------------
# property oracle on the implementation: NumPy on an in-memory copy (independent of the model)


def in_scope_ix(ix):
    """ints, slices of positive step, at most one ellipsis"""
    if ix is None:
        return True
    comps = ix_components(ix)
    if sum(1 for c in comps if c == "...") > 1:
        return False
    for c in comps:
        if isinstance(c, dict):
            k = c["s"][2]
            if k is not None and k < 1:
                return False
        elif c != "..." and (isinstance(c, bool) or not isinstance(c, int)):
            return False
    return True


def surplus(ix, rank):
    if ix is None:
        return False
    return sum(1 for c in ix_components(ix) if c != "...") > rank


def ovalue(i):
    return 3 * i + 7


def check_case(env, case):
    """returns a Failure if the implementation violates C06 on this case, else None.
    case: [op, shape, (positions, extents,) ix] with op in da_read/da_write/view/view_read/view_write"""
    report = case
    forced = None
    if case[0] in ("da_write_src", "view_write_src"):
        # an assignment with a source of the given shape: [..., ix, source shape]
        forced = tuple(case[-1])
        case = [case[0][:-4]] + case[1:-1]
    op = case[0]
    if op not in ("da_read", "da_write", "view", "view_read", "view_write", "view_data", "view_data_read"):
        return None
    shape = case[1]
    rank = len(shape)
    if rank == 0:
        return None
    base = Env.base(shape)
    site = SITE_ARRAY if op.startswith("da_") else SITE_VIEW
    has_win = op.startswith("view")
    ix = case[4] if op in ("view_read", "view_write") else (case[2] if op.startswith("da_") else None)
    if op == "view_data_read":
        ix = case[5]
    da = env.array(shape)

    if op.startswith("view_data"):
        # a view requested in dimension units: whatever window nixio derives, the view must be a window inside the
        # array that reads like NumPy on that window, or be refused / invalid and empty
        dims, pos, ext = case[2], case[3], case[4]
        if ext is None or len(pos) != rank or len(ext) != rank:
            return None
        dda = env.dim_array(shape, dims)
        try:
            v = dda.get_slice([float(rat(x)) for x in pos], [float(rat(x)) for x in ext], env.nix.DataSliceMode.Data)
        except Exception:
            return None          # refused: fine
        if not v.valid:
            got = np.asarray(v[:])
            if got.size:
                return Failure("an invalid view (DATA mode) yields elements", report,
                               [int(x) for x in got.ravel()[:12]], "invalid and empty", "DataView._read_data")
            return None
        wins = [(int(sl.start), int(sl.stop)) for sl in v._slices]
        if len(wins) != rank or any(not (0 <= a <= b <= n) for (a, b), n in zip(wins, shape)):
            return Failure("a view requested in DATA mode is marked valid although its window is not inside the array",
                           case, {"window": wins, "shape": shape}, "refused, or invalid and empty",
                           "DataArray._get_slice_bydim / DataView.__init__")
        win = tuple(slice(a, b) for a, b in wins)
        if list(v.shape) != [b - a for a, b in wins]:
            return Failure("view has the wrong shape", report, list(v.shape), [b - a for a, b in wins],
                           "DataView.data_extent")
        target = v
        if op == "view_data":
            got = np.asarray(v[:])
            want = base[win]
            if got.shape != want.shape or not np.array_equal(got, want):
                return Failure("view[:] (DATA mode) is not the window of the array", report,
                               got.ravel()[:20].tolist(), want.ravel()[:20].tolist(), SITE_VIEW)
            return None
    elif has_win:
        pos, ext = case[2], case[3]
        if ext is None or len(pos) != rank or len(ext) != rank:
            return None          # the property does not speak about malformed requests
        inside = all(0 <= p and e >= 0 and p + e <= n for p, e, n in zip(pos, ext, shape))
        try:
            v = da.get_slice(pos, ext)
        except Exception as e:
            if inside:
                return Failure("a window inside the array was refused", report, err_name(e),
                               "a valid view of shape %s" % list(ext), "DataArray.get_slice")
            return None          # refused: fine
        if not inside:
            # must be invalid and empty (or at least yield nothing): never other elements
            try:
                got = np.asarray(v[:])
                n = got.size
            except Exception as e:
                if v.valid:
                    return Failure("a window outside the array gave a view marked valid whose read fails", report,
                                   {"valid": True, "shape": repr(v.shape), "read": err_name(e)},
                                   "refused, or invalid and empty", "DataView.__init__")
                n = 0
            if n != 0:
                return Failure("a window outside the array yields elements", report,
                               {"valid": bool(v.valid), "elements": [int(x) for x in got.ravel()[:12]]},
                               "refused, or invalid and empty", "DataView.__init__")
            if v.valid and any(x < 0 for x in v.shape):
                return Failure("a window outside the array gave a valid view with a negative shape", report,
                               {"valid": True, "shape": list(v.shape)}, "refused, or invalid and empty",
                               "DataView.__init__")
            if op == "view_read" and in_scope_ix(ix) and ix is not None:
                try:
                    got = np.asarray(v[py_ix(ix)])
                    if got.size:
                        return Failure("indexing a view requested outside the array yields elements", report,
                                       [int(x) for x in got.ravel()[:12]], "refused, or empty", SITE_VIEW)
                except Exception:
                    pass
            if op == "view_write" and in_scope_ix(ix):
                env.mark(shape)
                try:
                    if ix is None:
                        v.write_direct(WBASE)
                    else:
                        v[py_ix(ix)] = WBASE
                except Exception:
                    pass
                if not np.array_equal(env.raw(shape), base):
                    return Failure("assigning through a view requested outside the array changed the array", report,
                                   [int(x) for x in np.nonzero(env.raw(shape).ravel() != base.ravel())[0][:12]],
                                   "no element changes", SITE_VIEW)
            return None
        if not v.valid:
            return Failure("a window inside the array gave an invalid view", report, v.debug_message[:200] if
                           isinstance(v.debug_message, str) else str(v.debug_message)[:200],
                           "a valid view of shape %s" % list(ext), "DataView.__init__")
        if list(v.shape) != list(ext):
            return Failure("view has the wrong shape", report, list(v.shape), list(ext), "DataView.data_extent")
        win = tuple(slice(p, p + e) for p, e in zip(pos, ext))
        target = v
        if op == "view":
            got = np.asarray(v[:])
            want = base[win]
            if got.shape != want.shape or not np.array_equal(got, want):
                return Failure("view[:] is not the window of the array", report, got.ravel()[:20].tolist(),
                               want.ravel()[:20].tolist(), SITE_VIEW)
            return None
    else:
        win = tuple(slice(None) for _ in shape)
        target = da

    if not in_scope_ix(ix):
        return None
    ixp = None if ix is None else py_ix(ix)
    too_many = surplus(ix, rank)

    def np_apply(a):
        w = a[win]
        return w if ixp is None else w[ixp]

    if op.endswith("_read"):
        try:
            want = np.asarray(np_apply(base))
            want_err = None
        except IndexError as e:
            want, want_err = None, e
        try:
            if ixp is None:
                got = np.asarray(target._read_data())
            else:
                got = np.asarray(target[ixp])
            got_err = None
        except Exception as e:
            got, got_err = None, e
        expr = "%s[%s]" % ("view" if has_win else "array", show_ix(ix))
        if want_err is not None:
            if got_err is None:
                return Failure("%s: NumPy refuses (%s) but data came back" % (expr, want_err), report,
                               {"shape": list(got.shape), "values": got.ravel()[:12].tolist()},
                               "IndexError / OutOfBounds", site)
            if not too_many and not isinstance(got_err, IndexError):
                return Failure("%s: out-of-range integer refused with the wrong kind of error" % expr, report,
                               err_name(got_err), "IndexError / OutOfBounds", site)
            return None
        if got_err is not None:
            return Failure("%s: refused although NumPy returns data" % expr, report,
                           "%s: %s" % (err_name(got_err), str(got_err)[:120]),
                           {"shape": list(want.shape), "values": want.ravel()[:12].tolist()}, site)
        wshape = want.shape if want.shape != () else (1,)
        if tuple(got.shape) != tuple(wshape) or not np.array_equal(got.ravel(), want.ravel()):
            return Failure("%s differs from NumPy on an in-memory copy" % expr, report,
                           {"shape": list(got.shape), "values": got.ravel()[:20].tolist()},
                           {"shape": list(wshape), "values": want.ravel()[:20].tolist()}, site)
        return None

    # writes: scalar, exactly-shaped, broadcast and wrongly shaped sources
    copy0 = base.copy()
    try:
        sel = np.asarray(np_apply(copy0))
        want_err = None
    except IndexError as e:
        sel, want_err = None, e
    variants = [("scalar", None)]
    if sel is not None and sel.shape != ():
        variants.append(("array", tuple(sel.shape)))
        variants += source_shapes(case, tuple(sel.shape))
    if forced is not None:
        variants = [("source", forced)] if sel is not None and sel.shape != () else []
    for variant, vshape in variants:
        copy = base.copy()
        if vshape is None or sel is None:
            val = WBASE
        else:
            val = (WBASE + np.arange(prod(vshape), dtype=np.int64)).reshape(vshape)
        shape_err = None
        if want_err is None:
            w = copy[win]
            try:
                if ixp is None:
                    w[...] = val
                else:
                    w[ixp] = val
            except ValueError as e:        # NumPy: the source cannot be broadcast to the selection
                shape_err = e
                copy = base.copy()
        da = env.array(shape)       # resets the content if a previous write dirtied it
        target = da.get_slice(case[2], case[3]) if has_win else da
        env.mark(shape)
        try:
            if ixp is None:
                target.write_direct(val)
            else:
                target[ixp] = val
            got_err = None
        except Exception as e:
            got_err = e
        after = env.raw(shape)
        expr = "%s[%s] = <%s%s>" % ("view" if has_win else "array", show_ix(ix), variant,
                                    "" if vshape is None else " of shape %s" % (list(vshape),))
        if want_err is not None:
            if got_err is None or not np.array_equal(after, base):
                return Failure("%s: NumPy refuses (%s) but the assignment %s" % (
                    expr, want_err, "went through" if got_err is None else "changed the array before failing"), report,
                    {"changed": np.nonzero(after.ravel() != base.ravel())[0][:12].tolist()},
                    "refused, nothing changes", site)
            if not too_many and not isinstance(got_err, IndexError):
                return Failure("%s: out-of-range integer refused with the wrong kind of error" % expr, report,
                               err_name(got_err), "IndexError / OutOfBounds", site)
            continue
        if shape_err is not None:
            # a source NumPy cannot broadcast to the selection: refused, or at least nothing may change
            # (h5py skips an empty selection without looking at the source; the array is the same either way)
            if not np.array_equal(after, base):
                diff = np.nonzero(after.ravel() != base.ravel())[0]
                return Failure("%s: NumPy refuses the source (%s) but the array was changed" % (
                    expr, str(shape_err)[:80]), report,
                    {"offsets": diff[:12].tolist(), "have": after.ravel()[diff[:12]].tolist(),
                     "error": None if got_err is None else err_name(got_err)},
                    "refused, nothing changes", site)
            continue
        if got_err is not None:
            return Failure("%s: refused although NumPy performs it" % expr, report,
                           "%s: %s" % (err_name(got_err), str(got_err)[:120]), "assignment", site)
        if not np.array_equal(after, copy):
            diff = np.nonzero(after.ravel() != copy.ravel())[0]
            return Failure("%s: the array afterwards differs from NumPy's result (elements not addressed were "
                           "changed, or addressed ones were not)" % expr, report,
                           {"offsets": diff[:12].tolist(), "have": after.ravel()[diff[:12]].tolist()},
                           {"offsets": diff[:12].tolist(), "want": copy.ravel()[diff[:12]].tolist()}, site)
    return None


def source_shapes(case, sel):
    """two further source shapes for an assignment to a selection of shape `sel` (rank >= 1), chosen by a generator
    seeded from the case itself (replays are reproducible): sources NumPy broadcasts (leading 1s, a 1 for an axis,
    trailing axes only) and sources it refuses (an axis off by one, an extra leading axis, an empty source)"""
    import random
    import zlib
    rng = random.Random(zlib.crc32(core.canon(case).encode()))
    cands = [("ones-prefix", (1,) * rng.randint(1, 2) + sel)]
    big = [i for i, n in enumerate(sel) if n != 1]
    if big:
        i = rng.choice(big)
        cands.append(("one-for-an-axis", sel[:i] + (1,) + sel[i + 1:]))
        cands.append(("axis-off-by-one", sel[:i] + (sel[i] + (rng.choice([1, -1]) if sel[i] else 1),) + sel[i + 1:]))
    if len(sel) > 1:
        cands.append(("trailing-axes", sel[rng.randint(1, len(sel) - 1):]))
    cands.append(("extra-leading-axis", (rng.randint(2, 3),) + sel))
    cands.append(("empty", rng.choice([(0,), sel[:-1] + (0,), (0,) + sel])))
    cands.append(("all-ones", (1,) * len(sel)))
    rng.shuffle(cands)
    return cands[:2]


def oracle_cases(ctx, full):
    rng = ctx.rng
    cases = [c for c in FIXED_CASES if c[0] not in ("mkview",)] + ORACLE_FIXED
    # boundary enumeration the property names: rank 1, every window x every component
    for c in (exhaustive_cases(3, rank2=True, reduced=True) if full else exhaustive_cases(2, rank2=False)):
        if c[0] != "np":
            cases.append(c)
    n_rand = 30000 if full else 5000
    for _ in range(n_rand):
        shape = gen_shape(rng)
        if rng.random() < 0.3:
            ix = gen_ix(rng, shape)
            cases.append([rng.choice(["da_read", "da_write"]), shape, ix])
        else:
            pos, ext = gen_window(rng, shape, 0.8)
            vshape = [max(e, 0) for e in ext]
            r = rng.random()
            if r < 0.1:
                cases.append(["view", shape, pos, ext])
            else:
                ix = gen_ix(rng, vshape) if rng.random() < 0.97 else None
                cases.append(["view_read" if r < 0.6 else "view_write", shape, pos, ext, ix])
    for shape, dims, pos, ext in gen_data_cases(rng, 6000 if full else 600):
        if rng.random() < 0.4:
            cases.append(["view_data", shape, dims, pos, ext])
        else:
            cases.append(["view_data_read", shape, dims, pos, ext, gen_ix(rng, [3] * len(shape))])
    return cases


def oracle(ctx, broken, hints):
    full = broken or not ctx.quick()
    cases = [h for h in hints[:500] if isinstance(h, list)] + oracle_cases(ctx, full)
    env = Env(ctx, "oracle")
    failures = []
    seen = set()
    n = 0
    try:
        for c in cases:
            k = core.canon(c)
            if k in seen:
                continue
            seen.add(k)
            n += 1
            try:
                f = check_case(env, c)
            except Exception as e:         # a harness problem must not look like a property failure
                raise core.InfraError("C06 oracle crashed on %s: %s: %s" % (core.canon(c), type(e).__name__, e))
            if f is not None:
                failures.append(f)
                if len(failures) >= 200:
                    break
    finally:
        env.close()
    failures.sort(key=lambda f: (len(core.canon(f.input)), core.canon(f.input)))
    return {"evaluations": n, "failures": failures, "full": bool(full)}


def matches_known(entry, failure):
    return False


def replay_failure(ctx, fj):
    env = Env(ctx, "replay")
    try:
        return check_case(env, fj["input"])
    finally:
        env.close()


READY = True
MANIFEST = {
    "level_text": "The bodies of DataView.__init__, _expand_user_slices, _transform_coordinates, _read_data/_write_data, "
                  "DataArray._read_data (single-value rule) and get_slice are compiled from the Python AST into Lean on "
                  "every run and proved equal, for all inputs, to the model the theorems are about (an edited comparison, "
                  "sign, test order, guard or exception class breaks a named theorem). "
                  "Kernel-checked theorems over a Lean model of data_view.py and the DataArray index paths: a view is "
                  "valid exactly when every window lies inside the array (0 <= start <= stop <= extent) and then "
                  "reads the window; for every valid view and every index tuple of ints, positive-step slices and "
                  "at most one ellipsis the transformed tuple selects, in the parent, exactly NumPy's selection on "
                  "the window shifted by the window start, and it is refused (OutOfBounds/IndexError) exactly when "
                  "NumPy refuses; assignment addresses exactly those elements. Proved per axis from slice.indices "
                  "lemmas and lifted over tuples of any length by induction. get_slice in DATA mode is modelled over "
                  "C07's index_of: the view is the index-mode view on [first sample >= pos, last sample <= pos+ext) per "
                  "dimension (full strength for range dimensions, under C07's Separated hypothesis for sampled ones), "
                  "invalid and empty when an extent is negative. The model is tied to the code by "
                  "differential runs on real HDF5 files (exhaustive for small shapes in the thorough tier) and the "
                  "property is checked on the implementation against NumPy on an in-memory copy.",
    "level_note": "Trusted: Lean kernel; the Python-subset compiler harness/extract/viewshape.py and the interpreters of "
                  "Pure/ViewGen.lean; the hand-written model where it is not covered by generated code (H5DataSet.read_data "
                  "error mapping, _get_slice_bydim whose statement shape only is tied); "
                  "stand-ins for CPython slice.indices, NumPy basic indexing and h5py region selection (each compared "
                  "with the real library every run). Content, broadcasting of assigned values and dtype conversion are "
                  "runtime (C01; the oracle compares them with NumPy).",
    "technique": "Lean 4 proof (per-axis slice arithmetic + induction over the index tuple; composition with C07's "
                 "order-theoretic index_of theorems) over a model proved equal to Lean code compiled from the Python "
                 "source, with differential correspondence and a NumPy oracle",
}
