"""C12 — argument-spelling sweep: every value-taking public mutator x every spelling of an argument.

The catalogue of c12.py names one or two invalid arguments per call.  Whether a refusal comes before the first HDF5
write depends on the *spelling* of the offending argument as well (a list is converted by NumPy before anything is
written, an ndarray may be handed on to h5py, which refuses it after the dataset was resized; a generator is
exhausted by the first pass; a 0-d array has no len() ...).  This module therefore runs the product

        TARGETS  (every public setter / writing method / creating call that takes a value)
      x SPELLINGS (lists, tuples, ndarrays of every dtype kind and of several lengths and ranks, 0-d arrays,
                   scalars, None, generators, ranges, dicts, sets, entities of the right and the wrong kind / block)
      x 2 states  (the stored vectors / tables short or long, so that the offered value differs in length from the
                   stored one in at least one of them and a premature resize is visible)

on the real nixio.  Nothing is said about which calls must be refused: a call that is accepted is followed by the
target's `reset` (a valid call that restores the stored value) and the sweep goes on; a call that raises - whatever
the exception class - must leave the strict HDF5 snapshot and the API walk as they were.  No expected error classes,
no expected values: the only statement is the property's.
"""
import numpy as np
import nixio

from . import c12_respell as RS

# ---------------------------------------------------------------------------------------------------
# spellings: (label, factory(c) -> value).  Factories build a fresh object per call (generators!).


class _Opaque:
    """an object nothing can be made of"""
    pass


class _Lying:
    """claims a length, yields fewer values"""

    def __len__(self):
        return 3

    def __getitem__(self, i):
        if i > 1:
            raise IndexError(i)
        return float(i)


def _spellings():
    S = []

    def add(label, fn):
        S.append((label, fn))
    elems = {
        "float": lambda n: [float(i) + 0.5 for i in range(n)],
        "int": lambda n: [i + 1 for i in range(n)],
        "desc": lambda n: [float(n - i) for i in range(n)],
        "str": lambda n: ["s%d" % i for i in range(n)],
        "numstr": lambda n: ["%d.5" % i for i in range(n)],
        "bytes": lambda n: [b"b%d" % i for i in range(n)],
        "bool": lambda n: [bool(i % 2) for i in range(n)],
        "complex": lambda n: [complex(i, 1) for i in range(n)],
        "none": lambda n: [None] * n,
        "nan": lambda n: [float("nan")] * n,
        "obj": lambda n: [_Opaque() for _ in range(n)],
        "mixed-str": lambda n: [float(i) for i in range(n - 1)] + ["x"],
        "nul-str": lambda n: ["s%d" % i for i in range(n - 1)] + ["a\x00b"],
        "surrogate-str": lambda n: ["s%d" % i for i in range(n - 1)] + ["a\udc80b"],
        "units": lambda n: ["mV", "s", "Hz", "kg", "uA"][:n],
        "mixed-none": lambda n: [float(i) for i in range(n - 1)] + [None],
        "mixed-obj": lambda n: [float(i) for i in range(n - 1)] + [_Opaque()],
        "huge-int": lambda n: [2 ** 70 + i for i in range(n)],
        "neg-int": lambda n: [-(i + 1) for i in range(n)],
        "nested": lambda n: [[float(i), float(i) + 1] for i in range(n)],
        "ragged": lambda n: [[1.0] * (i % 2 + 1) for i in range(n)],
    }
    lens = (1, 2, 3, 5)
    for kind, mk in sorted(elems.items()):
        for n in lens:
            if kind.startswith(("mixed", "nul", "surrogate")) and n == 1:
                continue
            add("list:%s:%d" % (kind, n), lambda c, mk=mk, n=n: mk(n))
        add("tuple:%s:3" % kind, lambda c, mk=mk: tuple(mk(3)))
        add("gen:%s:3" % kind, lambda c, mk=mk: (x for x in mk(3)))
    add("list:empty", lambda c: [])
    add("tuple:empty", lambda c: ())
    # ndarrays of every dtype kind, several lengths / ranks
    arrs = {
        "f8": lambda n: np.arange(n, dtype=np.float64) + 0.5,
        "f2": lambda n: np.arange(n, dtype=np.float16),
        "i8": lambda n: np.arange(n, dtype=np.int64) + 1,
        "i1": lambda n: np.arange(n, dtype=np.int8),
        "u8-big": lambda n: np.full((n,), 2 ** 64 - 1, dtype=np.uint64),
        "b": lambda n: np.arange(n) % 2 == 0,
        "c16": lambda n: np.arange(n) + 1j,
        "U": lambda n: np.array(["s%d" % i for i in range(n)]),
        "U-num": lambda n: np.array(["%d.5" % i for i in range(n)]),
        "S": lambda n: np.array([b"b%d" % i for i in range(n)]),
        "O-str": lambda n: np.array(["s%d" % i for i in range(n)], dtype=object),
        "O-none": lambda n: np.array([None] * n, dtype=object),
        "O-obj": lambda n: np.array([_Opaque() for _ in range(n)], dtype=object),
        "O-mixed": lambda n: np.array([1.0, "k", None, 2.0, _Opaque()][:n], dtype=object),
        "O-float": lambda n: np.array([float(i) for i in range(n)], dtype=object),
        "O-nul": lambda n: np.array((["s%d" % i for i in range(n)] + ["a\x00b"])[-n:] if n else [], dtype=object),
        "M8": lambda n: np.arange(n).astype("datetime64[s]"),
        "m8": lambda n: np.arange(n).astype("timedelta64[s]"),
        "V": lambda n: np.zeros((n,), dtype=[("a", "i4"), ("b", "f8")]),
        "V-str": lambda n: np.zeros((n,), dtype=[("a", "i8"), ("s", "S3")]),
    }
    for kind, mk in sorted(arrs.items()):
        for n in lens:
            add("ndarray:%s:%d" % (kind, n), lambda c, mk=mk, n=n: mk(n))
        add("ndarray:%s:0" % kind, lambda c, mk=mk: mk(0))
        add("ndarray:%s:2x2" % kind, lambda c, mk=mk: mk(4).reshape(2, 2))
        add("ndarray:%s:1x3" % kind, lambda c, mk=mk: mk(3).reshape(1, 3))
        add("ndarray:%s:0-d" % kind, lambda c, mk=mk: mk(1).reshape(()))
        add("ndarray:%s:strided" % kind, lambda c, mk=mk: mk(6)[::2])
    # scalars and other objects
    for label, v in [("nul-str", "a\x00b"), ("surrogate-str", "a\udc80b"), ("unit-str", "mV"), ("int", 5), ("zero", 0), ("float", 1.5), ("str", "abc"), ("numstr", "1.5"), ("empty-str", ""),
                     ("bytes", b"xy"), ("true", True), ("false", False), ("complex", 1 + 2j), ("none", None),
                     ("nan", float("nan")), ("inf", float("inf")), ("neg", -3), ("huge", 2 ** 70),
                     ("np-float", np.float64(2.5)), ("np-int", np.int32(4)), ("np-str", np.str_("q")),
                     ("np-bool", np.bool_(True)), ("np-datetime", np.datetime64("2020-01-01")),
                     ("ellipsis", Ellipsis), ("slice", slice(0, 2)), ("type", float), ("dtype", np.dtype("f8")),
                     ("nix-dtype-str", nixio.DataType.String), ("nix-dtype-double", nixio.DataType.Double)]:
        add("scalar:" + label, lambda c, v=v: v)
    add("scalar:object", lambda c: _Opaque())
    add("range:3", lambda c: range(3))
    add("range:0", lambda c: range(0))
    add("dict", lambda c: {"a": 1.0, "b": 2.0})
    add("dict:int-keys", lambda c: {0: 1.0, 1: 2.0, 2: 3.0})
    add("set", lambda c: {1.0, 2.0, 3.0})
    add("iter:list", lambda c: iter([1.0, 2.0, 3.0]))
    add("lying-sequence", lambda c: _Lying())
    add("memoryview", lambda c: memoryview(b"abc"))
    add("bytearray", lambda c: bytearray(b"abc"))
    # entities: the right kind, a foreign block's, the wrong kind
    for key in ("da", "d1", "ds", "da2", "df", "t", "mt", "g", "b", "b2", "src", "fsrc", "s", "s2", "pr", "ft", "rd",
                "f", "dx"):
        add("entity:" + key, lambda c, key=key: c[key])
    # objects of the right class that can never be linked: of the other block, of ANOTHER FILE, deleted again
    for key in ("xf", "dy", "mte", "sk", "ofd", "off", "oft", "ofsrc", "ofs", "ofs2", "ofb", "of", "dead_da", "dead_df", "dead_s"):
        add("entity:" + key, lambda c, key=key: c[key])
    for key in ("da2", "d1", "s", "s2", "ofs", "dead_s", "df", "xf"):
        add("id-of:" + key, lambda c, key=key: c[key].id)
    add("id:unknown", lambda c: "4a6b1e0c-7d11-4c58-9f0e-3b5a2c1d0e9f")
    add("list:entities:own+foreign", lambda c: [c["d1"], c["da2"]])
    add("list:entities:own+kind", lambda c: [c["d1"], c["t"]])
    add("list:entities:own+str", lambda c: [c["ds"], "nope"])
    add("list:entities:src+foreign", lambda c: [c["src"], c["fsrc"]])
    add("tuple:entities:own+none", lambda c: (c["d1"], None))
    add("gen:entities:own+foreign", lambda c: (x for x in [c["ds"], c["da2"]]))
    # rows / tables for the data frame
    add("rows:ok", lambda c: [(7, "w")])
    add("rows:bad-type", lambda c: [(7, "w"), ("x", "y")])
    add("rows:short", lambda c: [(7, "w"), (8,)])
    add("rows:long", lambda c: [(7, "w", 3.0)])
    add("rows:obj", lambda c: [(7, "w"), (_Opaque(), "z")])
    add("rows:none", lambda c: [(7, "w"), (None, None)])
    add("coldict:bad-type", lambda c: {"a": "nonsense"})
    add("coldict:obj", lambda c: {"a": _Opaque()})
    add("coldict:int-key", lambda c: {1: int})
    return S


# ---------------------------------------------------------------------------------------------------
# targets: (label, call(c, v), reset(c) | None)


def _setter(key, attr):
    def call(c, v):
        setattr(c[key], attr, v)
    return call


SCENE_ARRAYS = ("da", "d1", "ds", "dx", "dy", "da-extents", "d2")

# setters of role links / link-valued attributes on entities that HAVE a value (label, scene key, attribute, the key
# of the value it has): the previous link must survive every refused assignment
ROLE_SETTERS = [
    ("MultiTag(with extents).extents", "mte", "extents", "dx"),
    ("MultiTag(with extents).positions", "mte", "positions", "d1"),
    ("MultiTag(with metadata).metadata", "mte", "metadata", "s2"),
    ("Feature(array).data", "ft", "data", "da"),
    ("Feature(frame).data", "fte", "data", "df"),
    ("Block(with metadata).metadata", "b", "metadata", "s"),
    ("DataArray(with metadata).metadata", "d1", "metadata", "s2"),
    ("DataFrame(with metadata).metadata", "df", "metadata", "s2"),
    ("Tag(with metadata).metadata", "t", "metadata", "s2"),
    ("Group(with metadata).metadata", "g", "metadata", "s2"),
    ("Source(with metadata).metadata", "src", "metadata", "s2"),
    ("Section(linked).link", "sk", "link", "s2"),
]
ROLE_TARGETS = [r[0] for r in ROLE_SETTERS] + [
    "RangeDimension(linked).link_data_array(array)", "RangeDimension(linked).link_data_frame(frame)",
    "SetDimension(linked).link_data_frame(frame)", "SetDimension(linked).link_data_array(array)"]


def _targets():
    T = []

    def add(label, call, reset=None):
        T.append((label, call, reset))

    def vec(c, short, long_):
        return long_ if c["long"] else short
    # --- vector / scalar attributes stored in datasets or attributes
    add("Tag.position", _setter("t", "position"), lambda c: setattr(c["t"], "position", vec(c, [0.0], [0.0, 1.0, 2.0, 3.0])))
    add("Tag.extent", _setter("t", "extent"), lambda c: setattr(c["t"], "extent", vec(c, [1.0], [1.0, 1.0, 1.0, 1.0])))
    add("Tag.units", _setter("t", "units"), lambda c: setattr(c["t"], "units", vec(c, ["mV"], ["mV", "s", "mV", "s"])))
    add("MultiTag.units", _setter("mt", "units"), lambda c: setattr(c["mt"], "units", vec(c, ["mV"], ["mV", "s", "mV", "s"])))
    add("DataArray.polynom_coefficients", _setter("da", "polynom_coefficients"),
        lambda c: setattr(c["da"], "polynom_coefficients", vec(c, [0.0, 1.0], [0.0, 1.0, 2.0, 3.0])))
    add("DataArray.expansion_origin", _setter("da", "expansion_origin"), lambda c: setattr(c["da"], "expansion_origin", 0.5))
    add("DataArray.unit", _setter("da", "unit"), lambda c: setattr(c["da"], "unit", "mV"))
    add("DataArray.label", _setter("da", "label"), lambda c: setattr(c["da"], "label", "lbl"))
    add("DataArray.data_extent", _setter("da", "data_extent"), lambda c: setattr(c["da"], "data_extent", (2, 2)))
    add("DataArray.dtype", _setter("da", "dtype"))
    add("DataArray.name", _setter("da", "name"))
    add("DataArray.id", _setter("da", "id"))
    for key, cls in (("b", "Block"), ("da", "DataArray"), ("t", "Tag"), ("mt", "MultiTag"), ("g", "Group"),
                     ("src", "Source"), ("s", "Section"), ("df", "DataFrame")):
        add("%s.type" % cls, _setter(key, "type"), lambda c, key=key: setattr(c[key], "type", "t"))
        add("%s.definition" % cls, _setter(key, "definition"), lambda c, key=key: setattr(c[key], "definition", None))
    add("Entity.force_created_at", lambda c, v: c["da"].force_created_at(v), lambda c: c["da"].force_created_at(1600000000))
    add("Entity.force_updated_at", lambda c, v: c["da"].force_updated_at(v), lambda c: c["da"].force_updated_at(1600000000))
    # --- array data
    add("DataArray.write_direct", lambda c, v: c["da"].write_direct(v),
        lambda c: (setattr(c["da"], "data_extent", (2, 2)), c["da"].write_direct(np.array([[1.0, 2.0], [3.0, 4.0]]))))
    add("DataArray[:]=", lambda c, v: c["d1"].__setitem__(slice(None), v),
        lambda c: c["d1"].write_direct(np.arange(len(c["d1"]), dtype=float)))
    add("DataArray[1]=", lambda c, v: c["d1"].__setitem__(1, v),
        lambda c: c["d1"].write_direct(np.arange(len(c["d1"]), dtype=float)))
    add("DataArray[v]=0", lambda c, v: c["d1"].__setitem__(v, 0.0),
        lambda c: c["d1"].write_direct(np.arange(len(c["d1"]), dtype=float)))
    add("DataArray[...]=(2d)", lambda c, v: c["da"].__setitem__(Ellipsis, v),
        lambda c: c["da"].write_direct(np.array([[1.0, 2.0], [3.0, 4.0]])))
    add("DataArray(str)[:]=", lambda c, v: c["ds"].__setitem__(slice(None), v),
        lambda c: c["ds"].write_direct(np.array(["x", "y"], dtype=object)))

    def reset_len(key, n_short, n_long):
        def reset(c):
            n = n_long if c["long"] else n_short
            setattr(c[key], "data_extent", (n,))
            c[key].write_direct(np.arange(n, dtype=float))
        return reset
    add("DataArray.append", lambda c, v: c["d1"].append(v), reset_len("d1", 3, 5))
    add("DataArray.append(axis=v)", lambda c, v: c["d1"].append([1.0], axis=v), reset_len("d1", 3, 5))
    add("DataArray.append(2d,axis=0)", lambda c, v: c["da"].append(v, axis=0),
        lambda c: (setattr(c["da"], "data_extent", (2, 2)), c["da"].write_direct(np.array([[1.0, 2.0], [3.0, 4.0]]))))
    add("DataArray.append(2d,axis=1)", lambda c, v: c["da"].append(v, axis=1),
        lambda c: (setattr(c["da"], "data_extent", (2, 2)), c["da"].write_direct(np.array([[1.0, 2.0], [3.0, 4.0]]))))
    add("DataArray(str).append", lambda c, v: c["ds"].append(v),
        lambda c: (setattr(c["ds"], "data_extent", (2,)), c["ds"].write_direct(np.array(["x", "y"], dtype=object))))
    add("DataView[:]=", lambda c, v: c["d1"].get_slice((0,), (2,)).__setitem__(slice(None), v),
        lambda c: c["d1"].write_direct(np.arange(len(c["d1"]), dtype=float)))
    # --- dimensions
    add("RangeDimension.ticks", _setter("rd", "ticks"), lambda c: setattr(c["rd"], "ticks", vec(c, [1.0, 2.0], [1.0, 2.0, 3.0, 4.0])))
    add("RangeDimension.label", _setter("rd", "label"), lambda c: setattr(c["rd"], "label", None))
    add("RangeDimension.unit", _setter("rd", "unit"), lambda c: setattr(c["rd"], "unit", None))
    add("SetDimension.labels", _setter("sd", "labels"), lambda c: setattr(c["sd"], "labels", vec(c, ["a", "b"], ["a", "b", "c", "d"])))
    add("SetDimension.label", _setter("sd", "label"), lambda c: setattr(c["sd"], "label", None))
    add("SampledDimension.sampling_interval", _setter("sm", "sampling_interval"),
        lambda c: setattr(c["sm"], "sampling_interval", 1.0))
    add("SampledDimension.offset", _setter("sm", "offset"), lambda c: setattr(c["sm"], "offset", None))
    add("SampledDimension.unit", _setter("sm", "unit"), lambda c: setattr(c["sm"], "unit", None))
    add("SampledDimension.label", _setter("sm", "label"), lambda c: setattr(c["sm"], "label", None))

    def drop_dims(key, rebuild):
        def reset(c):
            c[key].delete_dimensions()
            rebuild(c)
        return reset

    def dims_dx(c):
        pass
    add("append_set_dimension(labels)", lambda c, v: c["dx"].append_set_dimension(v), drop_dims("dx", dims_dx))
    add("append_range_dimension(ticks)", lambda c, v: c["dx"].append_range_dimension(v), drop_dims("dx", dims_dx))
    add("append_range_dimension(label)", lambda c, v: c["dx"].append_range_dimension([1.0, 2.0], label=v), drop_dims("dx", dims_dx))
    add("append_range_dimension(unit)", lambda c, v: c["dx"].append_range_dimension([1.0, 2.0], unit=v), drop_dims("dx", dims_dx))
    add("append_sampled_dimension(interval)", lambda c, v: c["dx"].append_sampled_dimension(v), drop_dims("dx", dims_dx))
    add("append_sampled_dimension(offset)", lambda c, v: c["dx"].append_sampled_dimension(1.0, offset=v), drop_dims("dx", dims_dx))
    add("append_sampled_dimension(unit)", lambda c, v: c["dx"].append_sampled_dimension(1.0, unit=v), drop_dims("dx", dims_dx))
    add("append_range_dimension_using_self(index)", lambda c, v: c["dx"].append_range_dimension_using_self(v),
        drop_dims("dx", dims_dx))
    add("RangeDimension.link_data_array(array)", lambda c, v: c["rd"].link_data_array(v, [-1]),
        lambda c: setattr(c["rd"], "ticks", vec(c, [1.0, 2.0], [1.0, 2.0, 3.0, 4.0])))
    add("RangeDimension.link_data_array(index)", lambda c, v: c["rd"].link_data_array(c["d1"], v),
        lambda c: setattr(c["rd"], "ticks", vec(c, [1.0, 2.0], [1.0, 2.0, 3.0, 4.0])))
    add("SetDimension.link_data_frame(frame)", lambda c, v: c["sd"].link_data_frame(v, 1),
        lambda c: (c["sd"].remove_link() if c["sd"].has_link else None,
                   setattr(c["sd"], "labels", vec(c, ["a", "b"], ["a", "b", "c", "d"]))))
    add("SetDimension.link_data_frame(index)", lambda c, v: c["sd"].link_data_frame(c["df"], v),
        lambda c: (c["sd"].remove_link() if c["sd"].has_link else None,
                   setattr(c["sd"], "labels", vec(c, ["a", "b"], ["a", "b", "c", "d"]))))
    # --- properties and sections
    add("Property.values", _setter("pr", "values"), lambda c: setattr(c["pr"], "values", vec(c, [1, 2], [1, 2, 3, 4])))
    add("Property(str).values", _setter("ps", "values"), lambda c: setattr(c["ps"], "values", vec(c, ["a"], ["a", "b", "c"])))
    add("Property(float).values", _setter("pf", "values"), lambda c: setattr(c["pf"], "values", vec(c, [0.5], [0.5, 1.5, 2.5])))
    add("Property.extend_values", lambda c, v: c["pr"].extend_values(v), lambda c: setattr(c["pr"], "values", vec(c, [1, 2], [1, 2, 3, 4])))
    add("Property(str).extend_values", lambda c, v: c["ps"].extend_values(v),
        lambda c: setattr(c["ps"], "values", vec(c, ["a"], ["a", "b", "c"])))
    for a in ("unit", "uncertainty", "definition", "reference", "dependency", "dependency_value", "value_origin",
              "odml_type", "data_type", "name"):
        add("Property." + a, _setter("pr", a), (lambda c, a=a: setattr(c["pr"], a, None)) if a not in ("odml_type", "data_type", "name") else None)
    add("Section[existing]=", lambda c, v: c["s"].__setitem__("p", v), lambda c: setattr(c["pr"], "values", vec(c, [1, 2], [1, 2, 3, 4])))
    add("Section[new]=", lambda c, v: c["s"].__setitem__("sweep-new", v),
        lambda c: c["s"].props.__delitem__("sweep-new") if "sweep-new" in c["s"].props else (
            c["s"].sections.__delitem__("sweep-new") if "sweep-new" in c["s"].sections else None))
    add("Section.create_property(values)", lambda c, v: c["s"].create_property("sweep-new", v),
        lambda c: c["s"].props.__delitem__("sweep-new"))
    add("Section.create_property(dtype)", lambda c, v: c["s"].create_property("sweep-new", nixio.DataType.Int64, v),
        lambda c: c["s"].props.__delitem__("sweep-new"))
    add("Section.create_property(copy_from)", lambda c, v: c["s2"].create_property(copy_from=v),
        lambda c: [c["s2"].props.__delitem__(p.name) for p in list(c["s2"].props)])
    add("Section.reference", _setter("s", "reference"), lambda c: setattr(c["s"], "reference", None))
    add("Section.repository", _setter("s", "repository"), lambda c: setattr(c["s"], "repository", None))
    add("Section.link", _setter("s", "link"), lambda c: setattr(c["s"], "link", None))
    add("Block.metadata", _setter("b", "metadata"), lambda c: setattr(c["b"], "metadata", c["s"]))
    add("DataArray.metadata", _setter("da", "metadata"), lambda c: setattr(c["da"], "metadata", None))
    # --- tags and features
    add("MultiTag.positions", _setter("mt", "positions"), lambda c: setattr(c["mt"], "positions", c["d1"]))
    add("MultiTag.extents", _setter("mt", "extents"), lambda c: setattr(c["mt"], "extents", None))
    for label, key, attr, back in ROLE_SETTERS:
        add(label, _setter(key, attr), lambda c, key=key, attr=attr, back=back: setattr(c[key], attr, c[back]))
    add("RangeDimension(linked).link_data_array(array)", lambda c, v: c["rl"].link_data_array(v, [-1]),
        lambda c: c["rl"].link_data_array(c["d1"], [-1]))
    add("RangeDimension(linked).link_data_frame(frame)", lambda c, v: c["rl"].link_data_frame(v, 0),
        lambda c: c["rl"].link_data_array(c["d1"], [-1]))
    add("SetDimension(linked).link_data_frame(frame)", lambda c, v: c["sl"].link_data_frame(v, 0),
        lambda c: c["sl"].link_data_frame(c["df"], 1))
    add("SetDimension(linked).link_data_array(array)", lambda c, v: c["sl"].link_data_array(v, [-1]),
        lambda c: c["sl"].link_data_frame(c["df"], 1))
    add("Feature.data", _setter("ft", "data"), lambda c: setattr(c["ft"], "data", c["da"]))
    add("Feature.link_type", _setter("ft", "link_type"), lambda c: setattr(c["ft"], "link_type", "tagged"))
    add("Tag.create_feature(data)", lambda c, v: c["t"].create_feature(v, "untagged"),
        lambda c: [c["t"].features.__delitem__(x) for x in list(c["t"].features)[1:]])
    add("Tag.create_feature(link_type)", lambda c, v: c["t"].create_feature(c["d1"], v),
        lambda c: [c["t"].features.__delitem__(x) for x in list(c["t"].features)[1:]])
    add("MultiTag.create_feature(data)", lambda c, v: c["mt"].create_feature(v, "indexed"),
        lambda c: [c["mt"].features.__delitem__(x) for x in list(c["mt"].features)])
    # --- link lists
    for key, cont, cls in (("g", "data_arrays", "Group"), ("g", "tags", "Group"), ("g", "sources", "Group"),
                           ("t", "references", "Tag"), ("mt", "references", "MultiTag"), ("da", "sources", "DataArray"),
                           ("g", "data_frames", "Group"), ("g", "multi_tags", "Group")):
        def relink(c, key=key, cont=cont):
            lst = getattr(c[key], cont)
            keep = {("g", "data_arrays"): ["da"], ("t", "references"): ["da"], ("da", "sources"): ["src2"]}.get((key, cont), [])
            keep_ids = [c[k].id for k in keep]
            for x in list(lst):
                if x.id not in keep_ids:
                    del lst[x.id]
        add("%s.%s.append" % (cls, cont), lambda c, v, key=key, cont=cont: getattr(c[key], cont).append(v), relink)
        add("%s.%s.extend" % (cls, cont), lambda c, v, key=key, cont=cont: getattr(c[key], cont).extend(v), relink)
        add("%s.%s.extend([own, v])" % (cls, cont),
            lambda c, v, key=key, cont=cont: getattr(c[key], cont).extend(
                [c[{"data_arrays": "ds", "references": "ds", "tags": "t", "sources": "src", "data_frames": "df",
                    "multi_tags": "mt"}[cont]], v]), relink)
        add("del %s.%s[v]" % (cls, cont), lambda c, v, key=key, cont=cont: getattr(c[key], cont).__delitem__(v),
            None)
    for cont in ("data_arrays", "tags", "multi_tags", "groups", "sources", "data_frames"):
        add("del Block.%s[v]" % cont, lambda c, v, cont=cont: getattr(c["b"], cont).__delitem__(v), None)
    add("del File.blocks[v]", lambda c, v: c["f"].blocks.__delitem__(v), None)
    add("del File.sections[v]", lambda c, v: c["f"].sections.__delitem__(v), None)
    add("del Section.props[v]", lambda c, v: c["s"].props.__delitem__(v), None)
    add("del Section.sections[v]", lambda c, v: c["s"].sections.__delitem__(v), None)
    add("del Tag.features[v]", lambda c, v: c["t"].features.__delitem__(v), None)
    add("DataArray.delete_dimensions+append(v)", lambda c, v: c["dx"].append_set_dimension(labels=v), drop_dims("dx", dims_dx))
    # --- creating calls: the value argument, the name, the type

    def drop(cont, name="sweep-new", also=()):
        def reset(c):
            lst = getattr(c["b"], cont)
            for nm in (name,) + tuple(also):
                for l2 in (lst, c["b"].data_arrays):
                    if nm in l2:
                        del l2[nm]
        return reset
    add("create_data_array(data)", lambda c, v: c["b"].create_data_array("sweep-new", "t", data=v), drop("data_arrays"))
    add("create_data_array(dtype)", lambda c, v: c["b"].create_data_array("sweep-new", "t", dtype=v, data=[1.0, 2.0]),
        drop("data_arrays"))
    add("create_data_array(dtype,shape)", lambda c, v: c["b"].create_data_array("sweep-new", "t", dtype=v, shape=(2,)),
        drop("data_arrays"))
    add("create_data_array(shape)", lambda c, v: c["b"].create_data_array("sweep-new", "t", shape=v), drop("data_arrays"))
    add("create_data_array(shape,data)", lambda c, v: c["b"].create_data_array("sweep-new", "t", shape=v, data=[1.0, 2.0]),
        drop("data_arrays"))
    add("create_data_array(unit)", lambda c, v: c["b"].create_data_array("sweep-new", "t", data=[1.0], unit=v),
        drop("data_arrays"))
    add("create_data_array(label)", lambda c, v: c["b"].create_data_array("sweep-new", "t", data=[1.0], label=v),
        drop("data_arrays"))
    add("create_data_array(compression)", lambda c, v: c["b"].create_data_array("sweep-new", "t", data=[1.0], compression=v),
        drop("data_arrays"))
    add("create_data_array(copy_from)", lambda c, v: c["b2"].create_data_array(copy_from=v),
        lambda c: [c["b2"].data_arrays.__delitem__(x.name) for x in list(c["b2"].data_arrays) if x.name != "x"])
    add("create_data_array(name)", lambda c, v: c["b"].create_data_array(v, "t", data=[1.0]),
        lambda c: [c["b"].data_arrays.__delitem__(x.name) for x in list(c["b"].data_arrays)
                   if x.name not in SCENE_ARRAYS])
    add("create_data_array(type)", lambda c, v: c["b"].create_data_array("sweep-new", v, data=[1.0]), drop("data_arrays"))
    add("create_tag(position)", lambda c, v: c["b"].create_tag("sweep-new", "t", v), drop("tags"))
    add("create_tag(name)", lambda c, v: c["b"].create_tag(v, "t", [1.0]),
        lambda c: [c["b"].tags.__delitem__(x.name) for x in list(c["b"].tags) if x.name != "tg"])
    add("create_multi_tag(positions)", lambda c, v: c["b"].create_multi_tag("sweep-new", "t", positions=v),
        drop("multi_tags", also=("sweep-new-positions", "sweep-new-extents")))
    add("create_multi_tag(extents)", lambda c, v: c["b"].create_multi_tag("sweep-new", "t", positions=c["d1"], extents=v),
        drop("multi_tags", also=("sweep-new-positions", "sweep-new-extents")))
    add("create_multi_tag(data,extents)", lambda c, v: c["b"].create_multi_tag("sweep-new", "t", positions=[1.0, 2.0], extents=v),
        drop("multi_tags", also=("sweep-new-positions", "sweep-new-extents")))
    add("create_group(name)", lambda c, v: c["b"].create_group(v, "t"),
        lambda c: [c["b"].groups.__delitem__(x.name) for x in list(c["b"].groups) if x.name != "g"])
    add("create_source(type)", lambda c, v: c["b"].create_source("sweep-new", v), drop("sources"))
    add("create_block(name)", lambda c, v: c["f"].create_block(v, "t"),
        lambda c: [c["f"].blocks.__delitem__(x.name) for x in list(c["f"].blocks) if x.name not in ("b", "b2")])
    add("create_section(name)", lambda c, v: c["s"].create_section(v, "t"),
        lambda c: [c["s"].sections.__delitem__(x.name) for x in list(c["s"].sections) if x.name != "sub"])
    add("create_data_frame(col_dict)", lambda c, v: c["b"].create_data_frame("sweep-new", "t", col_dict=v), drop("data_frames"))
    add("create_data_frame(data)", lambda c, v: c["b"].create_data_frame("sweep-new", "t", col_dict={"a": int, "s": str}, data=v),
        drop("data_frames"))
    add("create_data_frame(col_names,col_dtypes)",
        lambda c, v: c["b"].create_data_frame("sweep-new", "t", col_names=["a", "b"], col_dtypes=v), drop("data_frames"))
    add("create_data_frame(copy_from)", lambda c, v: c["b2"].create_data_frame(copy_from=v),
        lambda c: [c["b2"].data_frames.__delitem__(x.name) for x in list(c["b2"].data_frames)])
    # --- data frame writes

    def df_reset(c):
        n = 4 if c["long"] else 2
        rows = [(1, "u"), (2, "v"), (3, "w"), (4, "x")][:n]
        df = c["df"]
        if len(df) != n:
            df.data_extent = (n,)
        df.write_rows(rows, list(range(n)))
    add("DataFrame.append_rows", lambda c, v: c["df"].append_rows(v), df_reset)
    add("DataFrame.write_rows(rows)", lambda c, v: c["df"].write_rows(v, [0]), df_reset)
    add("DataFrame.write_rows(index)", lambda c, v: c["df"].write_rows([(9, "z")], v), df_reset)
    add("DataFrame.write_column(column)", lambda c, v: c["df"].write_column(v, name="a"), df_reset)
    add("DataFrame.write_column(name)", lambda c, v: c["df"].write_column([5] * len(c["df"]), name=v), df_reset)
    add("DataFrame.write_column(index)", lambda c, v: c["df"].write_column([5] * len(c["df"]), index=v), df_reset)
    add("DataFrame.write_cell(cell)", lambda c, v: c["df"].write_cell(v, position=(0, 0)), df_reset)
    add("DataFrame.write_cell(position)", lambda c, v: c["df"].write_cell(5, position=v), df_reset)
    add("DataFrame.units", _setter("df", "units"), lambda c: setattr(c["df"], "units", ["kV", "ms"]))
    add("DataFrame.append_column(column)", lambda c, v: c["df2"].append_column(v, "extra", int),
        None)
    add("DataFrame.append_column(datatype)", lambda c, v: c["df2"].append_column([1] * len(c["df2"]), "extra", v), None)
    add("DataFrame.append_column(name)", lambda c, v: c["df2"].append_column([1] * len(c["df2"]), v, int), None)
    return T


# ---------------------------------------------------------------------------------------------------
# multi-argument calls: every argument is varied in turn while the others keep a valid value
#
# A call is (label, fn(c, **kwargs), valid(c) -> {argument: valid value}, reset(c) | None).  Each argument
# of each call becomes a target of the sweep "<label>(<argument>=)": the value offered replaces the valid value of
# that one argument.  Offered are the respellings of the argument's own valid value (c12_respell.py: the same content
# as tuple / ndarray / generator / NumPy scalar / enum text / entity id ...) and the common pool of spellings.


def _calls():
    C = []
    DT = nixio.DataType
    LT = nixio.LinkType

    def add(label, fn, valid, reset=None):
        C.append((label, fn, valid, reset))

    def vec(c, short, long_):
        return long_ if c["long"] else short

    def drop_new(*conts):
        """after an accepted creating / copying call the scene is rebuilt (a copy of the template: cheaper than
        deleting what was created - nixio's deletion visits the whole file)"""
        return None

    def drop_dims(key):
        return lambda c: c[key].delete_dimensions()

    # --- dimension links: the data object and the index of the tick vector / column
    def relink_range(c):
        c["rl"].link_data_array(c["d1"], [-1])

    def relink_set(c):
        c["sl"].link_data_frame(c["df"], 1)

    def reticks(c):
        if c["rd"].has_link:
            c["rd"].remove_link()
        c["rd"].ticks = vec(c, [1.0, 2.0], [1.0, 2.0, 3.0, 4.0])

    def relabels(c):
        if c["sd"].has_link:
            c["sd"].remove_link()
        c["sd"].labels = vec(c, ["a", "b"], ["a", "b", "c", "d"])
    add("RangeDimension(ticks).link_data_array", lambda c, **kw: c["rd"].link_data_array(**kw),
        lambda c: dict(data_array=c["d1"], index=[-1]), reticks)
    add("RangeDimension(ticks).link_data_array(2d)", lambda c, **kw: c["rd"].link_data_array(**kw),
        lambda c: dict(data_array=c["dy"], index=[0, -1]), reticks)
    add("RangeDimension(linked).link_data_array", lambda c, **kw: c["rl"].link_data_array(**kw),
        lambda c: dict(data_array=c["dx"], index=[-1]), relink_range)
    add("RangeDimension(linked).link_data_array(2d)", lambda c, **kw: c["rl"].link_data_array(**kw),
        lambda c: dict(data_array=c["da"], index=[-1, 1]), relink_range)
    add("SetDimension(labels).link_data_array", lambda c, **kw: c["sd"].link_data_array(**kw),
        lambda c: dict(data_array=c["ds"], index=[-1]), relabels)
    add("SetDimension(linked).link_data_array", lambda c, **kw: c["sl"].link_data_array(**kw),
        lambda c: dict(data_array=c["dy"], index=[1, -1]), relink_set)
    add("RangeDimension(ticks).link_data_frame", lambda c, **kw: c["rd"].link_data_frame(**kw),
        lambda c: dict(data_frame=c["df"], index=0), reticks)
    add("RangeDimension(linked).link_data_frame", lambda c, **kw: c["rl"].link_data_frame(**kw),
        lambda c: dict(data_frame=c["df"], index=0), relink_range)
    add("SetDimension(labels).link_data_frame", lambda c, **kw: c["sd"].link_data_frame(**kw),
        lambda c: dict(data_frame=c["df"], index=1), relabels)
    add("SetDimension(linked).link_data_frame", lambda c, **kw: c["sl"].link_data_frame(**kw),
        lambda c: dict(data_frame=c["df2"], index=0), relink_set)
    add("DataArray.append_range_dimension_using_self", lambda c, **kw: c["dx"].append_range_dimension_using_self(**kw),
        lambda c: dict(index=[-1]), drop_dims("dx"))
    add("DataArray(2d,linked dims).append_range_dimension_using_self",
        lambda c, **kw: c["dy"].append_range_dimension_using_self(**kw), lambda c: dict(index=[-1, 0]), None)
    # --- appended dimensions: every keyword
    add("DataArray.append_range_dimension", lambda c, **kw: c["dx"].append_range_dimension(**kw),
        lambda c: dict(ticks=[1.0, 2.5], label="time", unit="ms"), drop_dims("dx"))
    add("DataArray.append_sampled_dimension", lambda c, **kw: c["dx"].append_sampled_dimension(**kw),
        lambda c: dict(sampling_interval=0.5, label="time", unit="ms", offset=1.5), drop_dims("dx"))
    add("DataArray.append_set_dimension", lambda c, **kw: c["dx"].append_set_dimension(**kw),
        lambda c: dict(labels=["p", "q"]), drop_dims("dx"))
    # --- features
    feat_reset = lambda key, keep: (lambda c: [c[key].features.__delitem__(x) for x in list(c[key].features)[keep:]])  # noqa
    add("Tag.create_feature", lambda c, **kw: c["t"].create_feature(**kw),
        lambda c: dict(data=c["d1"], link_type=LT.Untagged), feat_reset("t", 1))
    add("Tag.create_feature(text link type)", lambda c, **kw: c["t"].create_feature(**kw),
        lambda c: dict(data=c["da"], link_type="tagged"), feat_reset("t", 1))
    add("MultiTag.create_feature", lambda c, **kw: c["mt"].create_feature(**kw),
        lambda c: dict(data=c["d1"], link_type=LT.Indexed), feat_reset("mt", 0))
    add("MultiTag.create_feature(frame)", lambda c, **kw: c["mt"].create_feature(**kw),
        lambda c: dict(data=c["df"], link_type=LT.Untagged), feat_reset("mt", 0))
    # --- creating calls with several arguments
    add("Block.create_data_array(data)", lambda c, **kw: c["b"].create_data_array(**kw),
        lambda c: dict(name="sweep-new", array_type="t", data=[1.0, 2.0], label="lbl", unit="mV",
                       compression=nixio.Compression.No), drop_new(("b", "data_arrays")))
    add("Block.create_data_array(ndarray)", lambda c, **kw: c["b"].create_data_array(**kw),
        lambda c: dict(name="sweep-new", array_type="t", data=np.array([[1.0, 2.0], [3.0, 4.0]]), dtype=DT.Double,
                       shape=(2, 2)), drop_new(("b", "data_arrays")))
    add("Block.create_data_array(shape)", lambda c, **kw: c["b"].create_data_array(**kw),
        lambda c: dict(name="sweep-new", array_type="t", dtype=np.float64, shape=(2, 3), unit="mV"),
        drop_new(("b", "data_arrays")))
    add("Block.create_data_array(python type)", lambda c, **kw: c["b"].create_data_array(**kw),
        lambda c: dict(name="sweep-new", array_type="t", dtype=int, shape=[4]), drop_new(("b", "data_arrays")))
    add("Block.create_data_array(copy)", lambda c, **kw: c["b2"].create_data_array(**kw),
        lambda c: dict(name="sweep-new", copy_from=c["d1"], keep_copy_id=False), drop_new(("b2", "data_arrays")))
    add("Block.create_tag", lambda c, **kw: c["b"].create_tag(**kw),
        lambda c: dict(name="sweep-new", type_="t", position=[1.0, 2.0]), drop_new(("b", "tags")))
    add("Block.create_tag(copy)", lambda c, **kw: c["b2"].create_tag(**kw),
        lambda c: dict(name="sweep-new", copy_from=c["t"], keep_copy_id=True), drop_new(("b2", "tags")))
    add("Block.create_multi_tag", lambda c, **kw: c["b"].create_multi_tag(**kw),
        lambda c: dict(name="sweep-new", type_="t", positions=c["d1"], extents=c["d1"]), drop_new(("b", "multi_tags")))
    add("Block.create_multi_tag(data)", lambda c, **kw: c["b"].create_multi_tag(**kw),
        lambda c: dict(name="sweep-new", type_="t", positions=[1.0, 2.0], extents=[0.5, 0.5]),
        drop_new(("b", "multi_tags"), ("b", "data_arrays")))
    add("Block.create_multi_tag(copy)", lambda c, **kw: c["b2"].create_multi_tag(**kw),
        lambda c: dict(name="sweep-new", copy_from=c["mt"], keep_copy_id=False), drop_new(("b2", "multi_tags")))
    add("Block.create_data_frame(col_dict)", lambda c, **kw: c["b"].create_data_frame(**kw),
        lambda c: dict(name="sweep-new", type_="t", col_dict={"a": int, "s": str}, data=[(1, "u"), (2, "v")],
                       compression=nixio.Compression.No), drop_new(("b", "data_frames")))
    add("Block.create_data_frame(col_names)", lambda c, **kw: c["b"].create_data_frame(**kw),
        lambda c: dict(name="sweep-new", type_="t", col_names=["a", "x"], col_dtypes=[int, float]),
        drop_new(("b", "data_frames")))
    add("Block.create_data_frame(copy)", lambda c, **kw: c["b2"].create_data_frame(**kw),
        lambda c: dict(name="sweep-new", copy_from=c["df"], keep_copy_id=False), drop_new(("b2", "data_frames")))
    add("Block.create_group", lambda c, **kw: c["b"].create_group(**kw),
        lambda c: dict(name="sweep-new", type_="t"), drop_new(("b", "groups")))
    add("Block.create_source", lambda c, **kw: c["b"].create_source(**kw),
        lambda c: dict(name="sweep-new", type_="t"), drop_new(("b", "sources")))
    add("Source.create_source", lambda c, **kw: c["src"].create_source(**kw),
        lambda c: dict(name="sweep-new", type_="t"), drop_new(("src", "sources")))
    add("File.create_block", lambda c, **kw: c["f"].create_block(**kw),
        lambda c: dict(name="sweep-new", type_="t", compression=nixio.Compression.DeflateNormal),
        drop_new(("f", "blocks")))
    add("File.create_block(copy)", lambda c, **kw: c["f"].create_block(**kw),
        lambda c: dict(name="sweep-new", copy_from=c["b2"], keep_copy_id=False), drop_new(("f", "blocks")))
    add("File.create_section", lambda c, **kw: c["f"].create_section(**kw),
        lambda c: dict(name="sweep-new", type_="t", oid="4a6b1e0c-7d11-4c58-9f0e-3b5a2c1d0e9f"),
        drop_new(("f", "sections")))
    add("Section.create_section", lambda c, **kw: c["s"].create_section(**kw),
        lambda c: dict(name="sweep-new", type_="t"), drop_new(("s", "sections")))
    add("Section.create_property(values)", lambda c, **kw: c["s"].create_property(**kw),
        lambda c: dict(name="sweep-new", values_or_dtype=[1.5, 2.5], oid="4a6b1e0c-7d11-4c58-9f0e-3b5a2c1d0e9f"),
        drop_new(("s", "props")))
    add("Section.create_property(single)", lambda c, **kw: c["s"].create_property(**kw),
        lambda c: dict(name="sweep-new", values_or_dtype="text"), drop_new(("s", "props")))
    add("Section.create_property(datatype)", lambda c, **kw: c["s"].create_property(**kw),
        lambda c: dict(name="sweep-new", values_or_dtype=DT.Int64), drop_new(("s", "props")))
    add("Section.create_property(copy)", lambda c, **kw: c["s2"].create_property(**kw),
        lambda c: dict(name="sweep-new", copy_from=c["pr"], keep_copy_id=False), drop_new(("s2", "props")))
    add("File.copy_section", lambda c, **kw: c["f"].copy_section(**kw),
        lambda c: dict(obj=c["s2"], children=True, keep_id=False, name="sweep-new"), drop_new(("f", "sections")))
    add("Section.copy_section", lambda c, **kw: c["s2"].copy_section(**kw),
        lambda c: dict(obj=c["s"], children=False, keep_id=True, name="sweep-new"), drop_new(("s2", "sections")))
    add("Section[key]=", lambda c, **kw: c["s"].__setitem__(kw["key"], kw["data"]),
        lambda c: dict(key="sweep-new", data=[1, 2]), drop_new(("s", "props"), ("s", "sections")))
    # --- array data: the value and where it goes

    def d1_reset(c):
        n = 5 if c["long"] else 3
        c["d1"].data_extent = (n,)
        c["d1"].write_direct(np.arange(n, dtype=float))

    def da_reset(c):
        c["da"].data_extent = (2, 2)
        c["da"].write_direct(np.array([[1.0, 2.0], [3.0, 4.0]]))
    add("DataArray.append", lambda c, **kw: c["d1"].append(**kw), lambda c: dict(data=[7.0, 8.0], axis=0), d1_reset)
    add("DataArray(2d).append", lambda c, **kw: c["da"].append(**kw),
        lambda c: dict(data=np.array([[7.0], [8.0]]), axis=1), da_reset)
    add("DataArray[index]=", lambda c, **kw: c["d1"].__setitem__(kw["index"], kw["value"]),
        lambda c: dict(index=[0, 2], value=[7.0, 8.0]), d1_reset)
    add("DataArray(2d)[index]=", lambda c, **kw: c["da"].__setitem__(kw["index"], kw["value"]),
        lambda c: dict(index=(1, 0), value=9.0), da_reset)
    add("DataArray.write_direct", lambda c, **kw: c["da"].write_direct(**kw),
        lambda c: dict(data=np.array([[5.0, 6.0], [7.0, 8.0]])), da_reset)
    add("DataArray.data_extent=", lambda c, **kw: setattr(c["da"], "data_extent", kw["extent"]),
        lambda c: dict(extent=(3, 2)), da_reset)
    # --- data frame writes

    def df_reset(c):
        n = 4 if c["long"] else 2
        rows = [(1, "u"), (2, "v"), (3, "w"), (4, "x")][:n]
        if len(c["df"]) != n:
            c["df"].data_extent = (n,)
        c["df"].write_rows(rows, list(range(n)))
    add("DataFrame.write_cell(position)", lambda c, **kw: c["df"].write_cell(**kw),
        lambda c: dict(cell=7, position=(1, 0)), df_reset)
    add("DataFrame.write_cell(col_name,row_idx)", lambda c, **kw: c["df"].write_cell(**kw),
        lambda c: dict(cell="z", col_name="s", row_idx=1), df_reset)
    add("DataFrame.write_column(index)", lambda c, **kw: c["df"].write_column(**kw),
        lambda c: dict(column=[7] * len(c["df"]), index=0), df_reset)
    add("DataFrame.write_column(name)", lambda c, **kw: c["df"].write_column(**kw),
        lambda c: dict(column=["z"] * len(c["df"]), name="s"), df_reset)
    add("DataFrame.write_rows", lambda c, **kw: c["df"].write_rows(**kw),
        lambda c: dict(rows=[(7, "y"), (8, "z")], index=[1, 0]), df_reset)
    add("DataFrame.append_rows", lambda c, **kw: c["df"].append_rows(**kw),
        lambda c: dict(data=[(7, "y"), (8, "z")]), df_reset)
    add("DataFrame.append_column", lambda c, **kw: c["df2"].append_column(**kw),
        lambda c: dict(column=[1.5] * len(c["df2"]), name="extra", datatype=float), None)
    add("DataFrame.units=", lambda c, **kw: setattr(c["df"], "units", kw["units"]),
        lambda c: dict(units=["mV", "s"]), lambda c: setattr(c["df"], "units", ["kV", "ms"]))
    # --- link lists: the item(s) in every spelling an entity has

    def unlink(key, cont, keep):
        def reset(c):
            lst = getattr(c[key], cont)
            keep_ids = [c[k].id for k in keep]
            for x in list(lst):
                if x.id not in keep_ids:
                    del lst[x.id]
        return reset
    add("Group.data_arrays.append", lambda c, **kw: c["g"].data_arrays.append(**kw), lambda c: dict(item=c["d1"]),
        unlink("g", "data_arrays", ["da"]))
    add("Group.data_arrays.extend", lambda c, **kw: c["g"].data_arrays.extend(**kw),
        lambda c: dict(items=[c["d1"], c["ds"]]), unlink("g", "data_arrays", ["da"]))
    add("Tag.references.extend", lambda c, **kw: c["t"].references.extend(**kw),
        lambda c: dict(items=[c["d1"], c["dx"]]), unlink("t", "references", ["da"]))
    add("DataArray.sources.append", lambda c, **kw: c["d1"].sources.append(**kw), lambda c: dict(item=c["src2"]),
        unlink("d1", "sources", []))
    add("DataArray.sources.extend", lambda c, **kw: c["d1"].sources.extend(**kw),
        lambda c: dict(items=[c["src"], c["src2"]]), unlink("d1", "sources", []))
    # --- links to single entities
    add("MultiTag.positions=", lambda c, **kw: setattr(c["mt"], "positions", kw["positions"]),
        lambda c: dict(positions=c["dx"]), lambda c: setattr(c["mt"], "positions", c["d1"]))
    add("MultiTag.extents=", lambda c, **kw: setattr(c["mt"], "extents", kw["extents"]),
        lambda c: dict(extents=c["d1"]), lambda c: setattr(c["mt"], "extents", None))
    add("Feature.data=", lambda c, **kw: setattr(c["ft"], "data", kw["data"]),
        lambda c: dict(data=c["d1"]), lambda c: setattr(c["ft"], "data", c["da"]))
    add("Feature.link_type=", lambda c, **kw: setattr(c["ft"], "link_type", kw["link_type"]),
        lambda c: dict(link_type=LT.Untagged), lambda c: setattr(c["ft"], "link_type", LT.Tagged))
    add("Block.metadata=", lambda c, **kw: setattr(c["b2"], "metadata", kw["metadata"]),
        lambda c: dict(metadata=c["s2"]), lambda c: setattr(c["b2"], "metadata", None))
    add("Section.link=", lambda c, **kw: setattr(c["s2"], "link", kw["link"]),
        lambda c: dict(link=c["s"]), lambda c: setattr(c["s2"], "link", None))
    # --- stored vectors and values: the valid value in every spelling
    add("Tag.position=", lambda c, **kw: setattr(c["t"], "position", kw["position"]),
        lambda c: dict(position=[4.0, 5.0, 6.0]), lambda c: setattr(c["t"], "position", vec(c, [0.0], [0.0, 1.0, 2.0, 3.0])))
    add("Tag.units=", lambda c, **kw: setattr(c["t"], "units", kw["units"]),
        lambda c: dict(units=["ms", "Hz", "kV"]), lambda c: setattr(c["t"], "units", vec(c, ["mV"], ["mV", "s", "mV", "s"])))
    add("RangeDimension.ticks=", lambda c, **kw: setattr(c["rd"], "ticks", kw["ticks"]),
        lambda c: dict(ticks=[4.0, 5.0, 6.0]), reticks)
    add("RangeDimension(linked).ticks=", lambda c, **kw: setattr(c["rl"], "ticks", kw["ticks"]),
        lambda c: dict(ticks=[4.0, 5.0, 6.0]), relink_range)
    add("SetDimension.labels=", lambda c, **kw: setattr(c["sd"], "labels", kw["labels"]),
        lambda c: dict(labels=["p", "q", "r"]), relabels)
    add("SetDimension(linked).labels=", lambda c, **kw: setattr(c["sl"], "labels", kw["labels"]),
        lambda c: dict(labels=["p", "q", "r"]), relink_set)
    add("DataArray.polynom_coefficients=", lambda c, **kw: setattr(c["da"], "polynom_coefficients", kw["coefficients"]),
        lambda c: dict(coefficients=[4.0, 5.0, 6.0]),
        lambda c: setattr(c["da"], "polynom_coefficients", vec(c, [0.0, 1.0], [0.0, 1.0, 2.0, 3.0])))
    add("Property.values=", lambda c, **kw: setattr(c["pr"], "values", kw["values"]),
        lambda c: dict(values=[7, 8, 9]), lambda c: setattr(c["pr"], "values", vec(c, [1, 2], [1, 2, 3, 4])))
    add("Property(str).values=", lambda c, **kw: setattr(c["ps"], "values", kw["values"]),
        lambda c: dict(values=["p", "q"]), lambda c: setattr(c["ps"], "values", vec(c, ["a"], ["a", "b", "c"])))
    add("Property.extend_values", lambda c, **kw: c["pf"].extend_values(**kw),
        lambda c: dict(data=[7.5, 8.5]), lambda c: setattr(c["pf"], "values", vec(c, [0.5], [0.5, 1.5, 2.5])))
    # --- single-valued attributes: the valid value in every spelling a number / a text has
    for key, cls, attr, good, back in (
            ("sm", "SampledDimension", "sampling_interval", 0.5, 1.0), ("sm", "SampledDimension", "offset", 2.5, None),
            ("sm", "SampledDimension", "unit", "ms", None), ("sm", "SampledDimension", "label", "time", None),
            ("rd", "RangeDimension", "unit", "ms", None), ("rd", "RangeDimension", "label", "time", None),
            ("rl", "RangeDimension(linked)", "unit", "ms", None), ("rl", "RangeDimension(linked)", "label", "time", None),
            ("sd", "SetDimension", "label", "kind", None), ("da", "DataArray", "expansion_origin", 1.5, 0.5),
            ("da", "DataArray", "unit", "mV", None), ("da", "DataArray", "label", "voltage", None),
            ("da", "DataArray", "type", "signal", "t"), ("da", "DataArray", "definition", "some text", None),
            ("pr", "Property", "uncertainty", 0.25, None), ("pr", "Property", "unit", "mV", None),
            ("pr", "Property", "definition", "some text", None), ("pr", "Property", "reference", "ref", None),
            ("pr", "Property", "dependency", "dep", None), ("pr", "Property", "dependency_value", "dv", None),
            ("pr", "Property", "value_origin", "vo", None), ("s", "Section", "repository", "repo", None),
            ("s", "Section", "reference", "ref", None), ("s", "Section", "type", "kind", "t"),
            ("b", "Block", "definition", "some text", None), ("t", "Tag", "type", "kind", "t")):
        if back is None:
            # an accepted call is undone by assigning another valid value (not None): the refusals that follow meet
            # an attribute that HAS a value
            back = "s" if attr == "unit" else "previous " + good if isinstance(good, str) else good + 1
        add("%s.%s=" % (cls, attr), lambda c, key=key, attr=attr, **kw: setattr(c[key], attr, kw["value"]),
            lambda c, good=good: dict(value=good), lambda c, key=key, attr=attr, back=back: setattr(c[key], attr, back))
    add("Entity.force_updated_at", lambda c, **kw: c["da"].force_updated_at(**kw),
        lambda c: dict(time=1600000000), lambda c: c["da"].force_updated_at(1600000000))
    return C


CALLS = _calls()
# argument targets derived from the calls: label -> valid(c) of the varied argument
VALID = {}


def _argument_targets():
    T = []
    for label, fn, valid, reset in CALLS:
        # the argument names are read off a probe of `valid` at sweep time; here off its source-independent keys:
        # a scene is not available at import, so the table names them by calling valid on a key-recording stub
        names = list(valid(_KeyStub()).keys())
        for arg in names:
            tl = "%s(%s=)" % (label, arg)

            def call(c, v, fn=fn, valid=valid, arg=arg):
                kw = dict(valid(c))
                kw[arg] = v
                return fn(c, **kw)
            T.append((tl, call, reset))
            VALID[tl] = (lambda c, valid=valid, arg=arg: valid(c)[arg])
    return T


class _KeyStub(dict):
    """stands for the scene when only the argument names of a call are wanted"""

    def __missing__(self, key):
        return _Len2()


class _Len2:
    def __len__(self):
        return 2


SPELLINGS = _spellings()
ARG_TARGETS = _argument_targets()
TARGETS = _targets() + ARG_TARGETS
TARGET_INDEX = {t[0]: t for t in TARGETS}
SPELLING_INDEX = {s[0]: s for s in SPELLINGS}
# targets whose accepted calls cannot be undone by a `reset`: the file is rebuilt after an accepted call
REBUILD_AFTER_ACCEPT = {t[0] for t in TARGETS if t[2] is None}


# ---------------------------------------------------------------------------------------------------
# plans: which part of the product a run covers

# spellings every selected target sees in every run: one of each container x the element kinds that matter, always of
# length 3 (the stored vectors hold 1-2 values in the short scene, 4-5 in the long one: the lengths always differ)
CORE = ["list:nul-str:3", "scalar:nul-str", "list:units:3", "list:surrogate-str:3", "list:float:3", "list:str:3", "list:obj:3", "list:mixed-str:3", "list:mixed-obj:3", "list:none:3",
        "list:complex:3", "list:nested:3", "list:ragged:3", "list:huge-int:3", "list:empty",
        "tuple:str:3", "tuple:float:3", "gen:float:3", "gen:str:3",
        "ndarray:f8:3", "ndarray:i8:3", "ndarray:U:3", "ndarray:S:3", "ndarray:O-str:3", "ndarray:O-mixed:3",
        "ndarray:O-none:3", "ndarray:O-obj:3", "ndarray:b:3", "ndarray:c16:3", "ndarray:M8:3", "ndarray:V:3",
        "ndarray:U-num:3", "ndarray:f8:0-d", "ndarray:U:0-d", "ndarray:O-float:0-d", "ndarray:f8:2x2", "ndarray:U:2x2",
        "ndarray:U:0", "ndarray:O-float:1",
        "scalar:int", "scalar:str", "scalar:none", "scalar:object", "scalar:float", "scalar:true", "scalar:complex",
        "range:3", "dict", "set", "lying-sequence",
        "entity:da", "entity:da2", "entity:t", "entity:b", "entity:s", "entity:df",
        "entity:ofd", "entity:off", "entity:ofs", "entity:dead_da",
        "list:entities:own+foreign", "list:entities:own+kind", "rows:bad-type", "rows:obj", "coldict:bad-type"]
assert all(s in SPELLING_INDEX for s in CORE), [s for s in CORE if s not in SPELLING_INDEX]

# what a role link is offered: every entity of the scene (right class / wrong class; this block / the other block /
# ANOTHER FILE / deleted again), ids, None, a few non-entities
_ROLE_SKIP = ("entity:ds", "entity:dx", "entity:dy", "entity:b2", "entity:fsrc", "entity:rd", "entity:ofs2", "entity:ofsrc",
              "entity:oft", "id-of:d1", "id-of:s2", "id-of:xf")       # same class and place as a neighbour
ROLE_SPELLINGS = [s_[0] for s_ in SPELLINGS if s_[0].startswith(("entity:", "id-of:", "id:")) and s_[0] not in _ROLE_SKIP] + [
    "scalar:none", "scalar:int", "scalar:str", "scalar:object", "list:entities:own+foreign", "ndarray:f8:3", "list:empty"]

# targets whose refusals usually come after a write that is rolled back (the flushed file's bytes change, so every
# refusal costs a full snapshot): they get a shorter list of spellings
ROLLBACK_PREFIXES = ("Block.create_", "File.create_", "Section.create_", "Source.create_", "File.copy_", "Section.copy_",
                     "DataArray.append_", "DataArray(2d,linked dims).append_", "create_", "append_", "Section.create_property", "Section[new]=", "Tag.create_feature",
                     "MultiTag.create_feature", "DataArray.delete_dimensions+append", "DataFrame.append_column")
# targets that write datasets (vectors, array data, tables, property values): in every quick run
DATA_PREFIXES = ("Tag.position", "Tag.extent", "Tag.units", "MultiTag.units", "DataArray.polynom_coefficients",
                 "DataArray.data_extent", "DataArray.write_direct", "DataArray[", "DataArray(str)", "DataArray.append",
                 "DataView", "RangeDimension.ticks", "SetDimension.labels", "RangeDimension.link", "SetDimension.link",
                 "Property.values", "Property(str).values", "Property(float).values", "Property.extend_values",
                 "Property(str).extend_values", "Section[existing]=", "DataFrame.append_rows", "DataFrame.write_",
                 "append_set_dimension", "append_range_dimension(ticks)", "create_data_array(data)",
                 "create_tag(position)", "create_multi_tag(", "Section.create_property(values)", "create_data_frame(")


# respellings every argument target sees in every run (those that exist for its valid value): one of each container /
# scalar / text / entity spelling; the other respellings rotate (a random 12 of the ~120, of which a fifth apply)
RE_CORE = ["re:" + r for r in (
    "numseq:tuple", "numseq:ndarray", "numseq:ndarray-f8", "numseq:ndarray-object", "numseq:generator", "numseq:np-ints",
    "numseq:floats", "numseq:fractions", "numseq:sequence-class", "numseq:duck-class", "numseq:scalar-of-single", "numseq:nested",
    "num:np-int64", "num:np-float64", "num:float-of-int", "num:str", "num:0-d", "num:list-1", "num:bool",
    "str:np-str", "str:bytes", "str:list-1", "str:0-d", "str:stringy-object",
    "enum:value", "enum:name", "enum:value-upper", "enum:list-1", "enum:value-dtype",
    "dtype:np-dtype", "dtype:name", "dtype:nix-datatype", "dtype:python-type", "dtype:instance",
    "strseq:tuple", "strseq:ndarray", "strseq:ndarray-object", "strseq:generator", "strseq:bytes", "strseq:joined", "strseq:duck-class",
    "seq:tuple", "seq:generator", "seq:ndarray-object", "seq:doubled", "seq:duck-class",
    "ndarray:list", "ndarray:object", "ndarray:str", "ndarray:complex", "ndarray:extra-axis",
    "rows:lists", "rows:object-array", "rows:generator", "rows:np-scalars",
    "map:pairs", "map:np-dtypes", "map:type-names", "map:mapping-class",
    "entity:id", "entity:name", "entity:second-handle", "entity:list-1", "entity:uuid-object",
    "bool:int", "bool:str")]
assert all(r in RS.RESPELL_INDEX for r in RE_CORE), [r for r in RE_CORE if r not in RS.RESPELL_INDEX]


def is_rollback(t):
    return t.startswith(ROLLBACK_PREFIXES)


def is_data(t):
    return t.startswith(DATA_PREFIXES)


def plan(tier, seed, rng, broken=False):
    """[(long, target label, [spelling labels])] of one run.

    quick: every data-writing target and a rotating quarter of the others, each in one of the two scenes (alternating
    with the seed), with the CORE spellings plus a random handful; rollback targets get a third of that.
    Argument targets (one argument of a multi-argument call varied, the others valid): in every run, in one scene,
    with EVERY respelling of the argument's valid value (those that do not exist for the value are skipped at no
    cost) plus a few spellings of the common pool.
    thorough / broken obligation: every target in both scenes, CORE plus a large random part of the pool."""
    labels = [t[0] for t in TARGETS]
    allsp = [s[0] for s in SPELLINGS]
    rest = [s for s in allsp if s not in CORE]
    respell = [r[0] for r in RS.RESPELLINGS]
    out, first = [], []
    big = tier != "quick" or broken
    for i, t in enumerate(labels):
        if t in ROLE_TARGETS:
            # in every run, every entity spelling; the scene alternates with the seed
            scenes = (False, True) if big else ((i + seed) % 2 == 1,)
            for long in scenes:
                first.append((long, t, ROLE_SPELLINGS + (rng.sample(CORE, 12) if big else [])))
            continue
        if t in VALID:
            if not big and is_rollback(t) and (i + seed) % 2 != 0:
                continue            # creating / copying calls: every other quick run
            scenes = (False, True) if big else ((i + seed) % 2 == 1,)
            for long in scenes:
                if big:
                    # every respelling in both scenes; the common pool in one of them (alternating)
                    pool = (list(CORE) + rng.sample(rest, 12 if is_rollback(t) else 40)) if long == ((i + seed) % 2 == 1) else []
                    out.append((long, t, respell + pool))
                else:
                    others = [r for r in respell if r not in RE_CORE]
                    out.append((long, t, RE_CORE + rng.sample(others, 12) + rng.sample(CORE, 2)))
            continue
        if not big and not is_data(t) and (i + seed) % 4 != 0:
            continue
        scenes = (False, True) if big else ((i + seed) % 2 == 1,)
        for long in scenes:
            if big:
                n_core, n_extra = (len(CORE), 12) if is_rollback(t) else (len(CORE), 60)
            else:
                n_core, n_extra = (10, 1) if is_rollback(t) else (len(CORE), 5)
            core = CORE if n_core >= len(CORE) else rng.sample(CORE, n_core)
            sp = list(core) + rng.sample(rest, min(n_extra, len(rest)))
            out.append((long, t, sp))
    return first + out
