"""C01 — array data is stored and returned exactly (type, shape, values).

Model: lean/NixModel/Pure/NdArray.lean; theorems: lean/NixModel/Props/C01.lean; driver: lean/Driver/C01.lean.
A case is one history on one data array in a fresh file (see Driver/C01.lean for the line format).  The same
case is executed by the model driver and by the real nixio on a real HDF5 file; every step is followed by a full
observation (dtype, extent, len, size, content by bit pattern, gzip filter).  The oracle replays the history on
an in-memory numpy mirror, independently of the model.
"""
import json
import os

import warnings

import numpy as np

from ..lib import core
from ..lib.core import Failure, Disagreement
from ..extract import compression as _ex
from ..extract import datasetshape as _ex2
from ..extract import datasetdtype as _ex3

PROP = "C01"
LEAN_MODULE = "NixModel.Props.C01"
THEOREMS = [
    "Nix.C01.C01_append_concat",
    "Nix.C01.C01_append_refused",
    "Nix.C01.C01_history",
    "Nix.C01.C01_last_write_wins",
    "Nix.C01.C01_dtype_shape_stable",
    "Nix.C01.C01_elements_typed",
    "Nix.C01.C01_assign_exact",
    "Nix.C01.C01_assign_exact_sources",
    "Nix.C01.C01_create_exact",
    "Nix.C01.C01_create_empty",
    "Nix.C01.C01_compression_transparent",
    "Nix.C01.C01_compression_table",
    "Nix.C01.C01_source_append",
    "Nix.C01.C01_source_write",
    "Nix.C01.C01_source_read",
    "Nix.C01.C01_source_len_size",
    "Nix.C01.C01_source_create",
    "Nix.C01.C01_source_step",
    "Nix.C01.C01_source_pinned",
    "Nix.C01.C01_source_methods",
    "Nix.C01.C01_empty_source",
    "Nix.C01.C01_conversion",
    "Nix.C01.C01_refused_kinds",
    "Nix.C01.C01_raised_unchanged",
    "Nix.C01.C01_performed_step",
    "Nix.C01.C01_typed_history",
    "Nix.C01.C01_typed_always",
    "Nix.C01.C01_typed_append_concat",
    "Nix.C01.C01_create_typed",
    "Nix.C01.C01_read_rule",
    "Nix.C01.C01_read_paths_agree",
    "Nix.C01.C01_ellipsis",
    "Nix.C01.C01_shrink_grow_fill",
    "Nix.C01.C01_datatype_members",
    "Nix.C01.C01_dtype_handed_through",
    "Nix.C01.C01_spelling_exact",
    "Nix.C01.C01_spelling_created_type",
    "Nix.C01.C01_reported_type",
    "Nix.C01.C01_seq_source",
    "Nix.C01.C01_seq_cast",
    "Nix.C01.C01_seq_cast_vs_conversion",
    "Nix.C01.C01_seq_raised_unchanged",
    "Nix.C01.C01_seq_performed",
    "Nix.C01.C01_seq_history",
]
ASSUMPTIONS = [
    "libhdf5/h5py storage is replaced by an executable stand-in (NdArray: extent change keeps surviving multi-indices "
    "and fills new ones, a hyperslab write replaces exactly the selected elements with h5py's source broadcasting, "
    "index arguments are normalised as h5py._selector does incl. Ellipsis, close/reopen and the gzip filter do not "
    "change content); the theorems are about nixio's logic on top of that stand-in, the correspondence runs "
    "(bit-pattern comparison on real HDF5 files) speak for the stand-in",
    "conversion between element kinds on a write (which pairs are refused and with which exception; integer "
    "saturation, float truncation, rounding to nearest-even, HDF5's overflow-to-inf, NaN payload truncation) is a "
    "model of what libhdf5 1.14 / h5py 3.16 do on x86-64 (Pure/NdConv.lean), compared bit for bit by the "
    "correspondence; two cases are left out because C leaves them undefined: NaN written into an integer array, and a "
    "float equal to 2^31, 2^32, 2^63 or 2^64 written into an integer array",
    "text never contains NUL (h5py refuses embedded NULs in variable-length strings)",
    "rank >= 1 (the property quantifies over ranks 1..4; 0-d arrays are outside the generators)",
    "index items are integers (Python or numpy), slices and Ellipsis; boolean masks and index lists (fancy indexing) "
    "are C06's subject",
    "dtype spellings: np.dtype(spelling) is modelled as a table (Pure/NdSpell.lean) for x86-64 Linux (C long = 64 "
    "bit): Python's bool/int/float/str, the NumPy scalar type names, the one-character and sized type codes with "
    "byte-order prefix, the common type names; every spelling of the harness table is compared with NumPy and nixio "
    "on every run (sweep); spellings outside the 12 element types (complex, float16, bytes, object, datetime) are "
    "outside the model",
    "arrays stored in the other byte order ('>i4', or the type taken from byte-swapped data) get sources of their own "
    "element type only: libhdf5 converts between a byte-swapped and another type in software with other lossy "
    "results (wrap instead of saturation, NaN payloads) than the native path the conversion model describes",
    "sources that are Python sequences (lists, tuples, ranges, scalars) in write_direct / region assignment are cast "
    "by NumPy inside h5py (numpy.asarray(seq, dtype=<element type>)): modelled by Pure/NdSeq.lean for sequences of "
    "Python int / float / bool (text parsed into numbers by NumPy is outside the model)",
    "the compiler harness/extract/datasetshape.py renders the Python subset of the array I/O methods faithfully "
    "(expressions over ints and tuples of ints, comprehensions over enumerate/zip, if/raise, try/except-reraise); "
    "statements it only pins as text (string decoding after a read, calibration, name/compression handling in "
    "create_data_array) are modelled by hand",
]
TRUSTED_EXTRA = ["harness/extract/compression.py renders the Compression enum and the resolution statements of "
                 "File.__init__, File.create_block, Block.__init__, Block.create_data_array, DataArray.create_new, "
                 "H5DataSet.__init__",
                 "harness/extract/datasetshape.py compiles DataSet.append/__getitem__/__setitem__/write_direct/len/"
                 "shape/size/_read_data/_write_data/data_extent, H5DataSet.write_data/read_data/shape, "
                 "DataArray._read_data and the argument rules of Block.create_data_array into Lean definitions over "
                 "the vocabulary of NixModel/Pure/NdGen.lean",
                 "harness/extract/datasetdtype.py renders the DataType members, the calls that carry the dtype argument "
                 "from create_data_array to require_dataset, and compiles the text rule of H5DataSet.__init__"]

DTYPES = ["uint8", "uint16", "uint32", "uint64", "int8", "int16", "int32", "int64", "float32", "float64", "bool",
          "string"]
INTS = DTYPES[:8]
COMPR = ["No", "DeflateNormal", "Auto"]
INT_RANGE = {"uint8": (0, 2 ** 8 - 1), "uint16": (0, 2 ** 16 - 1), "uint32": (0, 2 ** 32 - 1),
             "uint64": (0, 2 ** 64 - 1), "int8": (-2 ** 7, 2 ** 7 - 1), "int16": (-2 ** 15, 2 ** 15 - 1),
             "int32": (-2 ** 31, 2 ** 31 - 1), "int64": (-2 ** 63, 2 ** 63 - 1)}
F64_SPECIAL = [0x7ff8000000000000, 0x7ff8000000000001, 0xfff8000000000000, 0x7ff0000000000001, 0x7ff0000000000000,
               0xfff0000000000000, 0x8000000000000000, 0x0000000000000000, 0x0000000000000001, 0x7fefffffffffffff,
               0xffefffffffffffff, 0x3ff0000000000000, 0x7fffffffffffffff, 0x000fffffffffffff]
F32_SPECIAL = [0x7fc00000, 0x7fc00001, 0xffc00000, 0x7f800001, 0x7f800000, 0xff800000, 0x80000000, 0x00000000,
               0x00000001, 0x7f7fffff, 0xff7fffff, 0x3f800000, 0x7fffffff, 0x007fffff]
TEXTS = ["", "a", " ", "abc", "äöü", "ß", "€", "日本語", "😀", "é", "‮abc", "x y\tz\n", "Ω≈ç√∫",
         "a" * 40, "\\", "\"", "'", "नमस्ते", "\U0001f469‍\U0001f4bb", "\x7f", "\x01"]


def extract(repo):
    out = dict(_ex.extract(repo))
    out.update(_ex2.extract(repo))
    out.update(_ex3.extract(repo))
    return out


# ---------------------------------------------------------------------------------------
# values <-> JSON


def _hex(s):
    return s.encode("utf-8").hex()


def _unhex(h):
    return bytes.fromhex(h).decode("utf-8")


def np_dtype(name):
    import nixio
    if name == "string":
        return nixio.DataType.String
    return np.dtype(name)


# ---------------------------------------------------------------------------------------
# spellings: the same element type / the same data written the way a user may write it.  The MEANING of a spelling
# is what NumPy says it is (np.dtype(spelling), np.asarray(spelled data)); the case keeps the meaning in its
# canonical fields ("dtype", "dt"/"shape"/"flat") and the spelling beside it ("dspell", "shspell", "sp").

NP_NAMES = ["uint8", "uint16", "uint32", "uint64", "int8", "int16", "int32", "int64", "float32", "float64", "bool_",
            "str_", "double", "single", "intc", "uintc", "longlong", "ulonglong", "short", "ushort", "byte", "ubyte",
            "intp", "uintp", "int_", "uint", "long", "ulong"]
NIX_MEMBERS = ["UInt8", "UInt16", "UInt32", "UInt64", "Int8", "Int16", "Int32", "Int64", "Float", "Double", "Bool",
               "String"]
DTYPE_OBJS = ["u1", "<u2", ">u2", "<u4", ">u4", "<u8", ">u8", "i1", "<i2", ">i2", "<i4", ">i4", "<i8", ">i8", "<f4",
              ">f4", "<f8", ">f8", "?", "U"]
TYPE_STRINGS = ["u1", "|u1", "u2", "<u2", ">u2", "=u2", "u4", "<u4", ">u4", "u8", "<u8", ">u8", "=u8", "i1", "|i1",
                "i2", "<i2", ">i2", "i4", "<i4", ">i4", "=i4", "i8", "<i8", ">i8", "f4", "<f4", ">f4", "=f4", "f8",
                "<f8", ">f8", "=f8", "b1", "|b1", "?", "b", "B", "h", "H", "i", "I", "l", "L", "q", "Q", "p", "P",
                "f", "d", "uint8", "uint16", "uint32", "uint64", "int8", "int16", "int32", "int64", "float32",
                "float64", "bool", "int", "uint", "float", "double", "single", "byte", "ubyte", "short", "ushort",
                "intc", "uintc", "long", "ulong", "longlong", "ulonglong", "int_", "intp", "uintp",
                "str", "U", "<U", "U3", "str_"]
PY_TYPES = {"bool": bool, "int": int, "float": float, "str": str}
ALL_DSPELL = (["py:" + n for n in PY_TYPES] + ["np:" + n for n in NP_NAMES] + ["nix:" + n for n in NIX_MEMBERS]
              + ["dt:" + n for n in DTYPE_OBJS] + ["s:" + n for n in TYPE_STRINGS])


def dspell_obj(key):
    """the Python object a dtype spelling stands for"""
    import nixio
    cls, _, name = key.partition(":")
    if cls == "py":
        return PY_TYPES[name]
    if cls == "np":
        return getattr(np, name)
    if cls == "nix":
        return getattr(nixio.DataType, name)
    if cls == "dt":
        return np.dtype(name)
    if cls == "s":
        return name
    raise core.InfraError("unknown dtype spelling %r" % (key,))


def canon_dtype(dt):
    """one of the 12 element types for what NumPy calls dt ('string' for its text type), None for anything else"""
    dt = np.dtype(dt)
    if dt.kind == "U":
        return "string"
    if dt.kind == "b":
        return "bool"
    if dt.kind in "iuf" and dt.name in DTYPES:
        return dt.name
    return None


def dspell_meaning(key):
    """what NumPy means by the spelling"""
    return canon_dtype(np.dtype(dspell_obj(key)))


def text_spelling_stored(key):
    """of the spellings NumPy reads as text: nixio's text type itself (DataType.String is np.str_) and NumPy dtype
    objects of kind U, which compare equal to it, create a text array; the builtin `str` and type strings reach
    h5py as they are, and h5py has no fixed-width unicode type (TypeError)"""
    return key in ("np:str_", "nix:String") or key.startswith("dt:")


_BY_MEANING = {}


def spellings_of(dtname):
    """all spelling keys NumPy reads as the element type dtname, grouped by class of spelling"""
    if not _BY_MEANING:
        for key in ALL_DSPELL:
            try:
                m = dspell_meaning(key)
            except Exception:
                m = None
            if m is not None:
                _BY_MEANING.setdefault(m, {}).setdefault(key.partition(":")[0], []).append(key)
    return _BY_MEANING.get(dtname, {})


def create_dtype_arg(c):
    """the dtype argument of create_data_array as the case spells it (default: numpy dtype object / DataType.String)"""
    if c.get("dspell"):
        return dspell_obj(c["dspell"])
    return np_dtype(c["dtype"])


def create_dtype_meaning(c):
    """(element type NumPy means by the dtype argument | None if not given, does nixio store it as given)"""
    if c["dtype"] is None:
        return None, True
    if c.get("dspell"):
        m = dspell_meaning(c["dspell"])
        return m, (m != "string" or text_spelling_stored(c["dspell"]))
    return ("string" if c["dtype"] == "numpytext" else c["dtype"]), c["dtype"] != "numpytext"


def create_shape_arg(c):
    shape = c["shape"]
    sp = c.get("shspell")
    if sp == "list":
        return list(shape)
    if sp == "npint":
        return tuple(np.int64(x) if i % 2 == 0 else np.int32(x) for i, x in enumerate(shape))
    if sp == "array":
        return np.array(shape, dtype=np.int64)
    return tuple(shape)


def _nested(x, seq):
    if isinstance(x, list):
        return seq(_nested(y, seq) for y in x)
    return x


def spell_arr(a):
    """ARR json -> the object handed to nixio: the canonical ndarray, or the same data spelled as the case says"""
    base = arr_to_np(a)
    sp = a.get("sp")
    if not sp:
        return base
    if sp == "list":
        return base.tolist()
    if sp == "tuple":
        return _nested(base.tolist(), tuple)
    if sp == "range":
        fl = [int(v) for v in base.reshape(-1)]
        step = (fl[1] - fl[0]) if len(fl) > 1 else 1
        return range(fl[0], fl[0] + step * len(fl), step)
    if sp == "mv":
        return memoryview(base)
    if sp == "strided":
        if base.ndim == 0:
            return base
        big = np.empty(tuple(2 * n + 1 for n in base.shape), dtype=base.dtype)
        if base.dtype == object:
            big[...] = "pad"
        else:
            big[...] = np.ones((), dtype=base.dtype)
        view = big[tuple(slice(1, 2 * n + 1, 2) for n in base.shape)]
        view[...] = base
        return view
    if sp == "fortran":
        return np.asfortranarray(base)
    if sp == "swapped":
        return base.byteswap().view(base.dtype.newbyteorder())
    if sp == "ustr":
        flat = [str(v) for v in base.reshape(-1)]
        width = max([len(s) for s in flat] + [1])
        return np.array(flat, dtype="<U%d" % width).reshape(base.shape)
    raise core.InfraError("unknown data spelling %r" % (sp,))


def arr_meaning(a):
    """(canonical ndarray, element type name) NumPy reads from the spelled data; None when it is not one of the 12
    element types (then the property says nothing about this source)"""
    if not a.get("sp"):
        return arr_to_np(a), a["dt"]
    x = np.asarray(spell_arr(a))
    dtn = canon_dtype(x.dtype) if x.dtype != object else "string"
    if dtn is None:
        return None, None
    if dtn == "string":
        out = np.empty(x.size, dtype=object)
        for i, v in enumerate(x.reshape(-1)):
            out[i] = str(v)
        return out.reshape(x.shape), dtn
    return np.asarray(x.astype(x.dtype.newbyteorder("=")), dtype=mirror_dtype(dtn), order="C"), dtn


def spelling_faithful(a):
    """does NumPy read the spelled data as exactly the canonical literal (type, shape, bit patterns)?"""
    try:
        x, dtn = arr_meaning(a)
    except Exception:
        return False
    return x is not None and dtn == a["dt"] and list(x.shape) == list(a["shape"]) and np_flat(x, dtn) == a["flat"]


def arr_to_np(a):
    """ARR json -> numpy array in the literal's own dtype (object array of str for text)"""
    dt, shape, flat = a["dt"], tuple(a["shape"]), a["flat"]
    if dt == "string":
        out = np.empty(shape, dtype=object)
        if shape == ():
            out[()] = _unhex(flat[0])
        else:
            fl = out.reshape(-1)
            for i, h in enumerate(flat):
                fl[i] = _unhex(h)
            out = fl.reshape(shape)
        return out
    if dt == "float64":
        return np.array(flat, dtype=np.uint64).view(np.float64).reshape(shape)
    if dt == "float32":
        return np.array(flat, dtype=np.uint32).view(np.float32).reshape(shape)
    if dt == "bool":
        return np.array(flat, dtype=np.bool_).reshape(shape)
    return np.array(flat, dtype=np.dtype(dt)).reshape(shape)


def np_flat(x, dtname):
    """numpy array -> list of canonical elements (bit patterns for floats, utf-8 hex for text)"""
    x = np.asarray(x)
    if dtname == "string":
        return [_hex(str(v)) for v in x.reshape(-1)]
    if dtname == "float64":
        return [int(v) for v in np.ascontiguousarray(x, dtype=np.float64).reshape(-1).view(np.uint64)]
    if dtname == "float32":
        return [int(v) for v in np.ascontiguousarray(x, dtype=np.float32).reshape(-1).view(np.uint32)]
    if dtname == "bool":
        return [bool(v) for v in x.reshape(-1)]
    return [int(v) for v in x.reshape(-1)]


def dtype_name(da):
    import nixio
    dt = da.dtype
    if da.data_type is nixio.DataType.String or dt == np.dtype(object):
        return "string"
    if dt == np.dtype(bool):
        return "bool"
    return np.dtype(dt).name


def _items(ix):
    """index argument JSON -> (form, items): legacy list = a tuple whose spelling the step number decides"""
    if isinstance(ix, dict):
        return ix["f"], ix["i"]
    return None, ix


def _item(i, npint=False):
    if i == "...":
        return Ellipsis
    if isinstance(i, int):
        return np.int64(i) if npint else i
    return slice(i[0], i[1], i[2])


def to_index(ix, npint=False):
    """the index as a tuple (numpy mirror / shape computations)"""
    return tuple(_item(i, npint) for i in _items(ix)[1])


def n_plain(ix):
    """number of index items that are not Ellipsis"""
    return sum(1 for i in _items(ix)[1] if i != "...")


def has_bad_step(ix):
    return any(isinstance(i, list) and i[2] is not None and i[2] < 1 for i in _items(ix)[1])


def spell_index(ix, k):
    """the index expression as a user would write it.  New format: the form is explicit (tuple / bare item /
    None).  Legacy lists: a one-component index is written bare (da[0], da[1:3]) on every other step and as a
    1-tuple otherwise (NumPy gives both the same meaning; nixio's code paths differ).  Every third step spells
    integers as numpy integers."""
    form, items = _items(ix)
    npint = (k % 3 == 2)
    t = tuple(_item(i, npint) for i in items)
    if form == "n":
        return None
    if form == "b":
        return t[0]
    if form == "t":
        return t
    if len(t) == 1 and k % 2 == 0:
        return t[0]
    return t


def err_name(e):
    for cls, nm in ((IndexError, "IndexError"), (OverflowError, "OverflowError"), (ValueError, "ValueError"),
                    (TypeError, "TypeError"), (KeyError, "KeyError"), (RuntimeError, "RuntimeError"),
                    (AttributeError, "AttributeError")):
        if isinstance(e, cls):
            return nm
    return type(e).__name__


def fill_of(dtname):
    if dtname == "string":
        return ""
    if dtname == "bool":
        return False
    return 0


def mirror_dtype(dtname):
    return object if dtname == "string" else np.dtype(dtname)


# ---------------------------------------------------------------------------------------
# executing a case on the real nixio (+ optional numpy mirror = the oracle)


class Session:
    def __init__(self, path, case):
        import nixio
        self.nixio = nixio
        self.path = path
        self.case = case
        self.fc = getattr(nixio.Compression, case["fc"])
        self.f = nixio.File.open(path, nixio.FileMode.Overwrite, compression=self.fc)
        self.b = self.f.create_block("blk", "t", compression=getattr(nixio.Compression, case["bc"]))
        if case.get("refetched"):
            self.b = self.f.blocks[0]
        self.da = None

    def create(self):
        c = self.case["create"]
        kw = {}
        if c["dtype"] is not None:
            kw["dtype"] = create_dtype_arg(c)
        if c["shape"] is not None:
            kw["shape"] = create_shape_arg(c)
        if c["data"] is not None:
            kw["data"] = spell_arr(c["data"])
        kw["compression"] = getattr(self.nixio.Compression, self.case["ac"])
        self.da = self.b.create_data_array("arr", "t", **kw)

    def reopen(self):
        self.f.close()
        self.f = self.nixio.File.open(self.path, self.nixio.FileMode.ReadWrite, compression=self.fc)
        self.b = self.f.blocks[0]
        self.da = self.b.data_arrays[0]

    def close(self):
        try:
            self.f.close()
        except Exception:
            pass

    def observe(self, r):
        try:
            return self._observe(r)
        except core.InfraError:
            raise
        except Exception as e:   # a read that raises is an observation too (never an infrastructure error)
            return {"r": r, "observe_error": "%s: %s" % (err_name(e), str(e)[:120])}

    def _observe(self, r):
        da = self.da
        dtn = dtype_name(da)
        whole = da[:]
        ext = [int(x) for x in da.shape]
        try:
            ln = int(len(da))
        except Exception as e:
            ln = err_name(e)
        ds = da._h5group.get_dataset("data").dataset
        return {"r": r, "dtype": dtn, "extent": ext, "len": ln, "size": int(da.size),
                "compressed": ds.compression == "gzip", "shape": [int(x) for x in whole.shape],
                "flat": np_flat(whole, dtn)}

    def other_reads(self, dtn):
        """the other observation points of the property: [...], read_direct, iteration over len"""
        da = self.da
        out = {}
        x = da[...]
        out["[...]"] = ([int(v) for v in x.shape], np_flat(x, dtn))
        buf = np.empty(tuple(da.shape), dtype=mirror_dtype(dtn))
        da.read_direct(buf)
        out["read_direct"] = ([int(v) for v in buf.shape], np_flat(buf, dtn))
        out["np.array"] = (lambda y: ([int(v) for v in y.shape], np_flat(y, dtn)))(np.array(da))
        if 0 < len(da.shape) and 0 < da.shape[0] <= 6:
            # iteration: one read per index of the first axis (a single value comes back as a length-1 array)
            rows = [np.asarray(row) for row in da]
            tail = [int(v) for v in da.shape[1:]]
            if all(list(r.shape) == (tail or [1]) for r in rows):
                out["iteration"] = ([len(rows)] + tail, [x for r in rows for x in np_flat(r, dtn)])
            else:
                out["iteration"] = ([list(r.shape) for r in rows], [])
        return out


def apply_step(sess, st, k=1):
    """returns 'ok' or the error class name; for read steps returns an observation dict"""
    with warnings.catch_warnings():
        # NumPy warns when a Python float in a list overflows the element type (inf is stored): not an error
        warnings.simplefilter("ignore", RuntimeWarning)
        return _apply_step(sess, st, k)


def _apply_step(sess, st, k=1):
    da = sess.da
    op = st[0]
    if op == "read":
        try:
            x = da[spell_index(st[1], k)]
            dtn = dtype_name(da)
            return {"r": "ok", "shape": [int(v) for v in x.shape], "flat": np_flat(x, dtn)}
        except Exception as e:
            return {"r": err_name(e)}
    try:
        if op == "write":
            da.write_direct(spell_arr(st[1]))
        elif op == "assign":
            da[spell_index(st[1], k)] = spell_arr(st[2])
        elif op == "append":
            if st[2] == 0 and k % 2 == 1:
                da.append(spell_arr(st[1]))             # the default axis
            else:
                da.append(spell_arr(st[1]), axis=(np.int64(st[2]) if k % 3 == 2 else st[2]))
        elif op == "resize":
            da.data_extent = tuple(st[1])
        elif op == "reopen":
            sess.reopen()
        else:
            raise core.InfraError("unknown step %r" % (op,))
    except core.InfraError:
        raise
    except Exception as e:
        return err_name(e)
    return "ok"


def run_impl(case, path):
    """the implementation's answer in the driver's output format"""
    sess = Session(path, case)
    try:
        try:
            sess.create()
        except Exception as e:
            return {"ok": {"create": err_name(e)}}
        out = {"create": "ok", "first": sess.observe("ok"), "steps": []}
        for k, st in enumerate(case["steps"]):
            r = apply_step(sess, st, k)
            if isinstance(r, dict):
                out["steps"].append(r)
            else:
                out["steps"].append(sess.observe(r))
        return {"ok": out}
    finally:
        sess.close()


def _worker_impl(args):
    k, case, path = args
    try:
        r = run_impl(case, path)
    except core.InfraError:
        raise
    except Exception as e:
        r = {"impl_exception": "%s: %s" % (type(e).__name__, str(e)[:200])}
    # a string is not tracked by the garbage collector: File.close() runs gc.collect(), so keeping thousands of
    # result dicts alive would make every later close slower (quadratic run time)
    return k, json.dumps(r)


def _worker_oracle(args):
    k, case, path = args
    try:
        f, n = oracle_case(case, path)
    except core.InfraError:
        raise
    except Exception as e:
        f, n = Failure("unexpected exception while writing/reading the array", case,
                       "%s: %s" % (type(e).__name__, str(e)[:200]), "no exception", "nixio"), 1
    return k, (json.dumps(f.to_json()) if f is not None else None), n


def parallel(ctx, fn, cases, tag):
    """run fn over the cases in a few forked workers (each worker has HDF5 files of its own under ctx.scratch);
    falls back to in-process execution when forking is not possible.  Everything alive now is frozen first."""
    import multiprocessing as mp
    _cheap_gc()
    nproc = max(1, min(6, (os.cpu_count() or 2) // 2))
    if nproc == 1 or len(cases) < 40:
        return [fn((k, c, ctx.tmpfile("%s-%d.nix" % (tag, k % 4)))) for k, c in enumerate(cases)]
    chunks = [[(k, cases[k], ctx.tmpfile("%s-w%d-%d.nix" % (tag, w, i % 4)))
               for i, k in enumerate(range(w, len(cases), nproc))] for w in range(nproc)]
    try:
        with mp.get_context("fork").Pool(nproc) as pool:
            parts = pool.map(_run_chunk, [(fn.__name__, ch) for ch in chunks])
    except (OSError, ValueError):
        return [fn((k, c, ctx.tmpfile("%s-%d.nix" % (tag, k % 4)))) for k, c in enumerate(cases)]
    out = [r for part in parts for r in part]
    out.sort(key=lambda r: r[0])
    return out


def _run_chunk(args):
    name, chunk = args
    fn = {"_worker_impl": _worker_impl, "_worker_oracle": _worker_oracle}[name]
    return [fn(j) for j in chunk]


# ---- numpy mirror (oracle) ------------------------------------------------------------------


def append_valid(shape, dshape, axis):
    """the property's own reading of 'appending along an axis': same rank, the axis exists, all other extents agree"""
    if len(shape) != len(dshape):
        return False
    if not isinstance(axis, int) or not (0 <= axis < len(shape)):
        return False
    return all(s == d for i, (s, d) in enumerate(zip(shape, dshape)) if i != axis)


def bcast_shape(dshape, tshape):
    """the source shape with surplus leading 1-extents stripped if it broadcasts to the target shape (NumPy rule:
    aligned from the last axis, every source extent is 1 or the target extent), else None"""
    ds = list(dshape)
    while len(ds) > len(tshape) and ds[0] == 1:
        ds = ds[1:]
    if len(ds) > len(tshape):
        return None
    for a, b in zip(reversed(ds), reversed(list(tshape))):
        if a != 1 and a != b:
            return None
    return ds


def kind_of(dtname):
    if dtname == "string":
        return "text"
    if dtname == "bool":
        return "bool"
    return "float" if dtname.startswith("float") else "int"


def convert_exact(d, src_dt, tgt_dt):
    """the data as values of the target element type if every element is exactly representable there (then the
    property fixes what a later read returns), else None (lossy or impossible conversion: the property is silent)"""
    if src_dt == tgt_dt:
        return d.astype(mirror_dtype(tgt_dt))
    ks, kt = kind_of(src_dt), kind_of(tgt_dt)
    if ks == "text" or kt == "text":
        return None
    with np.errstate(all="ignore"):
        try:
            if ks == "float" and kt in ("int", "bool"):
                if not np.all(np.isfinite(d)) or not np.all(d == np.trunc(d)):
                    return None
                ints = [int(x) for x in d.reshape(-1)]
            elif ks == "float":
                c = d.astype(np.dtype(tgt_dt))
                back = c.astype(d.dtype)
                if back.tobytes() != d.tobytes():
                    return None
                return c
            else:
                ints = [int(x) for x in d.reshape(-1)]
            if kt == "bool":
                if any(v not in (0, 1) for v in ints):
                    return None
                return np.array([bool(v) for v in ints], dtype=np.bool_).reshape(d.shape)
            if kt == "int":
                lo, hi = INT_RANGE[tgt_dt]
                if any(v < lo or v > hi for v in ints):
                    return None
                return np.array(ints, dtype=np.dtype(tgt_dt)).reshape(d.shape)
            # integers / booleans into a float type: exact iff the round trip returns the integer
            c = np.array([float(v) for v in ints], dtype=np.float64).astype(np.dtype(tgt_dt)).reshape(d.shape)
            if any((not np.isfinite(x)) or int(x) != v for x, v in zip(c.reshape(-1), ints)):
                return None
            return c
        except (OverflowError, ValueError):
            return None


def _mirror_assign(mirror, ix, d, src_dt, dtn):
    try:
        target = mirror[ix]
    except Exception:
        return "refuse", None
    tshape = np.shape(target)
    ds = bcast_shape(d.shape, tshape)
    if ds is None:
        if d.size == 0 and np.size(target) == 0:
            return "any", None          # nothing to store into nothing: h5py does not look at the surplus dimensions
        return "refuse", None
    conv = convert_exact(d, src_dt, dtn)
    if conv is None:
        return "any", None
    new = mirror.copy()
    src = conv.reshape(ds)
    if tshape == ():
        new[ix] = src.reshape(())[()]
    else:
        full = np.empty(tshape, dtype=mirror.dtype)
        full[...] = np.broadcast_to(src, tshape)
        new[ix] = full
    # data of another kind (a float for a boolean array ...): the storage layer may refuse it; if it takes it, the
    # exactly representable values must come back
    return ("ok" if kind_of(src_dt) == kind_of(dtn) else "maybe"), new


def in_h5py_hole(mirror, st):
    """write/assign whose source has a zero-length dimension beyond the rank of the target selection: h5py accepts
    it without a size check and copies from an empty buffer"""
    if st[0] == "write":
        ix, d = (slice(None),), st[1]
    elif st[0] == "assign":
        ix, d = to_index(st[1]), st[2]
        if _items(st[1])[0] == "n":
            ix = (slice(None),)
    else:
        return False
    try:
        tshape = np.shape(mirror[ix])
    except Exception:
        return False
    dshape = d["shape"]
    return 0 in dshape[:max(0, len(dshape) - len(tshape))]


def mirror_step(mirror, dtn, st):
    """expected outcome on the numpy mirror: ('ok', new) | ('refuse', None) | ('any', None)"""
    op = st[0]
    if op == "reopen":
        return "ok", mirror
    if op in ("write", "assign", "append"):
        src, src_dt = arr_meaning(st[2] if op == "assign" else st[1])
        if src is None:
            return "any", None          # a source NumPy does not read as one of the 12 element types
    if op == "write":
        return _mirror_assign(mirror, (slice(None),), src, src_dt, dtn)
    if op == "assign":
        if _items(st[1])[0] == "n":      # da[None] = x is nixio's spelling of "the whole array"
            return _mirror_assign(mirror, (slice(None),), src, src_dt, dtn)
        ix = to_index(st[1])
        if has_bad_step(st[1]):
            return "any", None          # numpy accepts negative steps, h5py does not: not a C01 matter
        if n_plain(st[1]) > mirror.ndim:
            return "refuse", None
        return _mirror_assign(mirror, ix, src, src_dt, dtn)
    if op == "append":
        d = np.ascontiguousarray(src)      # documented: the result has ndim >= 1
        if append_valid(mirror.shape, d.shape, st[2]):
            conv = convert_exact(d, src_dt, dtn)
            if conv is None:
                # data that cannot be stored exactly: if it has no elements the append still changes the shape
                if d.size == 0:
                    return "ok", np.concatenate([mirror, np.empty(d.shape, dtype=mirror.dtype)], axis=st[2])
                return "any", None
            return ("ok" if kind_of(src_dt) == kind_of(dtn) or d.size == 0 else "maybe"), \
                np.concatenate([mirror, conv], axis=st[2])
        return "refuse", None
    if op == "resize":
        ext = st[1]
        if len(ext) != mirror.ndim or any(e < 0 for e in ext):
            return "refuse", None
        new = np.empty(tuple(ext), dtype=mirror.dtype)
        new[...] = fill_of(dtn)
        common = tuple(slice(0, min(a, b)) for a, b in zip(mirror.shape, ext))
        new[common] = mirror[common]
        return "ok", new
    raise core.InfraError("unknown step %r" % (op,))


def expected_create(case):
    """('ok', dtype name, mirror) | ('maybe', ..) | ('refuse', ..) | ('any', ..) from the documented creation rules.
    The element type is what NumPy means by the dtype argument as it is spelled, the data what NumPy reads from the
    data argument as it is spelled.  'maybe': a spelling of text that the storage layer may refuse (the builtin
    `str`, 'U'); if the array is created it must be a text array like any other."""
    c = case["create"]
    meant, stored = create_dtype_meaning(c)
    if c["dtype"] is not None and meant is None:
        return "any", None, None      # a dtype argument outside the 12 element types
    ok = "ok" if stored else "maybe"
    if c["data"] is None:
        if c["shape"] is None:
            return "refuse", None, None
        dtn = meant or "float64"
        m = np.empty(tuple(c["shape"]), dtype=mirror_dtype(dtn))
        m[...] = fill_of(dtn)
        return ok, dtn, m
    src, src_dt = arr_meaning(c["data"])
    if src is None:
        return "any", None, None
    d = np.ascontiguousarray(src)
    if c["shape"] is not None and tuple(c["shape"]) != d.shape:
        return "refuse", None, None
    dtn = meant or src_dt
    if c["dtype"] is None and src_dt == "string":
        return "any", None, None      # text without dtype=DataType.String: refused by h5py (C12 looks at the leftovers)
    conv = convert_exact(d, src_dt, dtn)
    if conv is None:
        if d.size == 0 and kind_of(dtn) != "text" and kind_of(src_dt) != "text":
            conv = np.empty(d.shape, dtype=mirror_dtype(dtn))
        else:
            return "any", None, None  # data that the element type cannot hold exactly: the property is silent
    m = np.empty(d.shape, dtype=mirror_dtype(dtn))
    m[...] = conv
    if kind_of(src_dt) == "float" and kind_of(dtn) == "bool" and d.size:
        return "any", None, None      # h5py has no conversion from floats to booleans
    return ok, dtn, m


def _same(obs_shape, obs_flat, mirror, dtn):
    return list(obs_shape) == list(mirror.shape) and obs_flat == np_flat(mirror, dtn)


def _brief(mirror, dtn):
    return {"shape": list(mirror.shape), "flat": np_flat(mirror, dtn)[:64]}


def oracle_case(case, path):
    """run the history on nixio and on the numpy mirror; returns (failure | None, number of checked observations)"""
    n = 0
    exp, dtn, mirror = expected_create(case)
    sess = Session(path, case)
    try:
        try:
            sess.create()
            created = "ok"
        except Exception as e:
            created = err_name(e)
        if exp == "any":
            return None, 0
        if exp == "refuse":
            if created == "ok":
                return Failure("create_data_array accepted contradictory shape/data arguments", case, "created",
                               "refused", "Block.create_data_array"), 1
            return None, 1
        if created != "ok":
            if exp == "maybe":
                return None, 1
            return Failure("create_data_array refused valid arguments", case, created, "created",
                           "Block.create_data_array"), 1

        def check(where, k):
            nonlocal n
            obs = sess.observe("ok")
            n += 1
            if "observe_error" in obs:
                return Failure("reading the array raised (%s)" % where, dict(case, steps=case["steps"][:k]),
                               obs["observe_error"], _brief(mirror, dtn), "DataSet.__getitem__")
            if obs["dtype"] != dtn:
                return Failure("element type changed (%s)" % where, dict(case, steps=case["steps"][:k]), obs["dtype"],
                               dtn, "DataSet.dtype")
            if obs["extent"] != list(mirror.shape):
                return Failure("shape differs from what was written (%s)" % where, dict(case, steps=case["steps"][:k]),
                               obs["extent"], list(mirror.shape), "DataSet.data_extent")
            if not _same(obs["shape"], obs["flat"], mirror, dtn):
                return Failure("read returns other elements than were written (%s)" % where,
                               dict(case, steps=case["steps"][:k]), {"shape": obs["shape"], "flat": obs["flat"][:64]},
                               _brief(mirror, dtn), "DataSet.__getitem__")
            if obs["size"] != int(mirror.size) or obs["len"] != (mirror.shape[0] if mirror.ndim else obs["len"]):
                return Failure("len/size inconsistent with the shape (%s)" % where,
                               dict(case, steps=case["steps"][:k]), [obs["len"], obs["size"]],
                               [mirror.shape[0] if mirror.ndim else None, int(mirror.size)], "DataSet.len/size")
            for name, (shp, flat) in sess.other_reads(dtn).items():
                n += 1
                if shp != list(mirror.shape) or flat != np_flat(mirror, dtn):
                    return Failure("read path %s returns other elements than were written (%s)" % (name, where),
                                   dict(case, steps=case["steps"][:k]), {"shape": shp, "flat": flat[:64]},
                                   _brief(mirror, dtn), "DataSet.%s" % name)
            return None

        f = check("after creation", 0)
        if f:
            return f, n
        for k, st in enumerate(case["steps"], 1):
            if st[0] == "read":
                r = apply_step(sess, st, k)
                try:
                    want = mirror if _items(st[1])[0] == "n" else mirror[to_index(st[1])]
                except Exception:
                    want = None
                if want is not None and n_plain(st[1]) <= mirror.ndim and not has_bad_step(st[1]):
                    n += 1
                    if r["r"] != "ok":
                        return Failure("valid region read was refused", dict(case, steps=case["steps"][:k]), r["r"],
                                       "the written elements", "DataSet.__getitem__"), n
                    want = np.asarray(want, dtype=mirror.dtype)
                    wshape = list(want.shape) if want.ndim else [1]
                    if r["shape"] != wshape or r["flat"] != np_flat(want, dtn):
                        return Failure("region read returns other elements than were written",
                                       dict(case, steps=case["steps"][:k]), r,
                                       {"shape": wshape, "flat": np_flat(want, dtn)[:64]}, "DataSet.__getitem__"), n
                continue
            exp, new = mirror_step(mirror, dtn, st)
            r = apply_step(sess, st, k)
            if exp == "maybe":
                exp = "ok" if r == "ok" else "any"
            if exp == "any":
                if r != "ok":
                    f = check("after refused step %d %s" % (k, st[0]), k)
                    if f:
                        return f, n
                    continue
                # accepted a write whose meaning the oracle does not fix: resynchronise the mirror from a read
                obs = sess.observe("ok")
                if "observe_error" in obs:
                    return Failure("reading the array raised", dict(case, steps=case["steps"][:k]),
                                   obs["observe_error"], "the stored elements", "DataSet.__getitem__"), n + 1
                mirror = arr_to_np({"dt": dtn, "shape": obs["shape"], "flat": obs["flat"]}).astype(
                    mirror_dtype(dtn)) if dtn != "string" else arr_to_np(
                    {"dt": dtn, "shape": obs["shape"], "flat": obs["flat"]})
                continue
            if exp == "refuse":
                if r == "ok":
                    obs = sess.observe("ok")
                    return Failure("%s that cannot be performed was neither performed nor refused" % st[0],
                                   dict(case, steps=case["steps"][:k]),
                                   {"result": "accepted", "shape": obs.get("shape"), "flat": (obs.get("flat") or [])[:64]},
                                   "refused (an error) and the array unchanged", "DataSet.%s" % st[0]), n + 1
                f = check("after refused step %d %s" % (k, st[0]), k)
                if f:
                    return f, n
                continue
            # exp == ok
            if r != "ok":
                return Failure("valid %s was refused" % st[0], dict(case, steps=case["steps"][:k]), r,
                               "accepted; later reads return the written data", "DataSet.%s" % st[0]), n + 1
            mirror = new
            f = check("after step %d %s" % (k, st[0]), k)
            if f:
                return f, n
        # the property's last clause: same after close + reopen
        sess.reopen()
        f = check("after final close/reopen", len(case["steps"]))
        if f:
            return f, n
        return None, n
    finally:
        sess.close()


# ---------------------------------------------------------------------------------------
# generators


class Gen:
    def __init__(self, rng):
        self.rng = rng
        self.dist = {}
        # an array stored byte-swapped (dtype '>i4', or the type taken from byte-swapped data) is converted from / to
        # other element types by libhdf5's software path, whose lossy results (wrap instead of saturation, NaN
        # payloads) differ from the native one the model describes: such arrays get sources of their own type only
        self.same_only = False

    def tag(self, k):
        self.dist[k] = self.dist.get(k, 0) + 1

    def elem(self, dt):
        r = self.rng
        if dt in INT_RANGE:
            lo, hi = INT_RANGE[dt]
            c = r.random()
            if c < 0.35:
                return r.choice([lo, hi, 0, 1, hi - 1, lo + 1, -1 if lo < 0 else hi // 2])
            if c < 0.7:
                return r.randint(max(lo, -100), min(hi, 100))
            return r.randint(lo, hi)
        if dt == "float64":
            return r.choice(F64_SPECIAL) if r.random() < 0.45 else r.getrandbits(64)
        if dt == "float32":
            return r.choice(F32_SPECIAL) if r.random() < 0.45 else r.getrandbits(32)
        if dt == "bool":
            return r.random() < 0.5
        if r.random() < 0.8:
            return _hex(r.choice(TEXTS))
        return _hex("".join(r.choice(["a", "Z", "é", "日", "😀", " ", "0", "ñ", "́"]) for _ in range(r.randint(0, 6))))

    def small_int_elem(self):
        return self.rng.randint(0, 100)

    FLOATS = [0.0, -0.0, 1.0, -1.0, 0.5, -0.5, 0.999, 1.5, -1.5, 2.0, 7.0, 100.25, 127.0, 128.0, 255.0, 256.0, -128.0,
              -129.0, 32767.0, 65535.0, 65536.0, 16777216.0, 3e9, -3e9, 2147483520.0, 4294967040.0, 1e19, -1e19,
              9.2233720368547e18, 1.84467440737095e19, 1e30, -1e30, float("inf"), float("-inf"), 1e-30, -1e-30]
    FORBIDDEN = (2.0 ** 31, 2.0 ** 32, 2.0 ** 63, 2.0 ** 64)

    def conv_elem(self, src, tgt):
        """an element of type `src` destined for an array of another type `tgt`"""
        import struct
        r = self.rng
        ks, kt = kind_of(src), kind_of(tgt)
        if ks == "int":
            lo, hi = INT_RANGE[src]
            c = r.random()
            if c < 0.45:
                return r.randint(0, min(hi, 100))
            if c < 0.6 and kt == "bool":
                return r.randint(0, 1)
            return self.elem(src)
        if ks == "float" and kt == "int":
            # NaN and the rounded-up upper bounds of the 32/64-bit integer types are not fixed by C (see NdConv.lean)
            x = r.choice(self.FLOATS) if r.random() < 0.6 else (
                float(r.randint(-300, 300)) if r.random() < 0.6 else r.uniform(-70000.0, 70000.0))
            if src == "float32":
                x = struct.unpack("<f", struct.pack("<f", x))[0]
                if abs(x) in self.FORBIDDEN:
                    x = 1.0
                return struct.unpack("<I", struct.pack("<f", x))[0]
            if abs(x) in self.FORBIDDEN:
                x = 1.0
            return struct.unpack("<Q", struct.pack("<d", x))[0]
        if ks == "float" and kt == "float" and r.random() < 0.4:
            x = r.choice(self.FLOATS + [3.4028234663852886e38, 3.4028235677973366e38, 3.40282357e38, 1e-45, 7e-46,
                                        1.1754943508222875e-38, 1.0000000596046448, 1.0000001788139343, 16777217.0])
            if src == "float32":
                try:
                    return struct.unpack("<I", struct.pack("<f", x))[0]
                except OverflowError:
                    return 0x7f800000
            return struct.unpack("<Q", struct.pack("<d", x))[0]
        return self.elem(src)

    def arr(self, dt, shape, small=False, tgt=None):
        n = 1
        for s in shape:
            n *= s
        if tgt is not None and tgt != dt:
            return {"dt": dt, "shape": list(shape), "flat": [self.conv_elem(dt, tgt) for _ in range(n)]}
        return {"dt": dt, "shape": list(shape),
                "flat": [self.small_int_elem() if small else self.elem(dt) for _ in range(n)]}

    def spell(self, a, tgt_dt, op):
        """maybe spell the source array another way (nested list / tuple / range / memoryview / non-contiguous /
        Fortran-ordered / byte-swapped / fixed-width text array).  create_data_array and append turn the argument
        into an ndarray first (np.ascontiguousarray), so every spelling means np.asarray(spelling); a whole-array
        write or region assignment hands anything that is not an ndarray to h5py, which reads it with the array's own
        element type: a memoryview is used there for data of the array's element type only; lists, tuples and ranges
        of Python numbers for every numeric element type (the model casts them as NumPy does)."""
        r = self.rng
        if r.random() >= 0.3:
            return a
        dt, shape = a["dt"], a["shape"]
        size = len(a["flat"])
        opts = []
        if len(shape) >= 1:
            opts.append("strided")
        if len(shape) >= 2:
            opts.append("fortran")
        same = dt == tgt_dt or (op == "create" and tgt_dt is None)
        # byte-swapped floats of another width go through libhdf5's software conversion, which does not keep NaN
        # payloads (a NaN stays a NaN: not a C01 matter) - swapped floats only as data of the array's own type
        # (and libhdf5 wraps a byte-swapped integer into the integer type of the same width and other signedness
        # where it saturates a native one: lossy either way, but not what the model describes)
        def width(n):
            return n.lstrip("uint")
        if dt not in ("uint8", "int8", "bool", "string") and (same or (
                dt in INT_RANGE and tgt_dt in INT_RANGE and width(dt) != width(tgt_dt))):
            opts.append("swapped")
        # text that NumPy holds as a fixed-width array ('<U…': from a list, or given so) has no HDF5 type: h5py
        # refuses it for a numeric array with another exception class than an object array - text spellings only
        # as data for text arrays (or at creation without dtype, where both are refused alike)
        text_ok = dt != "string" or same
        if dt == "string" and text_ok:
            opts.append("ustr")
        free = (op in ("create", "append") or dt == tgt_dt) and text_ok
        # lists / tuples / ranges of Python numbers in a write or assignment are cast by NumPy to the array's element
        # type (Pure/NdSeq.lean: OverflowError outside the range, truncation of floats, ValueError for NaN)
        if (free or dt != "string") and size > 0 and dt in ("int64", "float64", "bool", "string"):
            opts += ["list", "tuple"]
            if dt == "int64" and len(shape) == 1:
                fl = a["flat"]
                d = fl[1] - fl[0] if size > 1 else 1
                if d != 0 and all(fl[i + 1] - fl[i] == d for i in range(size - 1)):
                    opts += ["range"] * 3
        if free and dt != "string":
            opts.append("mv")
        if not opts:
            return a
        b = dict(a, sp=r.choice(opts))
        if not spelling_faithful(b):
            self.tag("spell.unfaithful." + b["sp"])
            return a
        self.tag("spell.data.%s.%s" % (op, b["sp"]))
        return b

    def spell_dtype(self, create):
        """maybe spell the dtype argument another way: a builtin type, a NumPy scalar type, a nixio.DataType member,
        a np.dtype object (also byte-swapped), a type string - any spelling NumPy reads as the same element type"""
        r = self.rng
        dt = create["dtype"]
        if dt is None or r.random() < 0.45:
            return
        by_class = spellings_of(dt)
        d = create["data"]
        if d is not None and d["dt"] != dt:
            by_class = {k: [x for x in v if ">" not in x] for k, v in by_class.items()}
        if dt == "string":
            by_class = {k: [x for x in v if text_spelling_stored(x)] for k, v in by_class.items()}
            by_class = {k: v for k, v in by_class.items() if v}
        if not by_class:
            return
        cls = r.choice(sorted(by_class))
        create["dspell"] = r.choice(by_class[cls])
        self.tag("spell.dtype." + cls)

    def extent(self):
        return self.rng.choice([0, 1, 1, 2, 2, 2, 3, 3, 4])

    def shape(self):
        rank = self.rng.choice([1, 1, 2, 2, 2, 3, 3, 4])
        return [self.extent() for _ in range(rank)]

    def data_dt(self, dt):
        """element type of a source array: mostly the array's own; otherwise any of the 12 (converted by HDF5 or
        refused).  Second component: the array's type when the source has another one (steers the values)."""
        r = self.rng
        if r.random() < 0.72 or self.same_only:
            return dt, None
        c = r.random()
        if c < 0.45:
            ddt = r.choice(INTS)
        elif c < 0.75:
            ddt = r.choice(["float32", "float64"])
        elif c < 0.9:
            ddt = "bool"
        else:
            ddt = "string"
        if ddt == dt:
            return dt, None
        self.tag("src.kind.%s->%s" % (kind_of(ddt), kind_of(dt)))
        return ddt, dt

    def ix(self, n, bad_ok=True):
        r = self.rng
        c = r.random()
        if c < 0.3:
            if n == 0 or (bad_ok and r.random() < 0.06):
                return r.choice([n, n + 1, -n - 1, -n - 2])
            return r.randint(-n, n - 1)

        def bound():
            x = r.random()
            if x < 0.35:
                return None
            if x < 0.9:
                return r.randint(-n - 1, n + 1)
            return r.choice([-n - 3, n + 3, 100, -100])
        st = r.choice([None, None, None, 1, 1, 2, 2, 3])
        if bad_ok and r.random() < 0.03:
            st = r.choice([0, -1, -2])
        return [bound(), bound(), st]

    def ixs(self, shape, bad_ok=True):
        """an index argument in the explicit format: tuple / bare item / None, items possibly Ellipsis"""
        r = self.rng
        rank = len(shape)
        if r.random() < 0.02:
            self.tag("index.none")
            return {"f": "n", "i": []}
        c = r.random()
        if c < 0.7:
            k = rank
        elif c < 0.95 or not bad_ok:
            k = r.randint(0, rank)
        else:
            k = rank + r.randint(1, 2)
        items = [self.ix(shape[i] if i < rank else 2, bad_ok) for i in range(k)]
        if r.random() < 0.18:
            # Ellipsis: drop some items (so that it stands for 0..rank axes), insert it anywhere
            drop = r.randint(0, min(len(items), rank))
            pos = r.randint(0, len(items) - drop)
            tail_shape = shape[pos + drop:]
            tail = [self.ix(tail_shape[i] if i < len(tail_shape) else 2, bad_ok) for i in range(len(items) - drop - pos)]
            items = items[:pos] + ["..."] + tail
            self.tag("index.ellipsis")
            if bad_ok and r.random() < 0.06:
                items.insert(r.randint(0, len(items)), "...")
                self.tag("index.two-ellipses")
        if len(items) == 1 and r.random() < 0.5:
            self.tag("index.bare")
            return {"f": "b", "i": items}
        return {"f": "t", "i": items}

    def sel_shape(self, shape, ixs):
        """array shape of the selection (None when numpy refuses the index)"""
        try:
            if _items(ixs)[0] == "n":
                return list(shape)
            return list(np.empty(tuple(shape), dtype=np.int8)[to_index(ixs)].shape)
        except Exception:
            return None

    def source_shape(self, tshape):
        """shape of a source for a target selection shape: exact, broadcastable or wrong"""
        r = self.rng
        c = r.random()
        if c < 0.55:
            self.tag("src.exact")
            return list(tshape)
        if c < 0.65:
            self.tag("src.scalar")
            return []
        if c < 0.9:
            self.tag("src.broadcast")
            s = [(1 if r.random() < 0.4 else x) for x in tshape]
            while s and s[0] == 1 and r.random() < 0.5:
                s = s[1:]
            if r.random() < 0.2:
                s = [1] * r.randint(1, 2) + s
            return s
        if c < 0.935:
            # a source without elements (refused for a selection with elements, /repo 61e9077)
            self.tag("src.empty")
            s = list(tshape)
            if s and r.random() < 0.5:
                s[r.randrange(len(s))] = 0
            else:
                s = [0] + s
            return s
        self.tag("src.mismatch")
        s = list(tshape)
        if s and r.random() < 0.7:
            i = r.randrange(len(s))
            s[i] = s[i] + r.choice([1, 2]) if r.random() < 0.7 else max(1, s[i] - 1) + 1
        else:
            s = [2] + s
        return s

    def step(self, dt, shape):
        """one step for an array of the given current shape; returns (step, new shape or None if it may be refused)"""
        r = self.rng
        rank = len(shape)
        c = r.random()
        if c < 0.13:
            ddt, conv = self.data_dt(dt)
            if r.random() < 0.7:
                self.tag("write.exact")
                return ["write", self.spell(self.arr(ddt, shape, tgt=conv), dt, "write")], shape
            s = self.source_shape(shape)
            self.tag("write.other")
            return ["write", self.spell(self.arr(ddt, s, tgt=conv), dt, "write")], shape
        if c < 0.43:
            ixs = self.ixs(shape)
            ts = self.sel_shape(shape, ixs)
            ddt, conv = self.data_dt(dt)
            if ts is None:
                self.tag("assign.badindex")
                return ["assign", ixs, self.spell(self.arr(ddt, [self.rng.randint(0, 2)], tgt=conv), dt, "assign")], shape
            self.tag("assign")
            return ["assign", ixs, self.spell(self.arr(ddt, self.source_shape(ts), tgt=conv), dt, "assign")], shape
        if c < 0.7:
            ddt, conv = self.data_dt(dt)
            x = r.random()
            if x < 0.04 and rank == 1:
                # a single value (0-d array / Python scalar): np.ascontiguousarray makes it a length-1 array
                self.tag("append.scalar")
                return ["append", self.spell(self.arr(ddt, [], tgt=conv), dt, "append"), 0], [shape[0] + 1]
            if x < 0.72:
                axis = r.randrange(rank)
                ds = list(shape)
                ds[axis] = r.choice([0, 1, 1, 2, 2, 3])
                self.tag("append.valid")
                new = list(shape)
                new[axis] += ds[axis]
                return ["append", self.spell(self.arr(ddt, ds, tgt=conv), dt, "append"), axis], new
            if x < 0.84:
                # axis that names no dimension, shapes equal (the D15 class) or not
                axis = r.choice([-1, rank, -rank, rank + 1, -2, 7])
                if axis == 0:
                    axis = -1
                ds = list(shape)
                if r.random() < 0.3 and rank:
                    ds[r.randrange(rank)] += 1
                self.tag("append.badaxis")
                return ["append", self.spell(self.arr(ddt, ds, tgt=conv), dt, "append"), axis], shape
            if x < 0.93:
                axis = r.randrange(rank)
                ds = list(shape)
                ds[axis] = r.choice([1, 2])
                if rank > 1:
                    j = r.choice([i for i in range(rank) if i != axis])
                    ds[j] += r.choice([1, 2])
                    self.tag("append.shapemismatch")
                    return ["append", self.spell(self.arr(ddt, ds, tgt=conv), dt, "append"), axis], shape
                self.tag("append.valid")
                new = list(shape)
                new[axis] += ds[axis]
                return ["append", self.spell(self.arr(ddt, ds, tgt=conv), dt, "append"), axis], new
            ds = list(shape) + [1] if r.random() < 0.5 else list(shape)[1:]
            self.tag("append.rankmismatch")
            return ["append", self.spell(self.arr(ddt, ds, tgt=conv), dt, "append"), r.randrange(rank)], shape
        if c < 0.82:
            x = r.random()
            if x < 0.85:
                self.tag("resize.valid")
                new = [r.choice([0, 1, 2, 2, 3, 3, 4, 5, s, s]) for s in shape]
                return ["resize", new], new
            if x < 0.93:
                self.tag("resize.rank")
                return ["resize", [2] * (rank + r.choice([-1, 1]))], shape
            self.tag("resize.negative")
            new = [r.choice([1, 2]) for _ in shape]
            new[r.randrange(rank)] = -r.randint(1, 3)
            return ["resize", new], shape
        if c < 0.9:
            self.tag("reopen")
            return ["reopen"], shape
        self.tag("read")
        return ["read", self.ixs(shape)], shape

    def case(self, triple=None, refetched=None):
        r = self.rng
        fc, bc, ac = triple if triple else (r.choice(COMPR), r.choice(COMPR), r.choice(COMPR))
        dt = r.choice(DTYPES)
        shape = self.shape()
        c = r.random()
        create = {"dtype": None, "shape": None, "data": None}
        cur = shape
        cdt = dt
        if c < 0.02:
            # a single value as data: the array has shape (1,)
            create["data"] = self.arr(dt, [])
            shape = [1]
            if dt == "string" or r.random() < 0.3:
                create["dtype"] = dt
            if r.random() < 0.3:
                create["shape"] = [1]
            self.tag("create.data.scalar")
        elif c < 0.45:
            create["data"] = self.arr(dt, shape)
            if dt == "string" or r.random() < 0.3:
                create["dtype"] = dt
            self.tag("create.data")
        elif c < 0.55:
            # dtype argument differs from the data's: any pair of the 12 types (converted, or refused by h5py)
            ddt = r.choice(DTYPES)
            if ddt == dt:
                ddt = r.choice(INTS)
            cdt = dt
            create["data"] = self.arr(ddt, shape, tgt=dt) if ddt != dt else self.arr(ddt, shape)
            create["dtype"] = dt
            self.tag("create.data+otherdtype.%s->%s" % (kind_of(ddt), kind_of(dt)))
        elif c < 0.67:
            create["data"] = self.arr(dt, shape)
            create["dtype"] = dt if (dt == "string" or r.random() < 0.5) else None
            create["shape"] = list(shape)
            if r.random() < 0.25:
                bad = list(shape)
                if r.random() < 0.5:
                    bad[r.randrange(len(bad))] += 1
                else:
                    bad = bad[::-1] if bad[::-1] != bad else bad + [1]
                create["shape"] = bad
                cur = None
                self.tag("create.data+shape.mismatch")
            else:
                self.tag("create.data+shape")
        elif c < 0.8:
            create["shape"] = list(shape)
            create["dtype"] = dt
            self.tag("create.shape+dtype")
        elif c < 0.9:
            create["shape"] = list(shape)
            cdt = "float64"
            self.tag("create.shape")
        elif c < 0.95:
            create["data"] = self.arr("string", shape)
            cur = None
            self.tag("create.text-without-dtype")
        else:
            create["dtype"] = dt if r.random() < 0.5 else None
            cur = None
            self.tag("create.nothing")
        if create["data"] is not None:
            create["data"] = self.spell(create["data"], create["dtype"], "create")
        self.spell_dtype(create)
        if create["dtype"] == "string" and not create.get("dspell") and r.random() < 0.2:
            # text the way NumPy spells it (`str`, 'U', '<U3' ...): reaches h5py as fixed-width unicode
            create["dspell"] = r.choice([k for ks in spellings_of("string").values() for k in ks
                                         if not text_spelling_stored(k)])
            self.tag("spell.dtype.text-not-nixio")
        self.same_only = ">" in (create.get("dspell") or "") or (
            create["dtype"] is None and create["data"] is not None and create["data"].get("sp") == "swapped")
        if self.same_only:
            self.tag("create.byte-swapped-array")
        if create["data"] is None and create["shape"] is not None and r.random() < 0.3:
            create["shspell"] = r.choice(["list", "npint", "array"])
            self.tag("spell.shape." + create["shspell"])
        steps = []
        # the generator follows the array exactly (numpy mirror), so that "valid"/"malformed" tags mean what they say
        exp, dtn, mirror = expected_create({"create": create})
        if exp == "ok":
            size_cap = 600
            for _ in range(r.randint(2, 12)):
                st, _new = self.step(dtn, list(mirror.shape))
                if in_h5py_hole(mirror, st):
                    self.tag("src.zero-length-surplus")
                e2, new = mirror_step(mirror, dtn, st) if st[0] != "read" else ("ok", mirror)
                if e2 == "maybe":
                    # performed iff the storage layer converts this pair of kinds (the generator may know that: it
                    # only steers the shapes of later steps)
                    e2 = "ok" if kind_of(st[1 if st[0] != "assign" else 2]["dt"]) != "float" or kind_of(dtn) != "bool" \
                        else "any"
                if e2 == "ok":
                    if new.size > size_cap:
                        continue
                    mirror = new
                steps.append(st)
        return {"fc": fc, "bc": bc, "ac": ac,
                "refetched": (r.random() < 0.2) if refetched is None else refetched,
                "create": create, "steps": steps}


FIXED_CASES = [
    # D15 (fixed by /repo bb106e8): axis that names no dimension with equal shapes overwrote from offset 0
    {"fc": "Auto", "bc": "Auto", "ac": "Auto", "refetched": False,
     "create": {"dtype": None, "shape": None, "data": {"dt": "int64", "shape": [2], "flat": [1, 2]}},
     "steps": [["append", {"dt": "int64", "shape": [2], "flat": [7, 8]}, 1]]},
    {"fc": "Auto", "bc": "Auto", "ac": "Auto", "refetched": False,
     "create": {"dtype": None, "shape": None, "data": {"dt": "int64", "shape": [2], "flat": [1, 2]}},
     "steps": [["append", {"dt": "int64", "shape": [2], "flat": [7, 8]}, -1]]},
    {"fc": "DeflateNormal", "bc": "Auto", "ac": "Auto", "refetched": False,
     "create": {"dtype": None, "shape": None, "data": {"dt": "float64", "shape": [2, 2], "flat": [1, 2, 3, 4]}},
     "steps": [["append", {"dt": "float64", "shape": [2, 2], "flat": [5, 6, 7, 8]}, 2], ["reopen"],
               ["append", {"dt": "float64", "shape": [2, 2], "flat": [5, 6, 7, 8]}, -2]]},
    # an index that is falsy in Python (0, the empty tuple) addresses one row / the whole array - never "no index"
    {"fc": "Auto", "bc": "Auto", "ac": "Auto", "refetched": False,
     "create": {"dtype": None, "shape": None, "data": {"dt": "int32", "shape": [3, 2], "flat": [1, 2, 3, 4, 5, 6]}},
     "steps": [["assign", {"f": "b", "i": [0]}, {"dt": "int32", "shape": [2], "flat": [7, 8]}],
               ["read", {"f": "b", "i": [1]}], ["assign", {"f": "t", "i": [0]}, {"dt": "int32", "shape": [], "flat": [9]}],
               ["read", {"f": "t", "i": []}], ["assign", {"f": "t", "i": []}, {"dt": "int32", "shape": [], "flat": [4]}],
               ["assign", {"f": "t", "i": [0, 0]}, {"dt": "int32", "shape": [], "flat": [-1]}],
               ["read", {"f": "b", "i": ["..."]}], ["reopen"], ["read", {"f": "n", "i": []}]]},
    # chunks without elements still have an extent along the append axis; all-ones shapes keep their rank on a read
    {"fc": "No", "bc": "No", "ac": "DeflateNormal", "refetched": False,
     "create": {"dtype": "float32", "shape": [3, 0], "data": None},
     "steps": [["append", {"dt": "float32", "shape": [2, 0], "flat": []}, 0],
               ["append", {"dt": "float32", "shape": [5, 2], "flat": list(range(0x3f800000, 0x3f80000a))}, 1],
               ["resize", [1, 1]], ["read", {"f": "t", "i": [[0, 1, None], [0, 1, None]]}],
               ["read", {"f": "t", "i": [0, "..."]}], ["read", {"f": "t", "i": [0, 0]}], ["reopen"]]},
    # data of another kind: converted (saturation, truncation, rounding) or refused - a refused append restores
    {"fc": "Auto", "bc": "DeflateNormal", "ac": "Auto", "refetched": True,
     "create": {"dtype": "int8", "shape": None, "data": {"dt": "int64", "shape": [3], "flat": [-300, 5, 300]}},
     "steps": [["append", {"dt": "string", "shape": [2], "flat": ["61", "62"]}, 0],
               ["append", {"dt": "float64", "shape": [2], "flat": [0x4060200000000000, 0xbff8000000000000]}, 0],
               ["append", {"dt": "bool", "shape": [1], "flat": [True]}, 0],
               ["assign", {"f": "t", "i": [[0, 0, None]]}, {"dt": "string", "shape": [0], "flat": []}],
               ["assign", {"f": "b", "i": [-1]}, {"dt": "uint64", "shape": [], "flat": [2 ** 64 - 1]}], ["reopen"]]},
    {"fc": "Auto", "bc": "Auto", "ac": "No", "refetched": False,
     "create": {"dtype": "bool", "shape": [2], "data": None},
     "steps": [["append", {"dt": "float64", "shape": [1], "flat": [0x3ff0000000000000]}, 0],
               ["write", {"dt": "int16", "shape": [2], "flat": [256, 0]}],
               ["append", {"dt": "float32", "shape": [0], "flat": []}, 0]]},
    {"fc": "Auto", "bc": "Auto", "ac": "Auto", "refetched": False,
     "create": {"dtype": "float32", "shape": None,
                "data": {"dt": "float64", "shape": [4], "flat": [0x47efffffefffffff, 0x3ff0000010000000,
                                                                  0x7ff0000000000001, 0x36a0000000000000]}},
     "steps": [["append", {"dt": "int64", "shape": [2], "flat": [16777217, -(2 ** 63)]}, 0],
               ["append", {"dt": "string", "shape": [1], "flat": [""]}, 0]]},
    # sources that are Python sequences: h5py reads them with the array's element type (NumPy's cast: OverflowError
    # outside the range where array data saturates, floats truncated, NaN ValueError, inf OverflowError)
    {"fc": "Auto", "bc": "Auto", "ac": "Auto", "refetched": False,
     "create": {"dtype": "int8", "shape": [2], "data": None, "dspell": "s:i1"},
     "steps": [["write", {"dt": "int64", "shape": [2], "flat": [5, 300], "sp": "list"}],
               ["write", {"dt": "int64", "shape": [2], "flat": [5, 300]}],
               ["assign", {"f": "t", "i": [[0, 2, None]]},
                {"dt": "float64", "shape": [2], "flat": [0x3ff8000000000000, 0xbff8000000000000], "sp": "tuple"}],
               ["assign", {"f": "b", "i": [0]}, {"dt": "float64", "shape": [], "flat": [0x7ff8000000000000], "sp": "list"}],
               ["assign", {"f": "b", "i": [1]}, {"dt": "float64", "shape": [], "flat": [0xfff0000000000000], "sp": "list"}],
               ["assign", {"f": "b", "i": [1]}, {"dt": "bool", "shape": [], "flat": [True], "sp": "list"}],
               ["write", {"dt": "int64", "shape": [2], "flat": [-128, -127], "sp": "range"}], ["reopen"],
               ["append", {"dt": "int64", "shape": [2], "flat": [300, -300], "sp": "list"}, 0]]},
    {"fc": "Auto", "bc": "Auto", "ac": "No", "refetched": False,
     "create": {"dtype": "float32", "shape": [3], "data": None, "dspell": "nix:Float"},
     "steps": [["write", {"dt": "int64", "shape": [3], "flat": [16777217, -(2 ** 63), 2 ** 62 + 2 ** 37 + 1], "sp": "list"}],
               ["assign", {"f": "t", "i": [[1, 3, None]]},
                {"dt": "float64", "shape": [2], "flat": [0x47efffffefffffff, 0x3ff0000010000000], "sp": "tuple"}],
               ["write", {"dt": "float64", "shape": [3], "flat": [0x47efffffefffffff] * 3}]]},
    # append after shrink-then-grow, zero extents
    {"fc": "No", "bc": "DeflateNormal", "ac": "Auto", "refetched": False,
     "create": {"dtype": "int16", "shape": [2, 3], "data": None},
     "steps": [["write", {"dt": "int16", "shape": [2, 3], "flat": [1, 2, 3, 4, 5, 6]}], ["resize", [1, 2]],
               ["resize", [3, 3]], ["append", {"dt": "int16", "shape": [3, 2], "flat": [9, 9, 9, 9, 9, 9]}, 1],
               ["resize", [0, 5]], ["append", {"dt": "int16", "shape": [2, 5], "flat": list(range(10))}, 0],
               ["reopen"], ["read", [[None, None, 2], -1]]]},
]


def spelling_sweep():
    """every dtype spelling of the table once: created by shape, written, reopened / created from data of another
    type (the model reads the spelling with its own table, Pure/NdSpell.lean; the mirror with np.dtype)"""
    out = []
    vals = {"float64": [0x3fb999999999999a, 0x7ff8000000000001], "float32": [0x3dcccccd, 0x7fc00001]}
    for i, key in enumerate(ALL_DSPELL):
        m = dspell_meaning(key)
        if m is None:
            continue
        if m == "string":
            flat = [_hex("é"), _hex("")]
        elif m == "bool":
            flat = [True, False]
        elif m in vals:
            flat = vals[m]
        else:
            flat = [INT_RANGE[m][0], INT_RANGE[m][1]]
        lit = {"dt": m, "shape": [2], "flat": flat}
        if i % 2 == 0 or m == "string":
            create = {"dtype": m, "dspell": key, "shape": [2], "data": None}
            steps = [["write", lit], ["reopen"], ["append", lit, 0]]
        else:
            create = {"dtype": m, "dspell": key, "shape": None,
                      "data": {"dt": "int8", "shape": [3], "flat": [1, 0, 1]} if ">" not in key else
                      dict(lit, shape=[2])}
            steps = [["append", lit, 0], ["reopen"]]
        out.append({"fc": "Auto", "bc": "Auto", "ac": COMPR[i % 3], "refetched": False, "create": create,
                    "steps": steps})
    return out


def reported_types(path):
    """for every element type (native, and stored byte-swapped): an array of that type, and the element type of
    arrays created with dtype=<what the first reports as data_type / dtype>: [(dtype name, getter, result)]"""
    import nixio
    out = []
    f = nixio.File.open(path, nixio.FileMode.Overwrite)
    try:
        b = f.create_block("blk", "t")
        for i, dtn in enumerate(DTYPES):
            for j, arg in enumerate([np_dtype(dtn)] + ([np.dtype(dtn).newbyteorder(">")] if dtn not in (
                    "uint8", "int8", "bool", "string") else [])):
                a = b.create_data_array("a%d_%d" % (i, j), "t", dtype=arg, shape=(2,))
                for which in ("data_type", "dtype"):
                    try:
                        c = b.create_data_array("c%d_%d_%s" % (i, j, which), "t", dtype=getattr(a, which), shape=(1,))
                        r = dtype_name(c)
                    except Exception as e:
                        r = err_name(e)
                    out.append((dtn, which, r))
    finally:
        f.close()
    return out


def gen_cases(ctx):
    g = Gen(ctx.rng)
    cases = []
    n = ctx.budget(5400, 30000)
    triples = [(a, b, c) for a in COMPR for b in COMPR for c in COMPR]
    for i in range(n):
        t = triples[i % 27]
        ref = None if i >= 54 else (i >= 27)
        cases.append(g.case(t, ref))
    return cases, g


def nontrivial(case, out):
    o = out.get("ok") or {}
    if o.get("create") != "ok":
        return True
    return any(s.get("r") == "ok" and s.get("flat") for s in o.get("steps", [])) or any(
        s.get("r") not in ("ok", None) for s in o.get("steps", []))


def _shrink(ctx, case, k=0):
    """delta debugging over the step list: drop steps while model and implementation still differ"""
    cur = case
    budget = 60
    changed = True
    while changed and budget > 0:
        changed = False
        for i in range(len(cur["steps"]) - 1, -1, -1):
            cand = dict(cur, steps=cur["steps"][:i] + cur["steps"][i + 1:])
            budget -= 1
            if budget <= 0:
                break
            try:
                m = core.run_driver(PROP, [cand])[0]
                im = run_impl(cand, ctx.tmpfile("shrink%d.nix" % k))
            except Exception:
                continue
            if m != im:
                cur = cand
                changed = True
                break
    return cur


def _cheap_gc():
    """File.close() calls gc.collect(); freezing the objects that exist now makes that call cheap"""
    import gc
    gc.collect()
    gc.freeze()


def correspondence(ctx):
    _cheap_gc()
    cases, g = gen_cases(ctx)
    corpus = core.load_corpus(PROP)
    sweep = spelling_sweep()
    cases = corpus + FIXED_CASES + sweep + cases
    triples = [["resolve", a, b, c, r] for a in COMPR for b in COMPR for c in COMPR for r in (False, True)]
    model = core.run_driver(PROP, cases + triples)
    model_cases, model_triples = model[:len(cases)], model[len(cases):]
    disagreements = []
    seen = set()
    errs_impl, errs_model = {}, {}
    ranks, dts, nsteps = {}, {}, 0
    compr_seen = set()
    impl_out = [r[1] for r in parallel(ctx, _worker_impl, cases, "c")]
    for k, (c, m) in enumerate(zip(cases, model_cases)):
        im = json.loads(impl_out[k])
        if m != im:
            disagreements.append(Disagreement(c, m, im))
        o = im.get("ok", {})
        if o.get("create") != "ok":
            errs_impl["create:" + str(o.get("create"))] = errs_impl.get("create:" + str(o.get("create")), 0) + 1
        else:
            first = o.get("first", {})
            compr_seen.add((c["fc"], c["bc"], c["ac"], bool(c["refetched"]), first.get("compressed")))
            rk = len(first.get("extent", []))
            ranks[rk] = ranks.get(rk, 0) + 1
            dts[first.get("dtype")] = dts.get(first.get("dtype"), 0) + 1
        for st, s in zip(c["steps"], o.get("steps", [])):
            nsteps += 1
            if s.get("r") != "ok":
                key = "%s:%s" % (st[0], s.get("r"))
                errs_impl[key] = errs_impl.get(key, 0) + 1
        mo = m.get("ok", {}) if isinstance(m, dict) else {}
        for st, s in zip(c["steps"], (mo.get("steps") or [])):
            if s.get("r") != "ok":
                key = "%s:%s" % (st[0], s.get("r"))
                errs_model[key] = errs_model.get(key, 0) + 1
        if nontrivial(c, im):
            seen.add(core.canon(c))
    # compression resolution: complete table, the gzip filter of a really created dataset vs the model
    import nixio
    for t, m in zip(triples, model_triples):
        c = {"fc": t[1], "bc": t[2], "ac": t[3], "refetched": t[4],
             "create": {"dtype": None, "shape": [2], "data": None}, "steps": []}
        im = run_impl(c, ctx.tmpfile("t.nix"))
        try:
            im = run_impl(c, ctx.tmpfile("t.nix"))
        except Exception as e:
            im = {"impl_exception": "%s: %s" % (type(e).__name__, str(e)[:200])}
        got = {"ok": im["ok"]["first"].get("compressed")} if im.get("ok", {}).get("create") == "ok" else im
        if got != m:
            disagreements.append(Disagreement(t, m, got))
    # what an array reports as its element type, used as the dtype argument of another array
    reported = reported_types(ctx.tmpfile("rep.nix"))
    rep_model = core.run_driver(PROP, [["reported", dtn, which] for dtn, which, _ in reported])
    for (dtn, which, r), m in zip(reported, rep_model):
        if m != {"ok": r}:
            disagreements.append(Disagreement(["reported", dtn, which], m, {"ok": r}))
    shrunk = []
    for k, d in enumerate(disagreements[:3]):
        if isinstance(d.case, dict) and d.case.get("steps"):
            small = _shrink(ctx, d.case, k)
            if small is not d.case:
                try:
                    shrunk.append(Disagreement(small, core.run_driver(PROP, [small])[0],
                                               run_impl(small, ctx.tmpfile("s.nix"))))
                except Exception:
                    pass
    disagreements = shrunk + disagreements
    idx = sorted(ctx.rng.sample(range(len(cases)), min(4, len(cases))))
    samples = [{"case": cases[k], "model": model_cases[k]} for k in idx]
    return {"evaluations": len(cases) + len(triples) + len(reported), "distinct_nontrivial": len(seen),
            "rule": "one case = one history (creation + 2..12 write/assign/append/resize/reopen/read steps) on one "
                    "array in a fresh file, observed after every step (dtype, extent, len, size, gzip filter, complete "
                    "content by bit pattern); ranks 1-4, extents 0-4(5), 12 element types with extremes/NaN payloads/"
                    "inf/-0/non-ASCII text, every file x block x array compression triple (cyclic) x created/re-fetched "
                    "block handle, plus the complete 54-entry resolution table against the gzip filter of a really "
                    "created dataset; ~25% of steps malformed (bad axis, rank/shape mismatch, bad index, bad source "
                    "shape, negative extent). non-trivial = some step changed/returned content or some call was "
                    "refused; distinct by canonical JSON of the case",
            "samples": samples,
            "distribution": {"ops": g.dist, "impl_errors": errs_impl, "model_errors": errs_model, "ranks": ranks,
                             "dtypes": dts, "steps": nsteps, "corpus": len(corpus), "fixed": len(FIXED_CASES),
                             "dtype_spellings_swept": len(sweep),
                             "compression_outcomes": len(compr_seen)},
            "disagreements": disagreements, "exhaustive": False}


# ---------------------------------------------------------------------------------------
# property oracle


def oracle(ctx, broken, hints):
    _cheap_gc()
    g = Gen(ctx.rng)
    cases = []
    for h in hints[:50]:
        if isinstance(h, dict):
            cases.append(h)
    cases += FIXED_CASES
    cases += [c for c in core.load_corpus(PROP) if isinstance(c, dict)]
    cases += spelling_sweep()
    n = ctx.budget(1000, 6000)
    if broken:
        n = ctx.budget(5000, 30000)
    triples = [(a, b, c) for a in COMPR for b in COMPR for c in COMPR]
    for i in range(n):
        cases.append(g.case(triples[i % 27]))
    failures = []
    seen = set()
    checked = 0
    evaluated = 0
    # in batches, hints / fixed cases / corpus first: once a batch has produced failing inputs the search stops
    # (after a broken obligation the budget is large; a failing input is usually found in the first batch)
    first = len(cases) - n + min(n, 600)
    batches = [cases[:first]] + [cases[i:i + 2400] for i in range(first, len(cases), 2400)]
    for batch in batches:
        if not batch:
            continue
        evaluated += len(batch)
        for k, fj, n_obs in parallel(ctx, _worker_oracle, batch, "o"):
            checked += n_obs
            f = Failure(**json.loads(fj)) if fj is not None else None
            if f is not None:
                key = f.what
                if key not in seen or len(failures) < 5:
                    seen.add(key)
                    failures.append(f)
                if len(failures) >= 20:
                    break
        if failures:
            break
    # an array created with the element type another array reports has that array's element type
    for dtn, which, r in reported_types(ctx.tmpfile("orep.nix")):
        evaluated += 1
        if r != dtn:
            failures.append(Failure("an array created with dtype=<other array>.%s has another element type" % which,
                                    ["reported", dtn, which], r, dtn, "DataArray.%s" % which))
    failures.sort(key=lambda f: len(core.canon(f.input)))
    return {"evaluations": evaluated, "observations_checked": checked, "failures": failures,
            "large_budget": bool(broken)}


def matches_known(entry, failure):
    return False


def replay_failure(ctx, fj):
    if isinstance(fj["input"], list) and fj["input"][:1] == ["reported"]:
        for dtn, which, r in reported_types(ctx.tmpfile("replay-rep.nix")):
            if [dtn, which] == fj["input"][1:] and r != dtn:
                return Failure(fj["what"], fj["input"], r, dtn, "DataArray.%s" % which)
        return None
    f, _ = oracle_case(fj["input"], ctx.tmpfile("replay.nix"))
    return f


READY = True
MANIFEST = {
    "level_text": "Kernel-checked theorems (44, no Mathlib, axioms within propext/Classical.choice/Quot.sound) over a "
                  "Lean model of nixio's array I/O logic, tied to the source by a compiler: on every run "
                  "harness/extract/datasetshape.py compiles DataSet.append (every check, comprehension, the resize, "
                  "the hyperslab write, the restore-on-failure), __getitem__/__setitem__/write_direct/len/shape/size/"
                  "_read_data/_write_data/data_extent, H5DataSet.write_data (empty-source guard, `slc is None`)/"
                  "read_data/shape, DataArray._read_data (single-value rule) and the dtype/shape/data rules of "
                  "Block.create_data_array from the Python source into Lean definitions, and C01_source_* prove "
                  "these equal, for all inputs, to the hand-written model (the driver of the correspondence executes "
                  "the compiled definitions); the compression enum and resolution statements are regenerated too. "
                  "Proved for all inputs and histories: append = concatenation pointwise on every multi-index for "
                  "every rank, axis and extent incl. 0 (also with data of another element kind, converted), "
                  "ValueError otherwise; every list of write/assign/append/resize/reopen steps reads back the fold "
                  "of a reference semantics (functional update per multi-index), last write wins; with typed data "
                  "(any of the 12 element types per step): a step that raised nothing is the step of its erasure, a "
                  "step that raised leaves shape, content, element type and filter flag as they were (append "
                  "restores the extent), the history reads back the fold over exactly the performed steps, stored "
                  "elements are always values of the element type, conversion is the identity on values of the "
                  "target type; complete refused-kinds table; creation reads back the (converted) data; the read "
                  "rule (selection shape, shape (1,) only for rank-0 selections, IndexError for every selection "
                  "error); Ellipsis expansion; shrink-then-grow fill values; content never depends on the gzip "
                  "flag; complete 3x3x3x2 resolution table. Spellings of the dtype argument (builtin types, NumPy scalar types, "
                  "DataType members, dtype objects of either byte order, type strings): the DataType members and the "
                  "calls that hand the argument to h5py are regenerated from the source, and every spelling NumPy reads "
                  "as an element type t creates exactly what dtype=t creates; a created array has the element type NumPy "
                  "means by the spelling; what an array reports as its element type (compiled getters data_type / dtype) "
                  "names that type, and an array created with it has the same element type. Sources that are Python sequences in a write / assignment (h5py casts them "
                  "with NumPy): the cast yields values of the element type, is the identity on them, refuses integers "
                  "out of range (OverflowError), NaN (ValueError), inf; a refused step leaves the array unchanged, a "
                  "performed one is the array step with the cast values; every history that mixes array and sequence "
                  "sources is the array-source history a defined translation computes (same length), so the fold "
                  "theorem, type stability and typedness carry over.",
    "level_note": "Partial by nature: libhdf5/h5py storage (extent change, hyperslab write, selection normalisation, "
                  "source broadcasting, element conversion, gzip, close/reopen, variable-length strings) is an "
                  "executable stand-in inside the model; it is exercised, not proved, by the differential runs "
                  "(thousands of seeded histories per run on real HDF5 files in forked workers, all 12 element "
                  "types as array and as source type incl. NaN payloads/-0/extremes/non-ASCII text, ranks 1-4, "
                  "extents 0-5, dtype arguments in 148 spellings (complete sweep per run), sources as arrays / nested "
                  "lists / tuples / ranges / memoryviews / strided / Fortran-ordered / byte-swapped / fixed-width text "
                  "arrays, shapes as tuple / list / NumPy integers / array, index arguments as None / bare item / "
                  "tuple with Python and numpy integers, slices and Ellipsis, empty and zero-length-surplus sources, every compression triple, reopen at random "
                  "points, bit-pattern comparison after every step) and by the independent numpy-mirror oracle. "
                  "Outside the model: NaN or a float equal to 2^31/2^32/2^63/2^64 written into an integer array (C "
                  "leaves the result undefined), NUL in text, 0-d arrays, boolean masks / index lists (C06). "
                  "Statements the compiler only pins as text (string decoding after a read, calibration, name and "
                  "compression handling of create_data_array, dtype getters, H5DataSet.__init__) are modelled by "
                  "hand. Trusted: Lean kernel; the two translators; the correspondence harness.",
    "technique": "Lean 4 proof (structural induction over shapes and histories, pointwise refinement to a reference "
                 "semantics, equality of source-compiled definitions with the model, case analysis over the "
                 "regenerated compression enum) with differential correspondence on real HDF5 files and a "
                 "numpy-mirror property oracle",
}
