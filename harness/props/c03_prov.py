"""C03 oracle, part 2: handles of every provenance.

An entity can be reached through many paths: the value returned by `create_*`, the owning container by name / id /
position / negative position / iteration / `items()`, every link list that holds it (by position, id, name,
iteration), every role link that points to it (`multi_tag.positions` / `extents`, `x.metadata`, `section.link`,
`feature.data`), the tree searches (`find_sections`, `find_sources`), a handle fetched earlier and kept across other
operations, a handle fetched after reopening.  The property says that for every container length, iteration, indexing,
lookup by name / id and the membership tests describe the SAME sequence of entities - so whichever handle presents
the entity:

* `h in c` is True for the container that owns it and False for a container (of the same kind of entity) that does
  not - another block's, another parent's - even when that one holds an entity of the same name;
* `h in link_list` is True exactly when the entity is linked there;
* `c[h.name]`, `c[h.id]` yield that entity;
* `del c[h]` removes exactly that entity, `del link_list[h]` exactly that link, `link_list.append(h)` links it last.

The bookkeeping (what each container must hold, in creation order) is kept here, independently of nixio.
"""
import os
from collections import OrderedDict

import nixio
from nixio.exceptions import DuplicateName

from ..lib import storegen
from ..lib.core import Failure

NAMES = storegen.NAMES_PLAIN + storegen.NAMES_UUIDISH
FRAME_COLS = (("a", int), ("b", float))


class Own:
    """an owning container: label, how to open it, how to create in it, its family (= kind of entity + where
    handles of that kind may legitimately be compared), the expected creation-ordered (name, id) list"""

    def __init__(self, label, kind, block, getter, creator):
        self.label, self.kind, self.block, self.getter, self.creator = label, kind, block, getter, creator
        self.items = []


class Lnk:
    """a link list: label, kind of entity linked, block, how to open it, which owning containers its targets live in"""

    def __init__(self, label, kind, block, getter, stores):
        self.label, self.kind, self.block, self.getter, self.stores = label, kind, block, getter, stores
        self.items = []


class Role:
    """a single link: label, getter, setter, kind, block, expected target id"""

    def __init__(self, label, kind, block, getter, setter, stores):
        self.label, self.kind, self.block, self.getter, self.setter, self.stores = label, kind, block, getter, setter, stores
        self.target = None


class ProvScene:
    def __init__(self, ctx, rng, tag):
        self.rng = rng
        self.path = ctx.tmpfile("c03-prov-%s.nix" % tag)
        self.f = nixio.File.open(self.path, nixio.FileMode.Overwrite)
        self.fails, self.log = [], []
        self.created, self.kept, self.cache = {}, {}, {}
        self.owns, self.links, self.roles = OrderedDict(), OrderedDict(), OrderedDict()
        self.protected = set()
        self.pool = rng.sample(NAMES, 4) + ["pos"]       # few names: the same ones turn up under every parent
        self._build()

    # -- construction -------------------------------------------------------------------------------------------
    def _own(self, label, kind, block, getter, creator):
        self.owns[label] = Own(label, kind, block, getter, creator)

    def P(self, bn, what):
        """the fixed parents, opened once between two mutations (addressing by iteration, not by the dispatch under
        test)"""
        key = (bn, what)
        if key not in self.cache:
            if what == "blk":
                h = self._item(self.f.blocks, bn)
            elif what == "sec":
                h = self._item(self.f.sections, "sec")
            elif what == "sec2":
                h = self._item(self.f.sections, "sec2")
            elif what == "sub":
                h = self._item(self.P(None, "sec").sections, "sub")
            elif what == "src":
                h = self._item(self.P(bn, "blk").sources, "src")
            elif what == "deep":
                h = self._item(self.P(bn, "src").sources, "deep")
            else:
                cn = {"g": "groups", "tg": "tags", "mt": "multi_tags", "arr": "data_arrays", "pos": "data_arrays"}[what]
                h = self._item(getattr(self.P(bn, "blk"), cn), what)
            self.cache[key] = h
        return self.cache[key]

    def open(self, t):
        """the container object of an Own / Lnk, opened once between two mutations"""
        if t.label not in self.cache:
            self.cache[t.label] = t.getter()
        return self.cache[t.label]

    def _build(self):
        P = self.P
        self._own("file.blocks", "block", None, lambda: self.f.blocks, lambda n: self.f.create_block(n, "t"))
        self._own("file.sections", "section", None, lambda: self.f.sections, lambda n: self.f.create_section(n, "t"))
        self._own("sec.sections", "section", None, lambda: P(None, "sec").sections,
                  lambda n: P(None, "sec").create_section(n, "t"))
        self._own("sec.sub.sections", "section", None, lambda: P(None, "sub").sections,
                  lambda n: P(None, "sub").create_section(n, "t"))
        self.create("file.sections", "sec", fixed=True)
        self.create("file.sections", "sec2", fixed=True)
        self.create("sec.sections", "sub", fixed=True)
        self.create("sec.sub.sections", "sec", fixed=True)          # the same name at another depth
        secs = ["file.sections", "sec.sections", "sec.sub.sections"]
        for bn in ("blk", "oth"):
            self.create("file.blocks", bn, fixed=True)
            self._per_block(bn, secs)
        self._role("sec2.link", "section", None, lambda: P(None, "sec2").link,
                   lambda h: setattr(P(None, "sec2"), "link", h), secs)
        self.log = []        # the fixed part is described by `scene`, the history starts here

    def _per_block(self, bn, secs):
        P = self.P
        B = bn + "."
        O, L, R = self._own, self._lnk, self._role
        O(B + "data_arrays", "data_array", bn, lambda: P(bn, "blk").data_arrays,
          lambda n: P(bn, "blk").create_data_array(n, "t", data=[1.0, 2.0]))
        O(B + "data_frames", "data_frame", bn, lambda: P(bn, "blk").data_frames,
          lambda n: P(bn, "blk").create_data_frame(n, "t", col_dict=OrderedDict(FRAME_COLS)))
        O(B + "tags", "tag", bn, lambda: P(bn, "blk").tags, lambda n: P(bn, "blk").create_tag(n, "t", [0.0]))
        O(B + "multi_tags", "multi_tag", bn, lambda: P(bn, "blk").multi_tags,
          lambda n: P(bn, "blk").create_multi_tag(n, "t", positions=P(bn, "pos")))
        O(B + "groups", "group", bn, lambda: P(bn, "blk").groups, lambda n: P(bn, "blk").create_group(n, "t"))
        O(B + "sources", "source", bn, lambda: P(bn, "blk").sources, lambda n: P(bn, "blk").create_source(n, "t"))
        O(B + "src.sources", "source", bn, lambda: P(bn, "src").sources, lambda n: P(bn, "src").create_source(n, "t"))
        O(B + "src.deep.sources", "source", bn, lambda: P(bn, "deep").sources,
          lambda n: P(bn, "deep").create_source(n, "t"))
        self.create(B + "data_arrays", "pos", fixed=True)
        self.create(B + "sources", "src", fixed=True)
        self.create(B + "src.sources", "deep", fixed=True)
        self.create(B + "src.sources", "src", fixed=True)       # same name as its parent
        self.create(B + "groups", "g", fixed=True)
        self.create(B + "tags", "tg", fixed=True)
        self.create(B + "multi_tags", "mt", fixed=True)
        self.create(B + "data_arrays", "arr", fixed=True)
        srcs = [B + "sources", B + "src.sources", B + "src.deep.sources"]
        L(B + "g.data_arrays", "data_array", bn, lambda: P(bn, "g").data_arrays, [B + "data_arrays"])
        L(B + "g.data_frames", "data_frame", bn, lambda: P(bn, "g").data_frames, [B + "data_frames"])
        L(B + "g.tags", "tag", bn, lambda: P(bn, "g").tags, [B + "tags"])
        L(B + "g.multi_tags", "multi_tag", bn, lambda: P(bn, "g").multi_tags, [B + "multi_tags"])
        L(B + "g.sources", "source", bn, lambda: P(bn, "g").sources, srcs)
        L(B + "tg.references", "data_array", bn, lambda: P(bn, "tg").references, [B + "data_arrays"])
        L(B + "mt.references", "data_array", bn, lambda: P(bn, "mt").references, [B + "data_arrays"])
        L(B + "arr.sources", "source", bn, lambda: P(bn, "arr").sources, srcs)
        L(B + "tg.sources", "source", bn, lambda: P(bn, "tg").sources, srcs)
        L(B + "mt.sources", "source", bn, lambda: P(bn, "mt").sources, srcs)
        R(B + "mt.positions", "data_array", bn, lambda: P(bn, "mt").positions,
          lambda h: setattr(P(bn, "mt"), "positions", h), [B + "data_arrays"])
        R(B + "mt.extents", "data_array", bn, lambda: P(bn, "mt").extents,
          lambda h: setattr(P(bn, "mt"), "extents", h), [B + "data_arrays"])
        for nm in ("blk", "g", "tg", "mt", "arr", "src"):
            R(B + nm + ".metadata", "section", None, (lambda nm: lambda: P(bn, nm).metadata)(nm),
              (lambda nm: lambda h: setattr(P(bn, nm), "metadata", h))(nm), secs)
        pos_id = self._id(B + "data_arrays", "pos")
        self.roles[B + "mt.positions"].target = pos_id
        self.protected.add(pos_id)
        P(bn, "tg").create_feature(P(bn, "pos"), "untagged")
        R(B + "tg.features[0].data", "data_array", bn, lambda: P(bn, "tg").features[0].data,
          lambda h: setattr(P(bn, "tg").features[0], "data", h), [B + "data_arrays"])
        self.roles[B + "tg.features[0].data"].target = pos_id

    def _lnk(self, label, kind, block, getter, stores):
        self.links[label] = Lnk(label, kind, block, getter, stores)

    def _role(self, label, kind, block, getter, setter, stores):
        self.roles[label] = Role(label, kind, block, getter, setter, stores)

    @staticmethod
    def _item(cont, name):
        """addressing inside the scene never uses the dispatch under test: iterate and compare names"""
        for e in cont:
            if e.name == name:
                return e
        raise LookupError(name)

    def _id(self, label, name):
        return next(i for n, i in self.owns[label].items if n == name)

    def history(self):
        return [["scene", "two blocks 'blk' / 'oth' with the same fixed members (pos, arr, g, tg, mt, src > deep, src), "
                          "sections sec > sub > sec, sec2"]] + list(self.log)

    def fail(self, what, observed, required, site, extra=None):
        self.fails.append(Failure(what, self.history() + ([extra] if extra else []), observed, required, site))

    # -- mutations ----------------------------------------------------------------------------------------------
    def create(self, label, nm, fixed=False):
        tr = self.owns[label]
        self.cache.clear()
        self.log.append(["create", label, nm])
        if nm in [n for n, _ in tr.items]:
            try:
                tr.creator(nm)
                self.fail("second entity under an existing name accepted", "created", "DuplicateName", label)
            except DuplicateName:
                pass
            except Exception as ex:
                self.fail("duplicate name refused with %s" % type(ex).__name__, type(ex).__name__, "DuplicateName", label)
            return None
        try:
            e = tr.creator(nm)
        except Exception as ex:
            self.fail("legal name, free in this container, refused with %s: %s" % (type(ex).__name__, ex),
                      type(ex).__name__, "created", label)
            return None
        tr.items.append((nm, e.id))
        self.created[e.id] = e
        if fixed:
            self.protected.add(e.id)
        return e

    def owner_of(self, i):
        for tr in self.owns.values():
            for n, j in tr.items:
                if j == i:
                    return tr, n
        return None, None

    def forget(self, i):
        """the entity with id i is gone: every list / role that showed it no longer does"""
        for tr in self.owns.values():
            tr.items = [x for x in tr.items if x[1] != i]
        for ll in self.links.values():
            ll.items = [x for x in ll.items if x[1] != i]
        for r in self.roles.values():
            if r.target == i:
                r.target = None
        self.created.pop(i, None)
        self.kept.pop(i, None)

    def deletable(self):
        busy = {r.target for r in self.roles.values() if r.kind == "data_array"}
        return [(tr, n, i) for tr in self.owns.values() for n, i in tr.items if i not in self.protected and i not in busy]

    def delete(self):
        cand = self.deletable()
        if not cand:
            return
        tr, nm, i = self.rng.choice(cand)
        desc, h = self.pick_route(tr, nm, i)
        if h is None:
            return
        self.log.append(["delete by object", tr.label, nm, "handle: " + desc])
        self.cache.pop(tr.label, None)
        try:
            del self.open(tr)[h]
        except Exception as ex:
            self.fail("delete by entity object refused with %s (handle obtained through %s)" % (
                type(ex).__name__, route_class(desc)), type(ex).__name__, "deleted", tr.label)
            return
        self.cache.clear()
        self.forget(i)
        self.check_own(tr)
        for ll in self.links.values():
            if ll.kind == tr.kind:
                self.check_link(ll)

    def link_targets(self, ll):
        return [(self.owns[s], n, i) for s in ll.stores for n, i in self.owns[s].items]

    def append(self):
        ll = self.rng.choice(list(self.links.values()))
        cand = self.link_targets(ll)
        if not cand:
            return
        tr, nm, i = self.rng.choice(cand)
        desc, h = self.pick_route(tr, nm, i)
        if h is None:
            return
        self.log.append(["append", ll.label, nm, "handle: " + desc])
        try:
            self.open(ll).append(h)
        except Exception as ex:
            self.fail("append of an entity of the same block refused with %s (handle obtained through %s)" % (
                type(ex).__name__, route_class(desc)), type(ex).__name__, "appended", ll.label)
            return
        self.cache.clear()
        ll.items = [x for x in ll.items if x[1] != i] + [(nm, i)]
        self.check_link(ll)

    def unlink(self):
        lls = [ll for ll in self.links.values() if ll.items]
        if not lls:
            return
        ll = self.rng.choice(lls)
        nm, i = self.rng.choice(ll.items)
        tr, _ = self.owner_of(i)
        desc, h = self.pick_route(tr, nm, i)
        if h is None:
            return
        self.log.append(["unlink by object", ll.label, nm, "handle: " + desc])
        try:
            del self.open(ll)[h]
        except Exception as ex:
            self.fail("unlink by entity object refused with %s (handle obtained through %s)" % (
                type(ex).__name__, route_class(desc)), type(ex).__name__, "unlinked", ll.label)
            return
        self.cache.clear()
        ll.items = [x for x in ll.items if x[1] != i]
        self.check_link(ll)
        self.check_own(tr)

    def set_role(self):
        r = self.rng.choice(list(self.roles.values()))
        cand = [(self.owns[s], n, i) for s in r.stores for n, i in self.owns[s].items]
        if not cand:
            return
        tr, nm, i = self.rng.choice(cand)
        desc, h = self.pick_route(tr, nm, i)
        if h is None:
            return
        self.log.append(["set", r.label, nm, "handle: " + desc])
        try:
            r.setter(h)
            r.target = i
        except Exception:
            # whether a role accepts the entity is not this property's statement; the membership test that the
            # setter consults is checked directly by `check_entity`
            self.log[-1].append("(refused)")
            self.cache.clear()
            self.resync(r)
        self.cache.clear()

    def resync(self, r):
        try:
            cur = r.getter()
            r.target = cur.id if cur is not None else None
        except Exception:
            r.target = None

    def keep(self):
        tr = self.rng.choice([t for t in self.owns.values() if t.items])
        nm, i = self.rng.choice(tr.items)
        desc, h = self.pick_route(tr, nm, i, fresh_only=True)
        if h is not None:
            self.kept.setdefault(i, [])
            if len(self.kept[i]) < 3:
                self.kept[i].append((desc, h))
                self.log.append(["keep handle", tr.label, nm, desc])

    def reopen(self):
        self.log.append(["reopen"])
        self.f.close()
        self.created, self.kept, self.cache = {}, {}, {}
        if self.rng.random() < 0.5:
            self.f = nixio.File.open(self.path, nixio.FileMode.ReadOnly)
            self.log[-1] = ["reopen read-only"]
            self.check_some(3)
            self.f.close()
            self.log[-1] = ["reopen"]
            self.cache = {}
        self.f = nixio.File.open(self.path, nixio.FileMode.ReadWrite)

    # -- routes -------------------------------------------------------------------------------------------------
    def routes(self, tr, nm, i, fresh_only=False):
        """(description, thunk) for every path that leads to the entity (nm, i) owned by tr"""
        out = []
        pos, n = tr.items.index((nm, i)), len(tr.items)
        c = lambda: self.open(tr)                # noqa: E731
        out.append(("%s[%d]" % (tr.label, pos), lambda: c()[pos]))
        out.append(("%s[%d]" % (tr.label, pos - n), lambda: c()[pos - n]))
        out.append(("%s[name]" % tr.label, lambda: c()[nm]))
        out.append(("%s[id]" % tr.label, lambda: c()[i]))
        out.append(("iteration of %s" % tr.label, lambda: [e for e in c()][pos]))
        out.append(("%s.items()" % tr.label, lambda: [e for _, e in c().items()][pos]))
        for ll in self.links.values():
            if (nm, i) in ll.items:
                p, m = ll.items.index((nm, i)), len(ll.items)
                g = (lambda ll: lambda: self.open(ll))(ll)
                out.append(("%s[%d]" % (ll.label, p), (lambda g, p: lambda: g()[p])(g, p)))
                out.append(("%s[%d]" % (ll.label, p - m), (lambda g, p, m: lambda: g()[p - m])(g, p, m)))
                out.append(("%s[id]" % ll.label, (lambda g: lambda: g()[i])(g)))
                if [x for x, _ in ll.items].count(nm) == 1:      # sources of different parents may share a name
                    out.append(("%s[name]" % ll.label, (lambda g: lambda: g()[nm])(g)))
                out.append(("iteration of %s" % ll.label, (lambda g, p: lambda: [e for e in g()][p])(g, p)))
        for r in self.roles.values():
            if r.target == i:
                out.append((r.label, r.getter))
        if tr.kind == "section":
            out.append(("file.find_sections()", lambda: next(s for s in self.f.find_sections() if s.id == i)))
        if tr.kind == "source":
            out.append(("block.find_sources()",
                        lambda: next(s for s in self.P(tr.block, "blk").find_sources() if s.id == i)))
        if not fresh_only:
            if i in self.created:
                out.append(("returned by create", (lambda h: lambda: h)(self.created[i])))
            for desc, h in self.kept.get(i, []):
                out.append(("kept from before: " + desc, (lambda h: lambda: h)(h)))
        return out

    def fetch(self, tr, nm, i, desc, thunk):
        """the handle; a path that does not lead to the entity is itself a failure of 'all lookups agree'"""
        try:
            h = thunk()
        except Exception as ex:
            self.fail("no access to a contained entity through %s (%s)" % (route_class(desc), type(ex).__name__),
                      type(ex).__name__, [nm, i], tr.label, ["route", desc])
            return None
        try:
            got = (h.name, h.id)
        except Exception as ex:
            self.fail("handle obtained through %s cannot be read (%s)" % (route_class(desc), type(ex).__name__),
                      type(ex).__name__, [nm, i], tr.label, ["route", desc])
            return None
        if got != (nm, i):
            self.fail("%s yields another entity" % route_class(desc), list(got), [nm, i], tr.label, ["route", desc])
            return None
        return h

    def pick_route(self, tr, nm, i, fresh_only=False):
        rs = self.routes(tr, nm, i, fresh_only)
        # link / role / kept routes are rarer than the six views of the owning container: prefer them
        special = [r for r in rs[6:]]
        desc, thunk = self.rng.choice(special if special and self.rng.random() < 0.7 else rs)
        return desc, self.fetch(tr, nm, i, desc, thunk)

    # -- checks -------------------------------------------------------------------------------------------------
    def strangers(self, tr):
        """owning containers of the same kind of entity that do NOT hold tr's entities"""
        return [t for t in self.owns.values() if t.kind == tr.kind and t is not tr]

    def check_entity(self, tr, nm, i):
        """every handle of the entity, against its own container, the containers it is not in, the link lists"""
        for desc, thunk in self.routes(tr, nm, i):
            h = self.fetch(tr, nm, i, desc, thunk)
            if h is None:
                continue
            rc = route_class(desc)
            where = ["route", desc]
            c = self.open(tr)
            try:
                if h not in c:
                    self.fail("membership test by entity is False in the owning container for a handle obtained "
                              "through %s" % rc, False, True, tr.label, where)
            except Exception as ex:
                self.fail("membership test by entity raises %s for a handle obtained through %s" % (
                    type(ex).__name__, rc), type(ex).__name__, True, tr.label, where)
            for what, key in (("name", h.name), ("id", h.id)):
                try:
                    e = c[key]
                    if e.id != i:
                        self.fail("lookup by the %s of a handle obtained through %s yields another entity" % (what, rc),
                                  [e.name, e.id], [nm, i], tr.label, where)
                    if key not in c:
                        self.fail("membership by the %s of a handle obtained through %s is False" % (what, rc),
                                  False, True, tr.label, where)
                except Exception as ex:
                    self.fail("lookup by the %s of a handle obtained through %s fails (%s)" % (
                        what, rc, type(ex).__name__), type(ex).__name__, [nm, i], tr.label, where)
            others = self.strangers(tr)
            same = [t for t in others if nm in [x for x, _ in t.items]]     # an entity of the same name is there
            for t in same + ([self.rng.choice(others)] if others else []):
                try:
                    if h in self.open(t):
                        self.fail("membership test by entity is True in a container that does not hold the entity "
                                  "(handle obtained through %s%s)" % (
                                      rc, ", an entity of the same name is there" if nm in [x for x, _ in t.items]
                                      else ""), True, False, t.label, where)
                except Exception as ex:
                    self.fail("membership test by entity raises %s in a container of the same kind" % type(ex).__name__,
                              type(ex).__name__, False, t.label, where)
            for ll in self.links.values():
                if ll.kind != tr.kind or (ll.block != tr.block and self.rng.random() < 0.8):
                    continue
                want = (nm, i) in ll.items
                try:
                    got = h in self.open(ll)
                    if got != want:
                        self.fail("membership test by entity in a link list is %s for %s entity (handle obtained "
                                  "through %s)" % (got, "a linked" if want else "an entity that is not linked", rc),
                                  got, want, ll.label, where)
                except Exception as ex:
                    self.fail("membership test by entity in a link list raises %s" % type(ex).__name__,
                              type(ex).__name__, want, ll.label, where)

    def _views(self, label, getter, exp):
        try:
            c = getter()
            got = [(e.name, e.id) for e in c]
            if got != exp:
                self.fail("iteration order differs from creation order", got, list(exp), label)
                return
            if len(c) != len(exp):
                self.fail("len() differs from the number of entities", len(c), len(exp), label)
            n = len(exp)
            for k in range(-n, n):
                e = c[k]
                if (e.name, e.id) != exp[k]:
                    self.fail("positional index %d yields the wrong entity" % k, [e.name, e.id], list(exp[k]), label)
        except Exception as ex:
            self.fail("container access raised %s: %s" % (type(ex).__name__, ex), type(ex).__name__, "no exception", label)

    def check_own(self, tr):
        self._views(tr.label, lambda: self.open(tr), tr.items)

    def check_link(self, ll):
        self._views(ll.label, lambda: self.open(ll), ll.items)

    def check_some(self, k):
        ents = [(tr, n, i) for tr in self.owns.values() for n, i in tr.items]
        linked = {i for ll in self.links.values() for _, i in ll.items} | {r.target for r in self.roles.values()}
        special = [x for x in ents if x[2] in linked or x[2] in self.kept]
        for _ in range(k):
            tr, n, i = self.rng.choice(special if special and self.rng.random() < 0.7 else ents)
            self.check_entity(tr, n, i)

    def close(self):
        try:
            self.f.close()
        except Exception:
            pass
        try:
            os.remove(self.path)
        except OSError:
            pass


def route_class(desc):
    """the kind of path, without names and positions (failures are de-duplicated by it)"""
    if desc.startswith("kept from before: "):
        return "a handle kept across other operations, first obtained through " + route_class(desc[18:])
    if desc in ("returned by create", "file.find_sections()", "block.find_sources()"):
        return desc
    head = desc
    how = "the link"
    for suffix, text in (("[id]", "lookup by id in"), ("[name]", "lookup by name in"), (".items()", "items() of")):
        if desc.endswith(suffix):
            head, how = desc[:-len(suffix)], text
            break
    else:
        if desc.startswith("iteration of "):
            head, how = desc[13:], "iteration of"
        elif desc.endswith("]"):
            head, how = desc[:desc.rindex("[")], "positional index in"
    parts = head.split(".")
    if parts[0] in ("blk", "oth"):
        parts = parts[1:]
    return "%s %s" % (how, ".".join(parts))


def scenario(ctx, rng, steps, tag):
    sc = ProvScene(ctx, rng, tag)
    try:
        # a first population: something in every list, so that every kind of path exists from the start
        for tr in list(sc.owns.values()):
            if tr.label != "file.blocks":
                sc.create(tr.label, rng.choice(sc.pool))
        for ll in list(sc.links.values()):
            for _ in range(2):
                cand = sc.link_targets(ll)
                tr, nm, i = rng.choice(cand)
                sc.log.append(["append", ll.label, nm, "handle: returned by create"])
                try:
                    sc.open(ll).append(sc.created[i])
                    ll.items = [x for x in ll.items if x[1] != i] + [(nm, i)]
                except Exception as ex:
                    sc.fail("append of an entity of the same block refused with %s (handle returned by create)" %
                            type(ex).__name__, type(ex).__name__, "appended", ll.label)
        for r in sc.roles.values():
            if r.target is None and rng.random() < 0.6:
                cand = [(sc.owns[s], n, i) for s in r.stores for n, i in sc.owns[s].items]
                tr, nm, i = rng.choice(cand)
                sc.log.append(["set", r.label, nm, "handle: returned by create"])
                try:
                    r.setter(sc.created[i])
                    r.target = i
                except Exception:
                    sc.log[-1].append("(refused)")
                    sc.resync(r)
        sc.check_some(6)
        for _ in range(steps):
            r = rng.random()
            if r < 0.22:
                tr = rng.choice([t for t in sc.owns.values() if t.label != "file.blocks"])
                sc.create(tr.label, rng.choice(sc.pool))
                sc.check_own(tr)
            elif r < 0.40:
                sc.delete()
            elif r < 0.58:
                sc.append()
            elif r < 0.68:
                sc.unlink()
            elif r < 0.80:
                sc.set_role()
            elif r < 0.92:
                sc.keep()
            else:
                sc.reopen()
            sc.check_some(2)
            if len(sc.fails) > 8:
                break
        for tr in sc.owns.values():
            sc.check_own(tr)
        for ll in sc.links.values():
            sc.check_link(ll)
        sc.reopen()
        sc.check_some(6)
    except Exception as ex:     # the scene itself must never raise
        sc.fails.append(Failure("scenario raised %s: %s" % (type(ex).__name__, ex), sc.history(), type(ex).__name__,
                                "no exception", "scenario"))
    finally:
        sc.close()
    return sc.fails, len(sc.log)
