"""C09 — SI unit recognition and scaling (nixio/util/units.py)."""
import re
from fractions import Fraction

from ..lib import core
from ..lib.core import Failure, Disagreement
from ..extract import units as _ex
from ..extract import units_compound as _ex2
from ..extract import units_scaling as _ex3

PROP = "C09"
LEAN_MODULE = "NixModel.Props.C09"
THEOREMS = [
    "Nix.C09.split_table",
    "Nix.C09.scaling_ratio",
    "Nix.C09.scaling_compose",
    "Nix.C09.scaling_invert",
    "Nix.C09.not_scalable",
    "Nix.C09.compound",
    "Nix.C09.sanitizer_idempotent",
    "Nix.C09.sanitizer_clean",
    "Nix.C09.split_all_powers",
    "Nix.C09.power_value",
    "Nix.C09.scaling_ratio_all_powers",
    "Nix.C09.scaling_compose_all_powers",
    "Nix.C09.scaling_invert_all_powers",
    "Nix.C09.not_scalable_all_powers",
    "Nix.C09.compound_all_powers",
    "Nix.C09.scaling_shape",
    "Nix.C09.recognition_shape",
    "Nix.C09.scaling_shape_ratio",
    "Nix.C09.split_captures",
    "Nix.C09.scaling_total_exact",
    "Nix.C09.scaling_compose_invert_general",
    "Nix.C09.scaling_positive",
    "Nix.C09.scalable_equivalence",
    "Nix.C09.scaling_identity",
    "Nix.C09.scaling_refused_iff_not_scalable",
    "Nix.C09.compound_sequence",
    "Nix.C09.invert_power_negates",
    "Nix.C09.invert_power_twice",
    "Nix.C09.split_compound_sequence",
    "Nix.C09.split_compound_blanks",
    "Nix.C09.split_compound_roundtrip",
    "Nix.C09.scalable_iff_same_unit_power",
    "Nix.C09.scalable_lists",
    "Nix.C09.model_fuel_never_exhausted",
    "Nix.C09.atomic_exact",
    "Nix.C09.atom_reading_unique",
    "Nix.C09.split_of_non_atomic",
    "Nix.C09.compound_exact",
    "Nix.C09.si_exact",
    "Nix.C09.sanitizer_atoms",
    "Nix.C09.sanitizer_compounds",
    "Nix.C09.sanitizer_blanks",
    "Nix.C09.sanitizer_micro_spellings",
]
ASSUMPTIONS = [
    "Python's `re` engine is replaced by a hand-written backtracking matcher for the regex shapes units.py "
    "assembles (shapes and tables regenerated from the source each run; complete-table correspondence supports it). "
    "The matcher is proved to accept exactly the language of those regular expressions (atomic_exact, "
    "compound_exact) and the prefix/unit/power reading of an atom is proved unique (atom_reading_unique), so what "
    "is assumed of `re` is the standard semantics of alternation, `?`, `$` (incl. before a final newline), "
    "match/search - not a particular backtracking order",
    "`\\d` is modelled as ASCII digits; inputs with non-ASCII digits are outside the model and the generators",
    "scaling factors are exact rationals in the model; the float result is compared within 1e-13 relative",
    "'same power' is read as the same power text ('m^1' vs 'm' is refused by the code; conservative, documented)",
    "powers beyond the float range (|exponent difference x power| > 280) are covered by the theorems (exact "
    "rationals) but not generated for the float comparison (OverflowError / underflow to 0.0 in the code)",
]
TRUSTED_EXTRA = ["harness/extract/units.py renders PREFIXES/UNITS/POWER/PREFIX_FACTORS, regex shapes, the scaling "
                 "branch condition and the sanitizer replace chain",
                 "harness/extract/units_compound.py renders the branch table of invert_power and the lookahead / "
                 "clean-up / inverting separator of split_compound",
                 "harness/extract/units_scaling.py renders the statement shape of scaling()"]

SI_EXP = {"Y": 24, "Z": 21, "E": 18, "P": 15, "T": 12, "G": 9, "M": 6, "k": 3, "h": 2, "da": 1, "": 0,
          "d": -1, "c": -2, "m": -3, "u": -6, "n": -9, "p": -12, "f": -15, "a": -18, "z": -21, "y": -24}
POWERS = ["", "^1", "^+1", "^2", "^+2", "^3", "^+3", "^-1", "^-2", "^-3"]
POWER7 = ["^-3", "^-2", "^-1", "", "^1", "^2", "^3"]


def extract(repo):
    files = dict(_ex.extract(repo))
    files.update(_ex2.extract(repo))
    files.update(_ex3.extract(repo))
    return files


# the supported SI tables as the property's anchors list them (reference copy, used only when the tables of the tree
# under check are no longer written as plain alternations - then the translator has reported the broken tie, and the
# generators / oracle still have to ask about every table entry to find the failing input)
REF_PREFIXES = ["Y", "Z", "E", "P", "T", "G", "M", "k", "h", "da", "d", "c", "m", "u", "n", "p", "f", "a", "z", "y"]
REF_UNITS = ["m", "g", "s", "A", "K", "mol", "cd", "Hz", "N", "Pa", "J", "W", "C", "V", "F", "S", "Wb", "T", "H", "lm",
             "lx", "Bq", "Gy", "Sv", "kat", "l", "L", "Ohm", "%", "dB", "rad"]


def _alternation(text, ref):
    """the entries of "(a|b|c)"; the reference list when the text is not a plain alternation of literal entries"""
    import re as _re
    if isinstance(text, str) and _re.fullmatch(r"\((?:[^()|\[\]\\*+?{}^$.]+\|)*[^()|\[\]\\*+?{}^$.]+\)", text):
        return text[1:-1].split("|")
    return list(ref)


def _tables():
    from nixio.util import units as U
    pre = _alternation(getattr(U, "PREFIXES", None), REF_PREFIXES)
    if any(p not in SI_EXP for p in pre):
        pre = list(REF_PREFIXES)
    un = _alternation(getattr(U, "UNITS", None), REF_UNITS)
    return U, pre, un


def _powint(w):
    return int(w[1:]) if w else 1


def _rand_power(rng, maxdigits=4):
    """a text of the POWER grammar with any number of digits (or none)"""
    if rng.random() < 0.15:
        return ""
    n = rng.randint(1, maxdigits)
    return "^" + rng.choice(["", "", "+", "-"]) + rng.choice("123456789") + "".join(rng.choice("0123456789")
                                                                                      for _ in range(n - 1))


def _bounded_power(rng, p1, p2):
    """a power text whose factor between the two prefixes stays well inside the float range"""
    span = abs(SI_EXP[p1] - SI_EXP[p2]) or 1
    kmax = max(1, min(99, 280 // span))
    k = rng.randint(1, kmax)
    return "^" + rng.choice(["", "+", "-"]) + str(k)


BAD_POWERS = ["^", "^+", "^-", "^0", "^01", "^-0", "^+-1", "^--1", "^1.5", "^1e2", "^ 2", "^2 ", "^^2", "^2^2", "2", "^a"]


# ---------------------------------------------------------------------------------------
# implementation runner (canonicalised like the driver's output)


def run_impl(case):
    U, _, _ = _tables()
    op = case[0]
    try:
        if op == "sanitizer":
            return {"ok": U.sanitizer(case[1])}
        if op == "is_atomic":
            return {"ok": bool(U.is_atomic(case[1]))}
        if op == "is_compound":
            return {"ok": bool(U.is_compound(case[1]))}
        if op == "is_si":
            return {"ok": bool(U.is_si(case[1]))}
        if op == "split":
            return {"ok": list(U.split(case[1]))}
        if op == "scalable":
            return {"ok": bool(U.scalable(case[1], case[2]))}
        if op == "scalable_list":
            return {"ok": bool(U.scalable(list(case[1]), tuple(case[2])))}
        if op == "scaling":
            r = U.scaling(case[1], case[2])
            fr = Fraction(r)
            return {"ok": "%d/%d" % (fr.numerator, fr.denominator)}
        if op == "invert_power":
            return {"ok": U.invert_power(case[1])}
        if op == "split_compound":
            return {"ok": list(U.split_compound(case[1]))}
    except Exception as e:  # canonicalise by class
        if op == "split_compound" or op == "invert_power":
            return {"err": "Exception"}
        from nixio.exceptions import InvalidUnit
        if isinstance(e, InvalidUnit):
            return {"err": "InvalidUnit"}
        for cls, nm in ((KeyError, "KeyError"), (ValueError, "ValueError"), (TypeError, "TypeError"),
                        (IndexError, "IndexError"), (AttributeError, "AttributeError")):
            if isinstance(e, cls):
                return {"err": nm}
        return {"err": "Exception"}
    return {"bad": "unknown op"}


def _frac(s):
    n, d = s.split("/")
    return Fraction(int(n), int(d))


def same(case, model, impl):
    if case[0] == "scaling" and "ok" in model and "ok" in impl:
        a, b = _frac(model["ok"]), _frac(impl["ok"])
        return a == b or (a != 0 and abs(a - b) / abs(a) <= Fraction(1, 10 ** 13))
    return model == impl


# ---------------------------------------------------------------------------------------
# generators

ALPHA = list("mgsAKolcdHzNPaJWCVFSbTlxBqGyvkatLOh%BdraYZEMunpf^+-123450*/ .") + ["µ", "μ", "\n"]


def gen_cases(ctx):
    U, pre, un = _tables()
    rng = ctx.rng
    optpre = [""] + pre
    cases = []
    dist = {}

    def add(kind, c):
        cases.append(c)
        dist[kind] = dist.get(kind, 0) + 1

    # complete atom table: recognition + split (always)
    for p in optpre:
        for u in un:
            for w in POWERS:
                a = p + u + w
                add("atom.is_atomic", ["is_atomic", a])
                add("atom.split", ["split", a])
                if rng.random() < 0.15:
                    add("atom.is_si", ["is_si", a])
                if rng.random() < 0.05:
                    add("atom.invert_power", ["invert_power", a])
    # scaling grid: complete (every ordered prefix pair x every unit x the 7 powers) in both tiers
    full = True
    if full:
        for u in un:
            for w in POWER7:
                for p1 in optpre:
                    for p2 in optpre:
                        add("grid.scaling", ["scaling", p1 + u + w, p2 + u + w])
    else:
        for _ in range(2):
            u = rng.choice(un)
            w = rng.choice(POWER7)
            for p1 in optpre:
                for p2 in optpre:
                    add("grid.scaling", ["scaling", p1 + u + w, p2 + u + w])
        for _ in range(3000):
            u, w = rng.choice(un), rng.choice(POWERS)
            add("grid.scaling", ["scaling", rng.choice(optpre) + u + w, rng.choice(optpre) + u + w])
    # mixed pairs (mostly not scalable)
    for _ in range(ctx.budget(2000, 20000)):
        a = rng.choice(optpre) + rng.choice(un) + rng.choice(POWERS)
        b = rng.choice(optpre) + rng.choice(un) + rng.choice(POWERS)
        add("pair.scalable", ["scalable", a, b])
        add("pair.scaling", ["scaling", a, b])
    # the list form of scalable: equal / unequal lengths, pairwise (mostly) scalable entries
    for _ in range(ctx.budget(800, 8000)):
        n = rng.randint(0, 4)
        la, lb = [], []
        for _i in range(n):
            u, w = rng.choice(un), rng.choice(POWERS)
            la.append(rng.choice(optpre) + u + w)
            r = rng.random()
            lb.append(rng.choice(optpre) + (u if r < 0.85 else rng.choice(un)) + (w if r < 0.93 else rng.choice(POWERS)))
        if rng.random() < 0.15:
            (la if rng.random() < 0.5 else lb).append(rng.choice(optpre) + rng.choice(un))
        add("list.scalable", ["scalable_list", la, lb])
    # compounds of 2-4 atoms
    for _ in range(ctx.budget(1500, 15000)):
        n = rng.randint(2, 4)
        s = ""
        for i in range(n):
            if i:
                sep = rng.choice("*/")
                s += rng.choice(["", " "]) + sep + rng.choice(["", " "])
            s += rng.choice(optpre) + rng.choice(un) + rng.choice(POWERS)
        add("compound.is_compound", ["is_compound", s])
        add("compound.is_si", ["is_si", s])
        add("compound.split_compound", ["split_compound", s])
        add("compound.split", ["split", s])
        if rng.random() < 0.3:
            t = s.replace(" ", "")
            add("compound.scaling", ["scaling", t, t])
            add("compound.scalable", ["scalable", t, rng.choice(optpre) + t])
    # atoms with power texts of any number of digits; malformed powers; trailing newline (Python's `$`)
    for _ in range(ctx.budget(3000, 30000)):
        a = rng.choice(optpre) + rng.choice(un) + _rand_power(rng)
        if rng.random() < 0.1:
            a += rng.choice(["\n", "\n\n", " ", "\t"])
        op = rng.choice(["is_atomic", "split", "is_si", "invert_power", "split_compound"])
        add("bigpow." + op, [op, a])
    for _ in range(ctx.budget(600, 6000)):
        u, w = rng.choice(un), rng.choice(BAD_POWERS)
        a = rng.choice(optpre) + u + w
        op = rng.choice(["is_atomic", "split", "is_si", "invert_power", "split_compound", "is_compound"])
        add("badpow." + op, [op, a])
        if rng.random() < 0.3:
            add("badpow.scaling", ["scaling", a, rng.choice(optpre) + u + w])
    for _ in range(ctx.budget(2000, 20000)):
        p1, p2, u = rng.choice(optpre), rng.choice(optpre), rng.choice(un)
        w = _bounded_power(rng, p1, p2)
        add("bigpow.scaling", ["scaling", p1 + u + w, p2 + u + w])
        if rng.random() < 0.3:
            w2 = _bounded_power(rng, p1, p2)
            add("bigpow.scalable", ["scalable", p1 + u + w, p2 + u + w2])
            add("bigpow.scaling_mixed", ["scaling", p1 + u + w, p2 + u + w2])
    # longer compounds (2-7 atoms), any power text, blanks around separators, occasional damage
    for _ in range(ctx.budget(2500, 25000)):
        n = rng.randint(2, 7)
        s = ""
        for i in range(n):
            if i:
                s += rng.choice(["", "", " ", "  "]) + rng.choice("*/") + rng.choice(["", "", " ", "  "])
            s += rng.choice(optpre) + rng.choice(un) + (_rand_power(rng, 3) if rng.random() < 0.6 else "")
        r = rng.random()
        if r < 0.08:
            s += rng.choice(["*", "/", " ", "\n", "*/", "**m"])
        elif r < 0.14:
            k = rng.randrange(len(s))
            s = s[:k] + rng.choice([" ", "*", "/", "^", "x", "\n"]) + s[k:]
        elif r < 0.18:
            s = rng.choice([" ", "*", "/"]) + s
        add("seq.split_compound", ["split_compound", s])
        add("seq.is_compound", ["is_compound", s])
        if rng.random() < 0.3:
            add("seq.is_si", ["is_si", s])
            add("seq.split", ["split", s])
    # arbitrary strings over the unit alphabet (malformed stream)
    for _ in range(ctx.budget(3000, 40000)):
        n = rng.choice([0, 1, 1, 2, 2, 3, 3, 4, 5, 6, 8])
        s = "".join(rng.choice(ALPHA) for _ in range(n))
        op = rng.choice(["is_atomic", "is_compound", "is_si", "split", "sanitizer", "split_compound",
                         "invert_power"])
        add("random." + op, [op, s])
        if rng.random() < 0.3:
            t = "".join(rng.choice(ALPHA) for _ in range(rng.randint(0, 4)))
            add("random.scaling", ["scaling", s, t])
            add("random.scalable", ["scalable", s, t])
    # exhaustive small scope: every string over a small alphabet (matcher vs Python's re on all of them)
    import itertools
    small = list("mVsk^-+12*/ \n") if ctx.quick() else list("mVskol^-+120*/ \nuµ")
    maxlen = 4
    for n in range(0, maxlen + 1):
        for tup in itertools.product(small, repeat=n):
            s = "".join(tup)
            for op in ("is_atomic", "is_compound", "split", "split_compound", "invert_power", "sanitizer"):
                if n == maxlen and op in ("invert_power", "sanitizer"):
                    continue
                add("exhaustive." + op, [op, s])
    # sanitizer-heavy strings
    for _ in range(ctx.budget(1500, 15000)):
        n = rng.randint(0, 9)
        s = "".join(rng.choice(["m", "u", "m", "u", " ", "µ", "μ", "V", "s", "mu"]) for _ in range(n))
        add("sanitizer", ["sanitizer", s])
    return cases, dist


def nontrivial(case, out):
    if "err" in out:
        return True
    v = out.get("ok")
    op = case[0]
    if op in ("is_atomic", "is_compound", "is_si", "scalable", "scalable_list"):
        return v is True
    if op == "split":
        return bool(v[0] or v[2])
    if op == "scaling":
        return v != "1/1"
    if op == "sanitizer":
        return v != case[1]
    return True


def correspondence(ctx):
    cases, dist = gen_cases(ctx)
    cases = core.load_corpus(PROP) + cases
    model = core.run_driver(PROP, cases)
    disagreements = []
    seen = set()
    errs = {}
    for c, m in zip(cases, model):
        i = run_impl(c)
        if not same(c, m, i):
            disagreements.append(Disagreement(c, m, i))
        if "err" in i:
            errs[i["err"]] = errs.get(i["err"], 0) + 1
        if nontrivial(c, i):
            seen.add(core.canon(c))
    disagreements.sort(key=lambda d: len(core.canon(d.case)))
    samples = [{"case": cases[k], "model": model[k]} for k in
               sorted(ctx.rng.sample(range(len(cases)), min(6, len(cases))))]
    return {"evaluations": len(cases), "distinct_nontrivial": len(seen),
            "rule": "complete prefix x unit x power atom table; scaling grid (thorough: complete 21x21x units x 7 powers; "
                    "quick: two full 21x21 slices + 3000 samples); random mixed pairs; compounds of 2-4 atoms; atoms "
                    "with power texts of 1-4 digits, malformed powers, trailing newline/blank; scaling with powers "
                    "up to 99 (factor kept inside the float range); sequences of 2-7 atoms with blanks and damage "
                    "through split_compound/is_compound; list form of scalable; EVERY string of length <= 4 over a "
                    "13-character alphabet (thorough: 19 characters) through is_atomic/is_compound/"
                    "split/split_compound/invert_power/sanitizer; random "
                    "strings over the unit alphabet; sanitizer strings. non-trivial = result is an error, True, a "
                    "non-empty prefix/power, a factor != 1 or a changed string; distinct by canonical JSON of the case",
            "samples": samples, "distribution": {"ops": dist, "impl_errors": errs},
            "disagreements": disagreements, "exhaustive": False}


# ---------------------------------------------------------------------------------------
# property oracle on the implementation (independent of the model)


def _fresh():
    """reload nixio.util.units: module-level state (caches, memo tables) starts empty"""
    import importlib
    from nixio.util import units as U
    importlib.reload(U)


def _history_for(prev, c, budget=4000):
    """`c` fails after the cases `prev` ran in this process but not on a freshly loaded module: find a short
    history (ending in c) that fails from a fresh module. Single predecessors first (most recent, then the ones
    sharing a component with c), then a bisected prefix."""
    def fails(hist):
        return check_case(["history", hist + [c]]) is not None
    key = set(x for x in c[1:] if isinstance(x, str) and x)
    recent = list(reversed(prev[-600:]))
    related = [p for p in reversed(prev[:-600]) if key & set(x for x in p[1:] if isinstance(x, str))]
    tried = 0
    for p in recent + related:
        if tried >= budget:
            break
        tried += 1
        if fails([p]):
            return [p]
    # bisect the shortest prefix after which c fails, then shrink it from the front
    lo, hi = 0, len(prev)
    if not fails(prev):
        return None
    while lo < hi:
        mid = (lo + hi) // 2
        if fails(prev[:mid]):
            hi = mid
        else:
            lo = mid + 1
    hist = prev[:lo]
    for k in (1, 2, 4, 8, 16, 64, 256):
        if k < len(hist) and fails(hist[-k:]):
            return hist[-k:]
    return hist


def check_case(case):
    """returns a Failure if the implementation violates C09 on this oracle case"""
    U, pre, un = _tables()
    kind = case[0]
    try:
        if kind == "atom":
            p, u, w = case[1:]
            a = p + u + w
            if not U.is_atomic(a) or not U.is_si(a):
                return Failure("table atom not recognised as atomic SI unit", case, "is_atomic/is_si false", "true",
                               "units.is_atomic")
            got = tuple(U.split(a))
            if got != (p, u, w[1:]):
                return Failure("atom split into the wrong triple", case, list(got), [p, u, w[1:]], "units.split")
        elif kind == "ratio":
            p1, p2, u, w = case[1:]
            a, b = p1 + u + w, p2 + u + w
            if not U.scalable(a, b) or not U.scalable([a, b], [b, a]):
                return Failure("same unit and power reported not scalable", case, False, True, "units.scalable")
            got = Fraction(U.scaling(a, b))
            want = Fraction(10) ** ((SI_EXP[p1] - SI_EXP[p2]) * _powint(w))
            if abs(got - want) / want > Fraction(1, 10 ** 12):
                return Failure("scaling is not the prefix ratio raised to the power", case, float(got), float(want),
                               "units.scaling")
        elif kind == "chain":
            p1, p2, p3, u, w = case[1:]
            a, b, c = p1 + u + w, p2 + u + w, p3 + u + w
            ab, bc, ac, ba = U.scaling(a, b), U.scaling(b, c), U.scaling(a, c), U.scaling(b, a)
            if abs(ab * bc - ac) > 1e-11 * abs(ac):
                return Failure("conversions do not compose", case, [ab, bc, ac], "ab*bc == ac", "units.scaling")
            if abs(ab * ba - 1.0) > 1e-11:
                return Failure("conversions do not invert", case, [ab, ba], "ab*ba == 1", "units.scaling")
        elif kind == "unscalable":
            a, b = case[1:]
            if U.scalable(a, b) or U.scalable([a, a], [a, b]) or U.scalable([b, a], [a, a]):
                return Failure("different base unit or power reported scalable", case, True, False, "units.scalable")
            try:
                r = U.scaling(a, b)
                return Failure("conversion between unscalable units not refused", case, r, "InvalidUnit",
                               "units.scaling")
            except Exception as e:
                from nixio.exceptions import InvalidUnit
                if not isinstance(e, InvalidUnit):
                    return Failure("conversion refused with the wrong error", case, type(e).__name__, "InvalidUnit",
                                   "units.scaling")
        elif kind == "compound":
            s = case[1]
            if not U.is_compound(s) or not U.is_si(s):
                return Failure("product/quotient of atomic units not recognised as compound", case, False, True,
                               "units.is_compound")
        elif kind == "history":
            # an operation history in one fresh interpreter state of nixio.util.units (module-level state such as
            # caches is reset first); the property must hold for every step
            _fresh()
            for sub in case[1]:
                f = check_case(sub)
                if f is not None:
                    return Failure(f.what + " (after the preceding calls of this history, starting from a freshly "
                                   "loaded nixio.util.units)", case, f.observed, f.required, f.site)
            return None
        elif kind == "sanitize":
            s = case[1]
            t = U.sanitizer(s)
            tt = U.sanitizer(t)
            if t != tt:
                return Failure("sanitizer is not idempotent", case, [t, tt], "sanitizer(sanitizer(s)) == sanitizer(s)",
                               "units.sanitizer")
            if " " in t or "µ" in t or "μ" in t:
                return Failure("sanitizer left a blank or micro sign", case, t, "no blank / micro sign",
                               "units.sanitizer")
    except Exception as e:
        return Failure("unexpected exception %s: %s" % (type(e).__name__, e), case, type(e).__name__, "no exception",
                       "units")
    return None


def _hint_cases(h, pre, un):
    """turn a disagreeing correspondence case into oracle cases, when it is inside the property's scope"""
    out = []
    optpre = [""] + pre
    pat = re.compile("^(%s)?(%s)(\\^[+-]?[1-3])?$" % ("|".join(map(re.escape, sorted(pre, key=len, reverse=True))),
                                                     "|".join(map(re.escape, sorted(un, key=len, reverse=True)))))

    def atoms(s):
        res = []
        for p in optpre:
            for u in un:
                for w in POWERS:
                    if p + u + w == s:
                        res.append((p, u, w))
        return res
    strs = [x for x in h[1:] if isinstance(x, str)]
    parsed = [atoms(s) for s in strs]
    for ps in parsed:
        for (p, u, w) in ps:
            out.append(["atom", p, u, w])
    if len(strs) == 2:
        for (p1, u1, w1) in parsed[0]:
            for (p2, u2, w2) in parsed[1]:
                if u1 == u2 and w1 == w2:
                    out.append(["ratio", p1, p2, u1, w1])
                    out.append(["chain", p1, p2, "", u1, w1])
                elif u1 != u2 or w1[1:] != w2[1:]:
                    out.append(["unscalable", strs[0], strs[1]])
    for s in strs:
        out.append(["sanitize", s])
        parts = re.split(r"[*/]", s.replace(" ", ""))
        if len(parts) >= 2 and all(atoms(x) for x in parts):
            out.append(["compound", s.replace(" ", "")])
    return out


def oracle(ctx, broken, hints):
    U, pre, un = _tables()
    rng = ctx.rng
    optpre = [""] + pre
    cases = []
    for h in hints[:200]:
        cases += _hint_cases(h, pre, un)
    for p in optpre:
        for u in un:
            for w in POWERS:
                cases.append(["atom", p, u, w])
    full = broken or not ctx.quick()
    if True:
        # complete grid in both tiers, visited in a seeded random order (state kept between calls - caches,
        # memo tables - is then met with a different history on every seed)
        grid = [["ratio", p1, p2, u, w] for u in un for w in POWER7 for p1 in optpre for p2 in optpre]
        rng.shuffle(grid)
        cases += grid
    else:
        # every prefix pair at least once, on a random unit/power each
        for p1 in optpre:
            for p2 in optpre:
                cases.append(["ratio", p1, p2, rng.choice(un), rng.choice(POWER7)])
        for _ in range(2000):
            cases.append(["ratio", rng.choice(optpre), rng.choice(optpre), rng.choice(un), rng.choice(POWERS)])
    # powers of any number of digits: recognition and split for every text of the grammar, scaling where the
    # factor stays inside the float range (the same prefix pair is visited with several powers in a row)
    for _ in range(20000 if full else 3000):
        cases.append(["atom", rng.choice(optpre), rng.choice(un), _rand_power(rng, 5)])
    for _ in range(6000 if full else 1500):
        p1, p2, u = rng.choice(optpre), rng.choice(optpre), rng.choice(un)
        for _k in range(rng.randint(1, 3)):
            cases.append(["ratio", p1, p2, u, _bounded_power(rng, p1, p2)])
        if rng.random() < 0.3:
            p3 = rng.choice(optpre)
            w = _bounded_power(rng, rng.choice([p1, p3]), rng.choice([p2, p3]))
            if max(abs(SI_EXP[a] - SI_EXP[b]) for a in (p1, p2, p3) for b in (p1, p2, p3)) * abs(_powint(w)) <= 280:
                cases.append(["chain", p1, p2, p3, u, w])
    for _ in range(3000 if full else 500):
        cases.append(["chain", rng.choice(optpre), rng.choice(optpre), rng.choice(optpre), rng.choice(un),
                      rng.choice(POWERS)])
    n_un = 20000 if full else 3000
    for _ in range(n_un):
        p1, p2 = rng.choice(optpre), rng.choice(optpre)
        u1, u2 = rng.choice(un), rng.choice(un)
        w1, w2 = rng.choice(POWERS), rng.choice(POWERS)
        if u1 != u2 or w1[1:] != w2[1:]:
            cases.append(["unscalable", p1 + u1 + w1, p2 + u2 + w2])
    for _ in range(5000 if full else 1000):
        p1, p2 = rng.choice(optpre), rng.choice(optpre)
        u1, u2 = rng.choice(un), rng.choice(un)
        w1, w2 = _rand_power(rng, 3), _rand_power(rng, 3)
        if rng.random() < 0.5:
            u2 = u1
        if u1 != u2 or w1[1:] != w2[1:]:
            cases.append(["unscalable", p1 + u1 + w1, p2 + u2 + w2])
    # exhaustive: one unit against every other unit with every prefix of the first (homograph hunting)
    for u1 in un:
        for u2 in un:
            if u1 != u2:
                for p in optpre:
                    cases.append(["unscalable", p + u1, u2])
                    cases.append(["unscalable", u2, p + u1])
    for _ in range(5000 if full else 1000):
        n = rng.randint(2, 4)
        s = rng.choice(optpre) + rng.choice(un) + rng.choice(POWERS)
        for _i in range(n - 1):
            s += rng.choice("*/") + rng.choice(optpre) + rng.choice(un) + rng.choice(POWERS)
        cases.append(["compound", s])
    for _ in range(5000 if full else 1000):
        n = rng.randint(2, 7)
        s = rng.choice(optpre) + rng.choice(un) + _rand_power(rng, 3)
        for _i in range(n - 1):
            s += rng.choice("*/") + rng.choice(optpre) + rng.choice(un) + _rand_power(rng, 3)
        cases.append(["compound", s])
    for s in ["mmu", "mµ", "m μ", "mmmu", "m u", "mu", " µ", "mmuu", "mumu", "m m u"]:
        cases.append(["sanitize", s])
    for _ in range(20000 if full else 4000):
        n = rng.randint(0, 8)
        cases.append(["sanitize", "".join(rng.choice(["m", "u", " ", "µ", "μ", "V", "mu", "m"]) for _ in range(n))])
    failures = []
    seen = set()
    histories = 0
    _fresh()
    for idx, c in enumerate(cases):
        f = check_case(c)
        if f is not None:
            # does the failure depend on what ran before in this process (module-level state)? Then the failing
            # input is an operation history from a freshly loaded module, not the last call alone.
            _fresh()
            if check_case(c) is None:
                histories += 1
                if histories > 3:
                    continue
                hist = _history_for(cases[:idx], c)
                f = check_case(["history", hist + [c]]) if hist is not None else None
                _fresh()
                if f is None:
                    continue
            key = (f.what, core.canon(f.input))
            if key not in seen:
                seen.add(key)
                failures.append(f)
    failures.sort(key=lambda f: len(core.canon(f.input)))
    return {"evaluations": len(cases), "failures": failures, "full_grid": bool(full),
            "history_dependent_failures": histories}


def matches_known(entry, failure):
    return False


def replay_failure(ctx, fj):
    return check_case(fj["input"])


READY = True
MANIFEST = {
    "level_text": "Kernel-checked theorems over a Lean model of units.py instantiated with tables, regex shapes and "
                  "statement shapes regenerated from the source on every run. For EVERY text of the POWER grammar "
                  "(any number of digits; structural proof, only prefix x unit is closed by decide +kernel) each "
                  "prefix-unit-power combination is atomic/SI and splits into exactly its triple; scaling is the "
                  "prefix ratio raised to that integer power, composes and inverts (algebra in Q); scalable between "
                  "atoms iff same unit and power text, otherwise InvalidUnit; scalable is symmetric/transitive and "
                  "reflexive exactly on SI strings. is_atomic accepts exactly the table atoms (+ optional final "
                  "newline). Products/quotients of any length are compound; split_compound returns their atoms in "
                  "order, inverted after '/', and invert_power negates the power (both after fix: commits). "
                  "sanitizer is idempotent for every string, fixes every atom, ignores blanks and maps the micro "
                  "spellings to the u-prefixed atom. For ALL strings: scaling is InvalidUnit iff not scalable and "
                  "otherwise the prefix ratio to the captured power (KeyError/ValueError impossible), composes and "
                  "inverts; is_compound/is_si accept exactly their regex languages; the model's fuel is never "
                  "exhausted. The statement shapes of is_si, scalable and scaling() (shortcut, prefix chain, "
                  "assigned expressions, power) and the branch table of invert_power are generated and proved "
                  "equal to the hand model for all inputs. The -3..3 table theorems (6510 entries, decide +kernel) "
                  "are kept. The hand-written regex engine is tied to the code by complete-table differential runs.",
    "level_note": "Trusted: Lean kernel; axioms propext/Classical.choice/Quot.sound; the three units.py translators "
                  "(tables + regex shapes, invert_power/split_compound shape, scaling shape); the "
                  "backtracking-matcher stand-in for Python's re (ASCII digits only); float results compared to the "
                  "exact rational within 1e-13 relative (powers generated so the factor stays inside the float "
                  "range). split_compound/invert_power are modelled and proved but are not part of the property "
                  "text, so the oracle does not judge them (correspondence does).",
    "technique": "Lean 4 proof (structural lifting lemmas over the regex pieces + decide +kernel over regenerated "
                 "tables) with differential correspondence",
}
