"""C12 — vectors of texts: Tag.units / MultiTag.units, SetDimension.labels, DataFrame.units on the real nixio against
Pure/TextVecWrite.lean run on Generated/TextVecOrder.lean.

A case = (owner, vector stored or not before the call, offered value).  The value is abstracted by probing a fresh copy
of it with the operations the setter applies (truth value, `__iter__`, iteration, the loop body's type test and
nixio's own sanitizer, numpy's conversion to an array of texts, util.check_text_storable).
"""
import numpy as np
import nixio
from nixio import util

# owner -> (setter name in TextVecOrder.all, scene key, attribute, where the vector is stored, valid previous vector,
#           whether the attribute may be absent, stamp expected)
OWNERS = {
    "Tag.units": ("BaseTag.units", "t", "units", "dataset", ["kV", "ms"], True, True),
    "MultiTag.units": ("BaseTag.units", "mt", "units", "dataset", ["kV", "ms"], True, True),
    "SetDimension.labels": ("SetDimension.labels", "sd", "labels", "dataset", ["old1", "old2", "old3"], False, False),
    "SetDimension(linked).labels": ("SetDimension.labels", "sl", "labels", "dataset", None, True, False),
    "DataFrame.units": ("DataFrame.units", "df", "units", "attr", ["kV", "ms"], False, True),
}


class _Duck:
    def __init__(self, xs):
        self.xs = xs

    def __iter__(self):
        return iter(self.xs)

    def __len__(self):
        return len(self.xs)


VALUES = [
    ("none", lambda: None), ("empty-list", lambda: []), ("empty-text", lambda: ""), ("two-units", lambda: ["mV", "s"]),
    ("three-texts", lambda: ["a", "b", "c"]), ("one-unit", lambda: ["Hz"]), ("tuple", lambda: ("mV", "s")),
    ("ndarray-U", lambda: np.array(["mV", "s"])), ("ndarray-O", lambda: np.array(["mV", "s"], dtype=object)),
    ("ndarray-1", lambda: np.array(["mV"])), ("ndarray-num", lambda: np.array([1.0, 2.0])), ("text", lambda: "mV"),
    ("int", lambda: 5), ("zero", lambda: 0), ("object", lambda: object()), ("generator", lambda: (x for x in ["mV", "s"])),
    ("dict", lambda: {"mV": 1, "s": 2}), ("set-1", lambda: {"mV"}), ("duck", lambda: _Duck(["mV", "s"])),
    ("with-none", lambda: [None, "s"]), ("with-int", lambda: ["mV", 5]), ("with-bytes", lambda: [b"mV", "s"]),
    ("nested", lambda: [["mV"], ["s"]]), ("with-nul", lambda: ["a\x00b", "s"]), ("with-surrogate", lambda: ["mV", "a\udc80b"]),
    ("nul-ndarray", lambda: np.array(["a\x00b", "s"], dtype=object)), ("np-str", lambda: [np.str_("mV"), np.str_("s")]),
    ("blank", lambda: [" m V ", "s"]), ("micro", lambda: ["µV", "s"]), ("true", lambda: True),
]
VALUE_INDEX = dict(VALUES)


def all_cases():
    out = []
    for owner, spec in sorted(OWNERS.items()):
        for present in ((True, False) if (spec[5] and spec[4] is not None) else (spec[4] is not None,)):
            for vlabel, _ in VALUES:
                out.append({"owner": owner, "present": present, "value": vlabel})
    return out


def _loop_ok(setter, mk):
    """(iteration starts, the loop body accepts every element, the texts reaching the store can be stored)"""
    v = mk()
    if setter == "DataFrame.units":
        try:
            arr = np.array(v, util.vlen_str_dtype)
        except Exception:       # noqa
            return True, True, True
        elems, ok, texts = list(np.ravel(arr)) if arr.ndim else [], True, []
        for u in elems:
            if u is None:
                texts.append("")
                continue
            try:
                u = util.units.sanitizer(u)
                util.check_attr_type(u, str)
                texts.append(u)
            except Exception:       # noqa
                ok = False
                break
    else:
        try:
            it = iter(v)
        except Exception:       # noqa
            return False, False, True
        ok, texts = True, []
        for u in it:
            try:
                if setter == "BaseTag.units":
                    util.check_attr_type(u, str)
                    u = util.units.sanitizer(u)
                elif not isinstance(u, str):
                    raise ValueError("no str")
                texts.append(u)
            except Exception:       # noqa
                ok = False
                break
    storable = True
    for t in texts:
        if isinstance(t, str):
            try:
                util.check_text_storable(str(t))
            except Exception:       # noqa
                storable = False
    return True, ok, storable


def abstract(c, case):
    setter, okey = OWNERS[case["owner"]][:2]
    mk = VALUE_INDEX[case["value"]]
    v = mk()
    try:
        falsy, truth_ok = (not v), True
    except Exception:       # noqa
        falsy, truth_ok = False, False
    list_like = hasattr(v, "__iter__") and not isinstance(v, str)
    iterable, elems_ok, storable = _loop_ok(setter, mk)
    array_ok, count_ok = True, True
    if setter == "DataFrame.units":
        try:
            arr = np.array(mk(), util.vlen_str_dtype)
            count_ok = arr.shape == (len(c[okey].column_names),)
        except Exception:       # noqa
            array_ok, count_ok = False, False
        falsy = False           # the setter does not branch on the truth value
    if setter == "SetDimension.labels":
        falsy = False
    linked = case["owner"] == "SetDimension(linked).labels"
    return ["textvec_run", setter, [truth_ok, bool(falsy), list_like, iterable, elems_ok, array_ok, count_ok, storable, linked],
            case["present"]]


def _stored(o, where, attr):
    grp = o._h5group.group
    if where == "attr":
        if attr not in grp.attrs:
            return None
        return repr(np.asarray(grp.attrs[attr]).tolist())
    if attr not in grp:
        return None
    return repr((grp[attr].shape, np.asarray(grp[attr][()]).tolist()))


def run(c, case):
    setter, okey, attr, where, prev, optional, stamps = OWNERS[case["owner"]]
    o = c[okey]
    if prev is not None:
        if case["present"]:
            setattr(o, attr, prev)
        else:
            setattr(o, attr, None)
    grp = o._h5group.group
    stamp_of = (lambda: repr(grp.attrs.get("updated_at"))) if stamps else (lambda: None)
    before, sbefore = _stored(o, where, attr), stamp_of()
    err = None
    try:
        setattr(o, attr, VALUE_INDEX[case["value"]]())
    except Exception as e:      # noqa
        err = next((k.__name__ for k in (AttributeError, TypeError, ValueError, KeyError, RuntimeError) if isinstance(e, k)),
                   type(e).__name__)
    after, safter = _stored(o, where, attr), stamp_of()
    return {"err": err, "vec": None if after is None else "old" if after == before else "new",
            "stamped": (safter != sbefore) if stamps else None, "changed": (after, safter) != (before, sbefore)}


def canon_impl(i):
    return {"refused": i["err"] is not None, "vec": i["vec"], "stamped": i["stamped"]}


def canon_model(m, case):
    if "ok" not in m:
        return {"model": m}
    o = m["ok"]
    stamps = OWNERS[case["owner"]][6]
    return {"refused": o["err"] is not None, "vec": "new" if o["vec"] == "resized" else o["vec"],
            "stamped": o["stamped"] if stamps else None}
