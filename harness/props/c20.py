"""C20 — copies are complete, independent, and keep their internal links (structural model + copy model)."""
import os
import random
import re
import time
from collections import OrderedDict

import h5py
import numpy as np
import nixio

from ..lib import core, storegen, storegen2
from ..lib import walk as W
from ..lib.core import Failure, Disagreement
from ..lib.storeimpl2 import Impl2
from ..lib.storeimpl import Impl
from ..lib.storeimpl import BadOp as storeimpl_BadOp
from ..extract import copyshape as _ex
from ..extract import handlesites as _hs

PROP = "C20"
LEAN_MODULE = "NixModel.Props.C20"
THEOREMS = [
    "Nix.C20.copyBlock_is_generic",
    "Nix.C20.copyIntoBlock_is_generic",
    "Nix.C20.copyProperty_is_generic",
    "Nix.C20.copySection_is_generic",
    "Nix.C20.h5GroupCopy_source_is_model",
    "Nix.C20.entryPoints_shape_ok",
    "Nix.C20.entryPoints_kinds",
    "Nix.C20.entry_point_source_is_generic",
    "Nix.C20.copyBlock_source",
    "Nix.C20.copyProperty_source",
    "Nix.C20.copyIntoBlock_source",
    "Nix.C20.copySection_source",
    "Nix.C20.copyFrameIntoBlock_is_generic",
    "Nix.C20.section_copies_address_the_object",
    "Nix.C20.entry_point_handle_is_generic",
    "Nix.C20.section_copy_any_handle",
    "Nix.C20.container_handles_owned",
    "Nix.C20.path_addressing_depends_on_handle",
    "Nix.C20.handle_sites_owned_or_section",
    "Nix.C20.container_items_are_their_entries",
    "Nix.C20.link_handles_of_the_copy_are_new",
    "Nix.C20.copy_complete",
    "Nix.C20.internal_links",
    "Nix.C20.ids_kept",
    "Nix.C20.ids_fresh",
    "Nix.C20.ids_fresh_distinct",
    "Nix.C20.id_named_links_kept",
    "Nix.C20.id_named_links_counterexample",
    "Nix.C20.name_used",
    "Nix.C20.dup_refused",
    "Nix.C20.dup_refused_existing",
    "Nix.C20.source_untouched",
    "Nix.C20.shallow_contents",
    "Nix.C20.shallow_section_result",
    "Nix.C20.copy_closed",
    "Nix.C20.path_stays_in_copy",
    "Nix.C20.old_links",
    "Nix.C20.independent_setAttr",
    "Nix.C20.independent_createProperty",
    "Nix.C20.independent_create_entity",
    "Nix.C20.independent_append",
    "Nix.C20.contAppend20_refines",
    "Nix.C20.sideInv_after_copy",
    "Nix.C20.idInv_after_copy",
    "Nix.C20.independent_history",
    "Nix.C20.independent_history_observed",
    "Nix.C20.ids_disjoint_after_history",
    "Nix.C20.sourceSideInv_after_copy",
    "Nix.C20.idInv_source_side",
    "Nix.C20.independent_history_source_side",
    "Nix.C20.independent_history_copy_unchanged",
    "Nix.C20.reachable_file_ok",
    "Nix.C20.reachable_entity_has_id",
    "Nix.C20.independent_delete_old_side",
    "Nix.C20.independent_delete_new_side",
    "Nix.C20.independent_delete_full",
    "Nix.C20.source_delete_keys_old",
    "Nix.C20.independent_delete_counterexample_before_fix",
]
ASSUMPTIONS = [
    "HDF5's object copy (H5Ocopy through h5py.Group.copy: everything reachable by hard links duplicated once, links "
    "among the copied objects re-targeted, creation order kept; shallow = immediate members, member groups emptied) "
    "is modelled by copyNodes, not verified; exercised by the correspondence with HDF5-level dumps of both files",
    "dataset contents (array data, property values, data frames) are outside the graph model: their equality and "
    "independence are checked by the implementation-side oracle only",
    "uuid4 ids are drawn from an abstract fresh supply (disjoint supplies for the two files)",
    "(T) harness/extract/copyshape.py accepts only the statement forms listed in its docstring (anything else: broken "
    "tie); `grp.copy(source=…, dest=…, name=…, shallow=…)` is h5py's Group.copy, read as the modelled object copy",
    "(T) harness/extract/handlesites.py lists the constructor calls of entity classes in nixio/*.py; that the parent "
    "expressions denote what HandleSite.owned reads them as (a plain Container's parent owns its entries, "
    "LinkContainer._itemstore._parent is the block, a multi-tag's parent is its block, a feature's grandparent is the "
    "block) is checked by the oracle's copies with handles of every provenance, not proved",
    "the error class of a refused append / del / membership test with a Feature *object* as key, and of a refused role "
    "assignment (x.metadata = <Feature> …), is compared as 'refused' only (a Feature whose data is gone raises "
    "RuntimeError from its __str__ inside util.is_uuid / while the TypeError message is formatted, the shared model "
    "says TypeError; the file is unchanged either way)",
]
TRUSTED_EXTRA = [
    "harness/lib/storeimpl2.py + storegen2.py + storeimpl.py (two-file protocol, path addressing by iteration, "
    "HDF5-level dump with h5py)",
    "harness/lib/walk.py (canonical API-level walk)",
]
READY = True
MANIFEST = {
    "level_text": "Kernel-checked theorems over a Lean model of HDF5's object copy on the object graph under a NIX file "
                  "(Store/Copy.lean) and of nixio's copy entry points: the copied set is exactly what is reachable "
                  "from the source, the key map is a graph isomorphism onto new nodes (same kind, attributes, ordered "
                  "links mapped through it), all links of the copy stay inside the copy, ids are kept or all fresh and "
                  "distinct (groups and datasets alike), the supplied name is used, an existing name is refused, every "
                  "old node is unchanged except for the one new link in the destination container, the final state of a "
                  "shallow section copy (properties re-added in order), and independence for every history of API calls "
                  "made on the copy's side or on the source's side, entity deletions (delete_all by object, file-wide) "
                  "included (one frame theorem for histories on a link-closed side; invariant SideInv) - for every "
                  "source graph, source node, destination file, both id policies, same-file and cross-file. Handles: which "
                  "object an entry point copies given the handle it is called with (Store/CopyHandle.lean: the source named "
                  "by the handle's HDF5 object - copy_section, every handle - or by a path below the handle's parent - the "
                  "other entry points, every handle whose parent owns the object; Generated/HandleSites.lean: every "
                  "constructor call of an entity class constructs the handle with the owning parent, or hands out a Section; the "
                  "two _inst_item methods build the handle on the very entry they were asked for, so the members a copy's "
                  "link lists hand out are objects of the copy). "
                  "Tied to the code (a) by an ast "
                  "translator that renders H5Group.copy (rename, id regeneration, guards of the id visitor) and the "
                  "eight copy entry points as data, with theorems that the interpretation of the generated shapes is the "
                  "model for all arguments (an edited guard / flag breaks lake build on a named theorem), and (b) by "
                  "differential execution of random two-file histories with copies of every kind incl. data frames "
                  "(HDF5-level dumps of both files compared).",
    "level_note": "Trusted: Lean kernel; standard axioms; the translators harness/extract/copyshape.py, handlesites.py and the "
                  "correspondence harness; H5Ocopy semantics are modelled, not verified; dataset contents are checked by "
                  "the implementation-side oracle only; that nixio constructs the handles of link lists, references, "
                  "positions / extents and feature data with the owning block as parent is checked by the oracle (copies made "
                  "with handles of every provenance) and by the correspondence's source_of probes, read off the "
                  "constructor calls (HandleSite.owned), not proved. Partial: with regenerated ids the link lists of the copy keep the "
                  "source's ids as entry names (open finding C20-fresh-ids-stale-link-names: id_named_links_kept + "
                  "counterexample); history-level independence is proved "
                  "for histories of calls on either side whose entity arguments lie on that side (source side: destination "
                  "container outside the source sub-graph). Deletion: delete_all unlinks the given objects (repaired in "
                  "/repo, fixed finding C20-delete-hits-same-id-copy shared with C04; the statement about the old "
                  "deletion by entity_id is kept as independent_delete_counterexample_before_fix).",
    "technique": "Lean 4 model + theorems (graph isomorphism, invariants over histories), ast translator to generated "
                 "shape definitions, differential correspondence, implementation-side property oracle",
}

FIXED_DELETE = "delete-hits-same-id-copy"      # repaired in /repo (status "fixed"): a failure at this site is a VIOLATION
KNOWN_STALE = "fresh-ids-stale-link-names"
KNOWN_SITES = (KNOWN_STALE,)


def extract(repo):
    """(T) the shape of H5Group.copy (rename, id regeneration, guards of the id visitor) and of the eight copy entry
    points (incl. how each names the source of the HDF5 copy) -> NixModel/Generated/CopyShape.lean; every call that
    constructs an entity handle, with its parent expression -> NixModel/Generated/HandleSites.lean; the *_source*,
    *_handle* and handle_sites_* theorems quantify over the generated values"""
    files = dict(_ex.extract(repo))
    files.update(_hs.extract(repo))
    return files
UUID_RE = re.compile(r"^[0-9a-f]{8}-[0-9a-f]{4}-4[0-9a-f]{3}-[89ab][0-9a-f]{3}-[0-9a-f]{12}$")


# =========================================================================================
# correspondence: random two-file histories with copies, model driver vs real nixio
# =========================================================================================

COPY_KINDS = ["block", "data_array", "data_frame", "tag", "multi_tag", "section", "section", "property"]
CNAME = {"data_array": "data_arrays", "data_frame": "data_frames", "tag": "tags", "multi_tag": "multi_tags"}


def kind_of_handle(ent):
    return {nixio.Block: "block", nixio.DataArray: "data_array", nixio.DataFrame: "data_frame", nixio.Tag: "tag",
            nixio.MultiTag: "multi_tag", nixio.Section: "section", nixio.Property: "property"}.get(type(ent))


class ImplF(Impl):
    """the shared one-file runner plus `Block.create_data_frame` (C20's histories copy data frames too). While a copy
    is being made (`subst` = a random source) an entity found by its path is replaced, in 60% of the cases, by another
    handle of the same HDF5 object (`handle_catalogue`: fetched through a group, a tag, a metadata link, by id …): the
    model copies the *object*, whatever handle the implementation is given"""
    subst = None
    subst_counts = None

    def nav(self, path):
        ent = Impl.nav(self, path)
        rng = self.subst
        if rng is not None and rng.random() < 0.6:
            kind = kind_of_handle(ent)
            if kind is not None:
                label, h = other_handle(rng, handle_catalogue(self.f, [kind]), ent, 0.0)
                c = provenance_class(label)
                self.subst_counts[c] = self.subst_counts.get(c, 0) + 1
                return h
        return ent

    def _run(self, op):
        if op[0] == "source_of" and isinstance(op[5], list):
            # corpus form: the handle is named by how it is fetched - ["own"], ["link", <path of the linking section>],
            # ["metadata", <path of the entity>], ["member", <path of the group / tag>, <container>, <position>]
            _, _, cls, objpath, pp, how = op
            own = Impl.nav(self, objpath)
            if how[0] == "own":
                h = own
            elif how[0] in ("link", "metadata"):
                h = getattr(Impl.nav(self, how[1]), how[0])
            else:
                h = getattr(Impl.nav(self, how[1]), how[2])[how[3]]
            par = h._parent
            want = None if pp is None else (self.f if pp == [] else Impl.nav(self, pp))
            if addr(h5obj(h)) != addr(h5obj(own)) or (par is None) != (want is None) or \
                    (par is not None and not isinstance(par, nixio.File) and addr(h5obj(par)) != addr(h5obj(want))):
                raise storeimpl_BadOp("the handle is not what the op says")
            if op[1] == "object":           # h5py takes an object handed to Group.copy as it is
                return [True, h.name]
            try:
                found = par._h5group.group[cls][h.name]
                return [addr(found) == addr(h5obj(h)), _text(found.attrs.get("name")) or ""]
            except (KeyError, AttributeError, TypeError):
                return None
        if op[0] == "create_frame":
            owner = self.nav(op[1])
            if not hasattr(owner, "create_data_frame"):
                raise AttributeError("create_data_frame")
            owner.create_data_frame(self.name_arg(op[2]), op[3], col_dict=OrderedDict([("a", int), ("b", float)]),
                                    data=[(1, 0.5), (2, 1.5)])
            return None
        return Impl._run(self, op)


class Impl20(Impl2):
    """two-file runner with data frames: creation and `create_data_frame(copy_from=…)`"""

    def __init__(self, path0, path1, literal_uuid_names=(), rng=None):
        self.files = [ImplF(path0, literal_uuid_names), ImplF(path1, literal_uuid_names)]
        self.cur = 0
        self.rng = rng
        self.handles = {}
        for f in self.files:
            f.subst_counts = self.handles

    def _copy(self, op):
        for f in self.files:
            f.subst = self.rng
        try:
            return self._copy_with(op)
        finally:
            for f in self.files:
                f.subst = None

    def _copy_with(self, op):
        if op[0] == "copy_into" and op[2] == "data_frame":
            _, dp, what, sf, sp, name, keep = op
            blk = self.impl.nav(dp)
            src = self.files[sf].nav(sp)
            if not isinstance(blk, nixio.Block):
                raise AttributeError("not a block")
            blk.create_data_frame(name=name, copy_from=src, keep_copy_id=keep)
            return None
        return Impl2._copy(self, op)


def _text(v):
    return v.decode() if isinstance(v, bytes) else (None if v is None else str(v))


def frame_ents(impl):
    """data frames reachable through the public API (storegen.inventory does not list them)"""
    out = []
    for bi, b in enumerate(impl.f.blocks):
        bp = ["data", bi if storegen.real_uuid(b.name) else b.name]
        for i, e in enumerate(b.data_frames):
            out.append(storegen.Ent("data_frame", bp + ["data_frames", i if storegen.real_uuid(e.name) else e.name],
                                    e.name, b.name))
    return out


class Gen20(storegen2.Gen2):
    """copy steps chosen from what exists, followed by directed mutations of the copy or of the source"""

    def __init__(self, rng, impl, profile="mixed"):
        super().__init__(rng, impl, profile)
        self.stats = {"copy_ok": 0, "copy_refused": 0, "near_mutations": 0, "same_file": 0, "cross_file": 0,
                      "keep": 0, "fresh": 0, "shallow": 0, "kinds": {}, "deletes_after_copy": {}, "source_probes": {}}

    def frames(self, fi):
        keep = self.impl.cur
        self.impl.cur = fi
        try:
            return frame_ents(self.impl)
        finally:
            self.impl.cur = keep

    def under(self, fi, prefix):
        return [e for e in self.inv(fi) if e.path[:len(prefix)] == prefix]

    def mutate_near(self, fi, prefix):
        """one mutation of an entity at or below `prefix` in file `fi`"""
        rng = self.rng
        self.use(fi)
        sub = self.under(fi, prefix)
        fr = [e for e in self.frames(fi) if e.path[:len(prefix)] == prefix]
        if fr and (not sub or rng.random() < 0.3):
            self.stats["near_mutations"] += 1
            self.do(["set_attr", rng.choice(fr).path, rng.choice(["definition", "type"]), rng.choice(["x", "é", None])])
            return
        if not sub:
            return
        self.stats["near_mutations"] += 1
        r = rng.random()
        if r < 0.3:
            e = rng.choice(sub)
            self.do(["set_attr", e.path, rng.choice(["definition", "type", "label", "unit", "repository"]),
                     rng.choice([None, "x", "mV", "é"])])
        else:
            # the shared generator helpers pick owners/targets from the list they are given; a sub-tree may lack
            # what they look for (no block, no section …): then no op is formed (implementation errors are never
            # raised here — Impl.run reports them as outputs)
            n0 = len(self.ops)
            try:
                if r < 0.55:
                    self.create(sub)
                elif r < 0.75:
                    self.delete(sub)
                elif r < 0.9:
                    self.link(sub)
                else:
                    self.role(sub)
            except (AttributeError, TypeError, IndexError, ValueError):
                del self.ops[n0:], self.outs[n0:]

    def delete_near(self, fi, prefix, label):
        """`del container[x]` (delete_all, file-wide) of the entity at `prefix` itself or of an entity below it - made
        right after a copy, on the source or on the copy: after an id-keeping copy within one file the other side
        carries the same ids, and must stay (deletion is by object)"""
        rng = self.rng
        self.use(fi)
        sub = self.under(fi, prefix)
        top = [e for e in sub if e.path == prefix]
        if top and rng.random() < 0.5:
            sub = top
        if not sub:
            return
        n0 = len(self.ops)
        try:
            self.delete(sub)
        except (AttributeError, TypeError, IndexError, ValueError):
            del self.ops[n0:], self.outs[n0:]
            return
        if any(op[0] == "del" and "ok" in out for op, out in zip(self.ops[n0:], self.outs[n0:])):
            d = self.stats["deletes_after_copy"]
            d[label] = d.get(label, 0) + 1

    SOURCE_CLS = {"block": "data", "data_array": "data_arrays", "data_frame": "data_frames", "tag": "tags",
                  "multi_tag": "multi_tags", "property": "properties"}

    def probe_sources(self, fi):
        """the model's `sourceOf .parentPath` (Store/CopyHandle.lean) against h5py's path lookup below the group of the
        handle's parent, for handles of every provenance of file `fi` (up to 8, drawn over the provenance classes):
        op ["source_of", "path", <container>, <path of the handle's object>, <path of the handle's parent | null>, label];
        answer [found the handle's own object, name of what was found] or null"""
        rng = self.rng
        self.use(fi)
        impl = self.impl.files[fi]
        paths = {}
        for e in self.inv(fi) + self.frames(fi):
            try:
                paths.setdefault(addr(h5obj(Impl.nav(impl, e.path))), e.path)
            except Exception:
                pass
        cat = handle_catalogue(impl.f, list(self.SOURCE_CLS) + ["section"])
        classes = {}
        for a, hs in cat.items():
            if a in paths:
                for lab, h in hs:
                    classes.setdefault(provenance_class(lab), []).append((lab, h))
        for c in rng.sample(sorted(classes), min(8, len(classes))):
            lab, h = rng.choice(classes[c])
            kind, par = kind_of_handle(h), h._parent
            if kind is None:
                continue
            cls = self.SOURCE_CLS.get(kind) or ("sections" if isinstance(par, nixio.Section) else "metadata")
            if par is None:
                pp = None
            elif isinstance(par, nixio.File):
                pp = []
            else:
                pp = paths.get(addr(h5obj(par)))
                if pp is None:
                    continue
            try:
                found = par._h5group.group[cls][h.name]
                out = [addr(found) == addr(h5obj(h)), _text(found.attrs.get("name")) or ""]
            except (KeyError, AttributeError, TypeError):
                out = None
            self.ops.append(["source_of", "path", cls, paths[addr(h5obj(h))], pp, c])
            self.outs.append({"ok": out})
            k = "probe/%s/%s" % (c, "none" if out is None else ("own" if out[0] else "OTHER"))
            self.stats["source_probes"][k] = self.stats["source_probes"].get(k, 0) + 1

    def copy_step(self):
        rng = self.rng
        sf = rng.choice([0, 0, 1])
        df = sf if rng.random() < 0.55 else 1 - sf
        self.use(df)
        src_ents = self.inv(sf)
        have = {e.kind for e in src_ents}
        # make the rarer copyable kinds available in the source file
        made = False
        if "property" not in have and "section" in have and rng.random() < 0.6:
            self.use(sf)
            self.do(["create_property", self.pick(src_ents, "section").path, rng.choice(["p", "q", "é", "0f" * 16])])
            made = True
        if "multi_tag" not in have and "data_array" in have and rng.random() < 0.6:
            self.use(sf)
            da = self.pick(src_ents, "data_array")
            self.do(["create", da.path[:2], "multi_tag", rng.choice(["mt", "m2", "é"]), "t", da.path])
            made = True
        if "data_array" not in have and "block" in have and rng.random() < 0.5:
            self.use(sf)
            self.do(["create", self.pick(src_ents, "block").path, "data_array", rng.choice(["a", "a2", "é"]), "t", None])
            made = True
            src_ents = self.inv(sf)
            have = {e.kind for e in src_ents}
        if "tag" not in have and "data_array" in have and rng.random() < 0.6:
            self.use(sf)
            da = self.pick(src_ents, "data_array")
            self.do(["create", da.path[:2], "tag", rng.choice(["tg", "t2", "é"]), "t", None])
            made = True
        src_frames = self.frames(sf)
        if not src_frames and "block" in have and rng.random() < 0.3:
            self.use(sf)
            self.do(["create_frame", self.pick(src_ents, "block").path, rng.choice(["fr", "f2", "é"]), "t"])
            src_frames = self.frames(sf)
            made = True
        if made:
            self.use(df)
            src_ents = self.inv(sf)
            have = {e.kind for e in src_ents}
        src_ents = src_ents + src_frames
        have = {e.kind for e in src_ents}
        dst_ents = self.inv(df)
        kinds = [k for k in COPY_KINDS if k in have]
        if not kinds:
            return False
        kind = rng.choice([k for k in kinds for _ in range(1 if k in ("block", "data_frame") else 3)])
        src = self.pick(src_ents, kind if rng.random() < 0.95 else None)
        if src is None:
            return False
        if kind in ("tag", "multi_tag") and src.kind == kind and rng.random() < 0.5:
            # give the source internal links worth copying: a reference to / a feature on an array of its block
            da = self.pick(src_ents, "data_array", block=src.block)
            if da is not None:
                self.use(sf)
                self.do(["append", src.path, "references", {"o": da.path}])
                if rng.random() < 0.5:
                    self.do(["create_feature", src.path, da.path, rng.choice(["untagged", "tagged", "indexed"])])
                self.stats["enriched"] = self.stats.get("enriched", 0) + 1
                self.use(df)
        keep = rng.random() < 0.5
        name = rng.choice(storegen2.NEW_NAMES) if rng.random() < 0.7 else ""
        dest_path = None
        shallow = False
        if kind == "block":
            out = self.do(["copy_block", sf, src.path, name, keep])
            self.probe([], "data", "file")
            dest_path = ["data"]
        elif kind in ("data_array", "data_frame", "tag", "multi_tag"):
            blk = self.pick(dst_ents, "block" if rng.random() < 0.95 else None)
            if blk is None:
                return False
            out = self.do(["copy_into", blk.path, kind, sf, src.path, name, keep])
            if blk.kind == "block":
                self.probe(blk.path, CNAME[kind], "block")
                dest_path = blk.path + [CNAME[kind]]
        elif kind == "section":
            children = rng.random() < 0.6
            shallow = not children
            if rng.random() < 0.5:
                out = self.do(["copy_section", None, sf, src.path, children, keep, name])
                self.probe([], "metadata", "file")
                dest_path = ["metadata"]
            else:
                dsec = self.pick(dst_ents, "section" if rng.random() < 0.95 else None)
                if dsec is None:
                    return False
                out = self.do(["copy_section", dsec.path, sf, src.path, children, keep, name])
                if dsec.kind == "section":
                    self.probe(dsec.path, "sections", "section")
                    dest_path = dsec.path + ["sections"]
        else:
            dsec = self.pick(dst_ents, "section" if rng.random() < 0.95 else None)
            if dsec is None:
                return False
            out = self.do(["copy_property", dsec.path, sf, src.path, name, keep])
            if dsec.kind == "section":
                self.probe(dsec.path, "properties", "section")
                dest_path = dsec.path + ["properties"]
        st = self.stats
        st["kinds"][kind] = st["kinds"].get(kind, 0) + 1
        if "ok" in out:
            st["copy_ok"] += 1
            st["same_file" if sf == df else "cross_file"] += 1
            st["keep" if keep else "fresh"] += 1
            if shallow:
                st["shallow"] += 1
        else:
            st["copy_refused"] += 1
        self.dump_both()
        if rng.random() < 0.4:
            self.probe_sources(rng.choice([sf, df]))
        eff = name or src.name
        if "ok" in out and dest_path is not None and eff and not storegen.real_uuid(eff) and src.kind == kind:
            cpath = dest_path + [eff]
            for _ in range(rng.choice([1, 2, 3])):
                if rng.random() < 0.5:
                    self.mutate_near(df, cpath)          # change the copy …
                else:
                    self.mutate_near(sf, src.path)        # … or the source
            self.dump_both()
            if rng.random() < (0.7 if (keep and sf == df) else 0.3):
                # then delete on one side (the entity itself or something below it), whole-file dumps of both files after
                label = "%s/%s/" % ("same" if sf == df else "cross", "keep" if keep else "fresh")
                if rng.random() < 0.5:
                    self.delete_near(sf, src.path, label + "source")
                else:
                    self.delete_near(df, cpath, label + "copy")
                self.dump_both()
        return True


def run_history20(ctx, rng, steps, tag):
    p0, p1 = ctx.tmpfile("c20-%s-0.nix" % tag), ctx.tmpfile("c20-%s-1.nix" % tag)
    impl = Impl20(p0, p1, literal_uuid_names=(storegen.LIT_UUID,), rng=random.Random(rng.random()))
    gen = Gen20(rng, impl, "links")
    try:
        for k in range(steps):
            gen.profile = "links" if k < steps * 0.35 else "mixed"
            if k > 8 and rng.random() < 0.4:
                gen.copy_step()
            else:
                if rng.random() < 0.25:
                    gen.use(rng.choice([0, 1]))
                gen.step()
            if rng.random() < 0.03:
                impl.reopen("a")
                gen.ops.append(["noop"])
                gen.outs.append({"ok": None})
        gen.dump_both()
    finally:
        impl.close()
        impl.remove()
    gen.stats["handles"] = dict(impl.handles)
    return gen.ops, gen.outs, gen.stats


def canon_dump(nodes):
    """re-number a whole-file dump with the links of *entity* nodes (nodes that carry attributes: their members are
    container groups, role links and datasets, addressed by name only) taken in name order; links of container
    groups keep their order (it is the container order). Reason: a refused call (duplicate name, wrong kind) may
    leave an empty container group behind in the real file — invisible in the dump and through the API — so that the
    creation order of an entity's container groups is not determined by the API-level history."""
    by_n = {n["n"]: n for n in nodes}
    order = {}
    out = []

    def visit(k):
        if k in order:
            return order[k]
        order[k] = len(order)
        me = order[k]
        n = by_n[k]
        node = {"n": me, "kind": n["kind"], "attrs": n["attrs"], "links": None}
        out.append(node)
        links = n["links"]
        if n["attrs"] or k == 0:
            links = sorted(links, key=lambda l: l[0])
        node["links"] = [[nm, visit(t)] for nm, t in links]
        return me

    if nodes:
        visit(0)
    return out


def feature_object_key(op):
    """`append` / `del` / `has` / `get` with a Feature *object* as the key, or a role link (`x.metadata = …`, …) set to a
    Feature object (a path through a `features` container ends at a Feature)"""
    if op[0] == "set_role":
        return len(op) > 3 and isinstance(op[3], list) and "features" in op[3]
    return (op[0] in ("append", "del", "has", "get") and len(op) > 3 and isinstance(op[3], dict) and "o" in op[3]
            and "features" in op[3]["o"])


def canon_outs(ops, outs):
    res = []
    for op, o in zip(ops, outs):
        if op[0] == "dump" and isinstance(o.get("ok"), list):
            try:
                o = {"ok": canon_dump(o["ok"])}
            except Exception:
                pass
        elif "err" in o and feature_object_key(op):
            # a Feature object where an entity / a key / a Section is expected is refused on both sides; the class of the
            # error is TypeError except for a Feature whose data was deleted (Feature.__str__, called by util.is_uuid and
            # by the formatting of the TypeError message of the role setters, raises RuntimeError; the shared model says
            # TypeError). Not this property's subject: compared as refused.
            o = {"err": "refused"}
        res.append(o)
    return res


def compare20(ops, outs, model):
    return storegen.compare(ops, canon_outs(ops, outs), canon_outs(ops, model))


def _merge(total, st):
    for k, v in st.items():
        if isinstance(v, dict):
            d = total.setdefault(k, {})
            for kk, vv in v.items():
                d[kk] = d.get(kk, 0) + vv
        else:
            total[k] = total.get(k, 0) + v


def correspondence(ctx):
    n_hist = ctx.budget(20, 160)
    steps = ctx.budget(60, 90)
    disagreements = []
    total = 0
    dist, errs, stats = {}, {}, {}
    seen = set()
    samples = []
    # corpus: recorded op histories (regressions) run first
    for ci, case in enumerate(core.load_corpus(PROP)):
        ops = case["ops"]
        p0, p1 = ctx.tmpfile("c20-corpus-%d-0.nix" % ci), ctx.tmpfile("c20-corpus-%d-1.nix" % ci)
        impl = Impl20(p0, p1, literal_uuid_names=(storegen.LIT_UUID,))
        try:
            outs = [impl.run(op) for op in ops]
        finally:
            impl.close()
            impl.remove()
        model = core.run_driver(PROP, [["reset"]] + ops)[1:]
        for k, op, m, i in compare20(ops, outs, model):
            disagreements.append(Disagreement({"corpus": case.get("name", ci), "index": k, "op": op}, m, i))
        total += len(ops)
    # the generated histories get ~100 s of wall time in the quick tier, ~600 s in the thorough tier (at least 10 of
    # them are run); a tree whose anchored sources changed doubles the number of histories, not the time
    t_end = time.time() + (100 if ctx.quick() else 600)        # (thorough: ~10 min of histories, ~7 min of oracle)
    ran = 0
    for h in range(n_hist):
        if h >= 10 and time.time() > t_end:
            break
        ran += 1
        rng = random.Random("%s/%d/%d" % (PROP, ctx.seed, h))
        ops, outs, st = run_history20(ctx, rng, steps, "h%d" % h)
        _merge(stats, st)
        model = core.run_driver(PROP, [["reset"]] + ops)[1:]
        for k, op, m, i in compare20(ops, outs, model):
            disagreements.append(Disagreement({"history": h, "index": k, "op": op,
                                               "prefix": [o for o in ops[:k + 1] if o[0] not in
                                                          ("get", "has", "len", "list", "role")]
                                               if len(ops) < 1500 else None}, m, i))
        total += len(ops)
        for op, o in zip(ops, outs):
            dist[op[0]] = dist.get(op[0], 0) + 1
            if "err" in o:
                errs[o["err"]] = errs.get(o["err"], 0) + 1
            if op[0] not in ("noop", "dump", "use") and ("err" in o or o.get("ok") not in (None, [], 0, False)):
                seen.add(core.canon(op))
        if h < 2:
            cp = [(op, o) for op, o in zip(ops, outs) if op[0].startswith("copy_")][:4]
            samples.append({"history": h, "first_copies": [c[0] for c in cp], "outputs": [c[1] for c in cp]})
    return {"evaluations": total, "distinct_nontrivial": len(seen),
            "rule": "adaptive random histories over two files (profile links, then mixed): create/link/role/delete/attr ops "
                    "of the structural model plus copies of blocks, arrays, data frames, tags, multi-tags (sources enriched with "
                    "references / features before half of the tag copies), sections (recursive and "
                    "shallow, into the file or a section) and properties, same-file and cross-file, ids kept or "
                    "regenerated, with/without a new name (plain, non-ASCII, UUID-looking, existing names); every access "
                    "path of the destination container queried after a copy; HDF5-level dumps of both files compared "
                    "after every copy; then 1-3 mutations directed at the copy or at the source, and both dumps again; "
                    "then (70% after an id-keeping same-file copy, else 30%) `del container[x]` of the source / the copy "
                    "itself or of an entity below it, and both dumps again (distribution.copies.deletes_after_copy). "
                    "During a copy 60% of the entities found by path are replaced, on the implementation side, by another "
                    "handle of the same object (distribution.copies.handles); after 40% of the copies up to 8 handles of "
                    "every provenance are probed: the model's sourceOf (the object a path below the handle's parent "
                    "names) against h5py's lookup (distribution.copies.source_probes). "
                    "non-trivial = distinct op (canonical JSON) whose result is an error or a non-empty value",
            "samples": samples, "distribution": {"ops": dist, "impl_errors": errs, "copies": stats,
                                                 "histories": ran, "histories_budget": n_hist},
            "disagreements": disagreements, "exhaustive": False}


# =========================================================================================
# oracle: the property stated on the implementation alone
# =========================================================================================


def h5obj(ent):
    hg = ent._h5group
    return hg.dataset if hasattr(hg, "dataset") else hg.group


def addr(o):
    info = h5py.h5o.get_info(o.id)
    tok = getattr(info, "token", None)
    return (o.file.filename, bytes(tok) if tok is not None else info.addr)


def link_names(g):
    names = []
    try:
        g.id.links.iterate(lambda nm: names.append(nm), idx_type=h5py.h5.INDEX_CRT_ORDER, order=h5py.h5.ITER_INC)
    except Exception:
        names = sorted(g.keys())
    return [n.decode() if isinstance(n, bytes) else n for n in names]


def _attr(v):
    if isinstance(v, bytes):
        return ["b", v.decode("utf-8", "replace")]
    if isinstance(v, np.ndarray):
        return ["a", str(v.dtype.kind), list(v.shape), W.num(v)]
    return [type(v).__name__[:3], W.num(v)]


def h5dump(root):
    """canonical HDF5-level dump of everything reachable from `root` by hard links: nodes numbered by first
    visit (depth first, link creation order); per node kind, all attributes, dataset dtype/shape/content hash,
    ordered links. Returns (nodes, addresses in visit order)."""
    seen = {}
    nodes = []

    def visit(o):
        a = addr(o)
        if a in seen:
            return seen[a]
        n = len(seen)
        seen[a] = n
        node = {"n": n}
        nodes.append(node)
        attrs = {}
        for k in o.attrs:
            attrs[k] = _attr(o.attrs[k])
        node["id"] = attrs.pop("entity_id", None)
        node["attrs"] = attrs
        if isinstance(o, h5py.Group):
            node["kind"] = "group"
            node["links"] = [[nm, visit(o[nm])] for nm in link_names(o)]
        else:
            node["kind"] = "dataset"
            node["dtype"] = str(o.dtype)
            node["shape"] = list(o.shape)
            try:
                node["data"] = W.data_hash(o[()])
            except Exception as e:
                node["data"] = "!" + type(e).__name__
        return n

    visit(root)
    return nodes, list(seen)


def scan(f):
    """(addresses, entity ids) of every object reachable in the file — no data is read"""
    addrs, ids = set(), set()

    def visit(o):
        a = addr(o)
        if a in addrs:
            return
        addrs.add(a)
        i = o.attrs.get("entity_id")
        if i is not None:
            ids.add(i.decode() if isinstance(i, bytes) else str(i))
        if isinstance(o, h5py.Group):
            for nm in o:
                visit(o[nm])
    visit(f._h5file["/"])
    return addrs, ids


def reach_addrs(o):
    """addresses of everything reachable from the HDF5 object `o` by hard links (no data is read)"""
    seen = set()

    def visit(x):
        a = addr(x)
        if a in seen:
            return
        seen.add(a)
        if isinstance(x, h5py.Group):
            for nm in x:
                visit(x[nm])
    visit(o)
    return seen


def dup_ids(f):
    """entity ids carried by more than one object of the file (left behind by id-keeping copies)"""
    seen, count = set(), {}

    def visit(o):
        a = addr(o)
        if a in seen:
            return
        seen.add(a)
        i = o.attrs.get("entity_id")
        if i is not None:
            i = i.decode() if isinstance(i, bytes) else str(i)
            count[i] = count.get(i, 0) + 1
        if isinstance(o, h5py.Group):
            for nm in o:
                visit(o[nm])
    visit(f._h5file["/"])
    return {i for i, n in count.items() if n > 1}


def all_addrs(f):
    return scan(f)[0]


def all_ids(f):
    return scan(f)[1]


# ---- API-level walk of one entity (harness/lib/walk.py records) -----------------------------------


def api_walk(kind, ent):
    out = []
    if kind == "block":
        W._block(out, ent)
        pref = "b:%s" % W._jname(ent)
        for r in out:
            r["path"] = "<root>" + r["path"][len(pref):]
    elif kind == "data_array":
        W._data_array(out, "<root>", ent)
    elif kind == "data_frame":
        W._data_frame(out, "<root>", ent)
    elif kind == "tag":
        W._tag(out, "<root>", ent)
    elif kind == "multi_tag":
        W._multi_tag(out, "<root>", ent)
    elif kind == "section":
        W._section(out, "<root>", ent)
    elif kind == "property":
        W._property(out, "<root>", ent)
    return out


# ---- building content -------------------------------------------------------------------------------

DEFS = [None, "a definition", "é ü", ""]
UNITS = ["mV", "s", "Hz", None]
# entity names that are also the names nixio gives to members of its own HDF5 groups: an entity so named must never be
# taken for the link of that name
INTERNAL_NAMES = ["positions", "extents", "data", "references", "features", "dimensions", "metadata", "sources", "link",
                  "properties", "sections", "data_arrays", "tags"]


def populate(f, rng, tag):
    """a small but richly linked file: sections (nested, properties of several types, a section link), a block with
    arrays (several dtypes and dimension kinds, an empty one), a data frame, nested sources, tags and multi-tags with
    references / features / sources / metadata, a group that links them"""
    secs = []
    for i in range(rng.choice([2, 3])):
        s = f.create_section("sec%d%s" % (i, tag), rng.choice(["t", "meta"]))
        s.definition = rng.choice(DEFS)
        if rng.random() < 0.5:
            s.repository = "repo://x"
        s.create_property("ints", [1, 2, rng.randrange(100)])
        s.create_property("txt", ["a", "é"])
        if rng.random() < 0.6:
            p = s.create_property("flt", [0.5, rng.random()])
            p.unit = "mV"
            p.definition = "floats"
        if rng.random() < 0.5:
            s.create_property("flag", [True, False])
        if rng.random() < 0.4:
            s.create_property("empty", nixio.DataType.Int64)
        sub = s.create_section("sub", "t")
        sub.create_property("q", [rng.randrange(10)])
        if rng.random() < 0.6:
            subsub = sub.create_section("deep", "t")
            subsub.create_property("z", ["deep"])
        if rng.random() < 0.4:
            s.create_section("sub2", "t")
        if rng.random() < 0.3:
            nm = rng.choice(INTERNAL_NAMES)
            s.create_section(nm, "t").create_property(nm, ["a section / property that is merely called %r" % nm])
        secs.append(s)
    if len(secs) > 1 and rng.random() < 0.7:
        secs[0].link = secs[1]
    blocks = []
    for bi in range(rng.choice([1, 2])):
        b = f.create_block("blk%d%s" % (bi, tag), "t")
        b.definition = rng.choice(DEFS)
        if rng.random() < 0.6:
            b.metadata = rng.choice(secs)
        arrays = []
        a = b.create_data_array("sig", "t", data=np.arange(12, dtype=float).reshape(3, 4) * rng.random())
        a.label, a.unit = "voltage", "mV"
        a.append_set_dimension(["a", "b", "c"])
        a.append_sampled_dimension(0.5, label="time", unit="s", offset=1.0)
        if rng.random() < 0.5:
            a.polynom_coefficients = [1.0, 2.0]
            a.expansion_origin = 0.25
        arrays.append(a)
        a2 = b.create_data_array("ints", "t", data=np.array([rng.randrange(50) for _ in range(5)], dtype=np.int32))
        a2.append_range_dimension([1.0, 2.0, 4.0, 8.0, 16.0], label="x", unit="s")
        arrays.append(a2)
        pos = b.create_data_array("pos", "t", data=np.array([[0.0, 1.0], [1.0, 2.0]]))
        pos.append_set_dimension()
        pos.append_set_dimension()
        ext = b.create_data_array("ext", "t", data=np.array([[1.0, 1.0], [0.5, 0.5]]))
        ext.append_set_dimension()
        ext.append_set_dimension()
        arrays += [pos, ext]
        if rng.random() < 0.6:
            arrays.append(b.create_data_array("empty", "t", dtype=nixio.DataType.Double, shape=(0,)))
        if rng.random() < 0.6:
            tx = b.create_data_array("text", "t", dtype=nixio.DataType.String, data=["x", "yy", "é"])
            arrays.append(tx)
        if rng.random() < 0.5:
            ticks = b.create_data_array("ticks", "t", data=np.array([0.0, 1.0, 3.0]))
            ticks.append_range_dimension_using_self()
            arrays.append(ticks)
        for nm in rng.sample(INTERNAL_NAMES, rng.choice([0, 1, 2])):
            x = b.create_data_array(nm, "t", data=np.array([[7.0, 7.5], [8.0, 8.5]]) + rng.random())
            x.append_set_dimension()
            x.append_set_dimension()
            x.definition = "an array that is merely called %r" % nm
        df = None
        if rng.random() < 0.8:
            df = b.create_data_frame("frame", "t", col_dict=OrderedDict([("n", int), ("name", str), ("v", float)]),
                                     data=[(1, "a", 0.5), (2, "é", rng.random())])
            df.definition = rng.choice(DEFS)
        src = b.create_source("src", "t")
        deep = src.create_source("deep", "t")
        if rng.random() < 0.5:
            deep.metadata = rng.choice(secs)
        src2 = b.create_source("src2", "t")
        a.sources.append(src)
        if rng.random() < 0.5:
            a.metadata = rng.choice(secs)
        tags = []
        for ti in range(rng.choice([1, 2])):
            t = b.create_tag("tag%d" % ti, "t", [0.0, 1.0])
            t.extent = [1.0, 2.0]
            t.units = ["mV", "s"]
            t.definition = rng.choice(DEFS)
            for r in rng.sample(arrays[:2], rng.choice([1, 2])):
                t.references.append(r)
            if rng.random() < 0.7:
                t.create_feature(rng.choice(arrays), rng.choice(["tagged", "untagged", "indexed"]))
            if df is not None and rng.random() < 0.4:
                t.create_feature(df, rng.choice(["untagged", "indexed"]))
            if rng.random() < 0.6:
                t.sources.append(rng.choice([src, deep, src2]))
            if rng.random() < 0.5:
                t.metadata = rng.choice(secs)
            tags.append(t)
        mts = []
        for mi in range(rng.choice([1, 2])):
            mt = b.create_multi_tag("mt%d" % mi, "t", positions=pos)
            if rng.random() < 0.7:
                mt.extents = ext
            mt.references.append(arrays[0])
            if rng.random() < 0.6:
                mt.create_feature(rng.choice(arrays), "indexed")
            if rng.random() < 0.4:
                mt.sources.append(src)
            if rng.random() < 0.4:
                mt.metadata = rng.choice(secs)
            mts.append(mt)
        g = b.create_group("grp", "t")
        for x in rng.sample(arrays, min(3, len(arrays))):
            g.data_arrays.append(x)
        g.tags.append(tags[0])
        g.multi_tags.append(mts[0])
        if df is not None and rng.random() < 0.5:
            g.data_frames.append(df)
        g.sources.append(src)
        blocks.append(b)
        # earlier id-keeping copies inside the file: their ids (and those of everything below) are carried by two
        # objects; the twins have diverged since
        if rng.random() < 0.7:
            tw = b.create_data_array(name="sig-twin", copy_from=a)
            tw.definition = "twin of sig, relabelled"
            tw.label = "current"
        if rng.random() < 0.5:
            tw = b.create_tag(name="tag0-twin", copy_from=tags[0])
            tw.definition = "twin of tag0"
            tw.position = [4.0, 5.0]
    if rng.random() < 0.5:
        tw = f.create_block(name=blocks[0].name + "-twin", copy_from=blocks[0])     # a block holding same-name same-id members
        tw.definition = "twin of %s" % blocks[0].name
        tw.data_arrays["sig"].label = "relabelled in the twin block"
    if len(secs) > 1 and rng.random() < 0.8:
        tw = secs[0].copy_section(secs[1])                          # a root section, again below another one
        tw.definition = "twin of %s, changed since" % secs[1].name
        tw.create_property("added-to-the-twin", [1, 2, 3])
        tw.sections["sub"].create_property("added-below-the-twin", ["x"])
    if rng.random() < 0.5:
        tw = secs[-1].copy_section(secs[0].sections["sub"], name="sub-twin")   # a subsection, elsewhere under a new name
        tw.create_property("added-to-the-twin", [4])
    if rng.random() < 0.4:
        tw = f.copy_section(secs[0].sections["sub"], name="sub-at-root")
        tw.repository = "repo://twin"
    return blocks, secs


def candidates(f):
    """copyable entities of an open file, by kind: (entity, owner: block / section / parent section or None)"""
    out = {k: [] for k in ("block", "data_array", "data_frame", "tag", "multi_tag", "section", "property")}
    for b in f.blocks:
        out["block"].append((b, None))
        for a in b.data_arrays:
            out["data_array"].append((a, b))
        for d in b.data_frames:
            out["data_frame"].append((d, b))
        for t in b.tags:
            out["tag"].append((t, b))
        for m in b.multi_tags:
            out["multi_tag"].append((m, b))

    def secs(owner, parent):
        for s in owner.sections:
            out["section"].append((s, parent))        # parent section, None for a root section
            for p in s.props:
                out["property"].append((p, s))
            secs(s, s)
    secs(f, None)
    return out


# ---- handles of every provenance ----------------------------------------------------------------------------
#
# The property speaks of *entities*; a program holds *handles*, and the API hands out handles for one and the same
# entity along many ways: the owning container (by position, name, id, iteration), the member lists of groups, the
# references of tags, `multi_tag.positions` / `.extents`, `feature.data`, the `metadata` of every entity, `Section.link`,
# `Section.parent`, `find_sections`, `referring_*`, `inherited_properties`. A copy must be complete whatever handle of
# the source (and of the destination parent) it was given.

BLOCK_LISTS = ("data_arrays", "data_frames", "tags", "multi_tags")


def handle_catalogue(f, want):
    """every handle the public API hands out for objects of the kinds in `want` (block, data_array, data_frame, tag,
    multi_tag, section, property) of an open file, keyed by the HDF5 object the handle stands for:
    addr -> [(provenance, handle)]. The provenance is an expression over `file` that can be re-evaluated."""
    cat = {}
    want = set(want)
    linked = bool(want & {"data_array", "data_frame"})

    def add(label, thunk):
        try:
            h = thunk()
            if h is None or not hasattr(h, "_h5group"):
                return
            cat.setdefault(addr(h5obj(h)), []).append((label, h))
        except Exception:
            return

    def each(label, cont, on=True):
        try:
            items = list(cont)
        except Exception:
            return []
        if on:
            for i, e in enumerate(items):
                add("%s[%d]" % (label, i), lambda i=i: cont[i])
                add("%s[<name>]" % label, lambda e=e: cont[e.name])
                add("%s[<id>]" % label, lambda e=e: cont[e.id])
                add("next(iter(%s))" % label, lambda e=e: e)
        return items

    def listed(label, thunk):
        try:
            items = list(thunk())
        except Exception:
            return
        for i, e in enumerate(items):
            add("%s[%d]" % (label, i), lambda e=e: e)

    def meta(label, e):
        if "section" in want:
            add(label + ".metadata", lambda: e.metadata)

    def sources(label, owner):
        for i, s in enumerate(each(label + ".sources", owner.sources, False)):
            sl = "%s.sources[%d]" % (label, i)
            meta(sl, s)
            for r in ("referring_data_arrays", "referring_tags", "referring_multi_tags"):
                if r[len("referring_"):-1] in want:
                    listed("%s.%s" % (sl, r), lambda s=s, r=r: getattr(s, r))
            sources(sl, s)

    for bi, b in enumerate(each("file.blocks", f.blocks, "block" in want)):
        bl = "file.blocks[%d]" % bi
        meta(bl, b)
        for cname in BLOCK_LISTS:
            tagging = cname in ("tags", "multi_tags")
            if not (cname[:-1] in want or "section" in want or (tagging and linked)):
                continue
            for i, e in enumerate(each("%s.%s" % (bl, cname), getattr(b, cname), cname[:-1] in want)):
                el = "%s.%s[%d]" % (bl, cname, i)
                meta(el, e)
                if tagging and linked:
                    each(el + ".references", e.references, "data_array" in want)
                    try:
                        feats = list(e.features)
                    except Exception:
                        feats = []
                    for k, ft in enumerate(feats):
                        add("%s.features[%d].data" % (el, k), lambda ft=ft: ft.data)
                    if cname == "multi_tags" and "data_array" in want:
                        add(el + ".positions", lambda e=e: e.positions)
                        add(el + ".extents", lambda e=e: e.extents)
        if want - {"block", "property"}:
            for gi, g in enumerate(each(bl + ".groups", b.groups, False)):
                gl = "%s.groups[%d]" % (bl, gi)
                meta(gl, g)
                for cname in BLOCK_LISTS:
                    if cname[:-1] in want:
                        each("%s.%s" % (gl, cname), getattr(g, cname))
            if want - {"block", "property", "data_frame"}:
                sources(bl, b)

    def secs(label, owner):
        for i, s in enumerate(each(label + ".sections", owner.sections, "section" in want)):
            sl = "%s.sections[%d]" % (label, i)
            if "section" in want:
                add(sl + ".link", lambda s=s: s.link)
                add(sl + ".parent", lambda s=s: s.parent)
            if "property" in want:
                each(sl + ".props", s.props)
                listed(sl + ".inherited_properties()", s.inherited_properties)
            for r in ("referring_blocks", "referring_data_arrays", "referring_tags", "referring_multi_tags"):
                if r[len("referring_"):-1] in want:
                    listed("%s.%s" % (sl, r), lambda s=s, r=r: getattr(s, r))
            secs(sl, s)

    secs("file", f)
    if "section" in want:
        listed("file.find_sections()", f.find_sections)
    return cat


def provenance_class(label):
    """the provenance without positions and nesting depth: handles are drawn uniformly over these classes (else the
    plain container lookups would dominate)"""
    lab = re.sub(r"\[(\d+|<name>|<id>)\]", "", label)
    m = re.match(r"next\(iter\((.*)\)\)$", lab)
    lab = m.group(1) if m else lab
    lab = re.sub(r"(\.sections)+", ".sections", lab)
    return re.sub(r"(\.sources)+", ".sources", lab)


def other_handle(rng, cat, ent, plain_share=0.3):
    """(provenance, handle): another handle of the object `ent` stands for, of the same class, drawn over the provenance
    classes; with `plain_share` the given handle itself"""
    if rng.random() < plain_share:
        return "plain (owning container, by iteration)", ent
    alts = [(lab, h) for lab, h in cat.get(addr(h5obj(ent)), []) if type(h) is type(ent)]
    if not alts:
        return "plain (owning container, by iteration)", ent
    classes = {}
    for lab, h in alts:
        classes.setdefault(provenance_class(lab), []).append((lab, h))
    return rng.choice(classes[rng.choice(sorted(classes))])


# ---- link lists: membership and lookup by id ------------------------------------------------------------

LINK_LISTS = {"group": ("data_arrays", "data_frames", "tags", "multi_tags", "sources"), "tag": ("references", "sources"),
              "multi_tag": ("references", "sources"), "data_array": ("sources",)}


def link_membership(kind, ent):
    """for every link list at / below the entity: per listed item `item in list`, `item.id in list` and whether
    `list[item.id]` finds an item of that name - observable content the walk does not include"""
    owners = []
    if kind == "block":
        owners += [("group", g) for g in ent.groups] + [("tag", t) for t in ent.tags]
        owners += [("multi_tag", m) for m in ent.multi_tags] + [("data_array", a) for a in ent.data_arrays]
    elif kind in LINK_LISTS:
        owners.append((kind, ent))
    out = []
    for ok, o in owners:
        for cname in LINK_LISTS[ok]:
            try:
                cont = getattr(o, cname)
                items = list(cont)
            except Exception:
                continue
            row = []
            for it in items:
                try:
                    by_id = cont[it.id].name == it.name
                except Exception:
                    by_id = False
                try:
                    row.append([bool(it in cont), bool(it.id in cont), by_id])
                except Exception as e:
                    row.append(["!" + type(e).__name__])
            out.append([ok, cname, row])
    return out


# ---- the links of an entity as the API hands them out ---------------------------------------------------
#
# "Links among the copied entities point to the copied, not the original": what a program sees of a link is the handle
# the API builds for it (tag.references[i], multi_tag.positions, feature.data, group.data_arrays[i], x.sources[i],
# x.metadata, section.link). The object such a handle stands for must be the object the HDF5 link leads to - for a copy:
# one of the new objects -, and a change made THROUGH such a handle must stay on its side.


def link_handles(kind, ent, limit=60):
    """[(expression over `e`, handle)]: every entity the API hands out through a link at / below the entity `ent`"""
    out = []

    def add(label, thunk):
        if len(out) >= limit:
            return None
        try:
            h = thunk()
        except Exception:
            return None
        if h is None or not hasattr(h, "_h5group"):
            return None
        out.append((label, h))
        return h

    def lst(label, owner, cname):
        try:
            cont = getattr(owner, cname)
            n = len(cont)
        except Exception:
            return []
        hs = []
        for i in range(n):
            h = add("%s.%s[%d]" % (label, cname, i), lambda i=i: cont[i])
            if h is not None:
                hs.append(("%s.%s[%d]" % (label, cname, i), h))
        try:
            for i, h in enumerate(cont):
                if i == 0:
                    add("next(iter(%s.%s))" % (label, cname), lambda h=h: h)
                    add("%s.%s[<name>]" % (label, cname), lambda h=h: cont[h.name])
        except Exception:
            pass
        return hs

    def meta(label, e):
        add(label + ".metadata", lambda: e.metadata)

    def srcs(label, e):
        for sl, s in lst(label, e, "sources"):
            meta(sl, s)

    def one(k, label, e):
        if k in ("tag", "multi_tag"):
            lst(label, e, "references")
            try:
                feats = list(e.features)
            except Exception:
                feats = []
            for i, ft in enumerate(feats):
                add("%s.features[%d].data" % (label, i), lambda ft=ft: ft.data)
            if k == "multi_tag":
                add(label + ".positions", lambda: e.positions)
                add(label + ".extents", lambda: e.extents)
            srcs(label, e)
            meta(label, e)
        elif k in ("data_array", "data_frame"):
            if k == "data_array":
                srcs(label, e)
            meta(label, e)
        elif k == "group":
            for cname in BLOCK_LISTS:
                lst(label, e, cname)
            srcs(label, e)
            meta(label, e)
        elif k == "section":
            add(label + ".link", lambda: e.link)
        elif k == "block":
            meta(label, e)
            for cname, kk in (("groups", "group"), ("tags", "tag"), ("multi_tags", "multi_tag"),
                              ("data_arrays", "data_array"), ("data_frames", "data_frame")):
                try:
                    items = list(getattr(e, cname))
                except Exception:
                    items = []
                for i, x in enumerate(items):
                    one(kk, "%s.%s[%d]" % (label, cname, i), x)

    one(kind, "e", ent)
    return out


def _link_record(h):
    rec = [type(h).__name__]
    for a in ("name", "id", "type", "definition", "label", "unit", "repository"):
        try:
            rec.append(W.num(getattr(h, a)) if hasattr(h, a) else None)
        except Exception as e:
            rec.append("!" + type(e).__name__)
    if isinstance(h, nixio.DataArray):
        try:
            rec.append(W.data_hash(np.asarray(h[:])) if h.size else "empty")
        except Exception as e:
            rec.append("!" + type(e).__name__)
    return rec


def link_view(kind, ent):
    """what a program reads of the entities reached through the links of `ent` (name, id, type, definition, label, unit,
    data): the walk records the links by name / id only"""
    return [[lab] + _link_record(h) for lab, h in link_handles(kind, ent)]


def side_state(kind, ent):
    """everything observable of one side: HDF5-level dump + API-level walk + the entities read through its links"""
    return {"h5": h5dump(h5obj(ent))[0], "api": api_walk(kind, ent), "links": link_view(kind, ent)}


# ---- one copy trial ----------------------------------------------------------------------------------

BLOCK_CREATE = {"data_array": "create_data_array", "data_frame": "create_data_frame", "tag": "create_tag",
                "multi_tag": "create_multi_tag"}
BLOCK_CONT = {"data_array": "data_arrays", "data_frame": "data_frames", "tag": "tags", "multi_tag": "multi_tags"}


def dest_container(kind, parent):
    if kind == "block":
        return parent.blocks
    if kind in BLOCK_CONT:
        return getattr(parent, BLOCK_CONT[kind])
    if kind == "section":
        return parent.sections
    return parent.props


def do_copy(kind, parent, src, name, keep, children=True):
    if kind == "block":
        return parent.create_block(name=name, copy_from=src, keep_copy_id=keep)
    if kind in BLOCK_CREATE:
        return getattr(parent, BLOCK_CREATE[kind])(name=name, copy_from=src, keep_copy_id=keep)
    if kind == "section":
        return parent.copy_section(src, children=children, keep_id=keep, name=name)
    return parent.create_property(name=name, copy_from=src, keep_copy_id=keep)


def strip_root(nodes, ids_too):
    """dump with the root's name attribute (and optionally all ids) removed"""
    out = []
    for n in nodes:
        m = dict(n)
        m["attrs"] = dict(n["attrs"])
        if n["n"] == 0:
            m["attrs"].pop("name", None)
        if ids_too:
            m["id"] = None if n["id"] is None else "<id>"
        out.append(m)
    return out


def state_diff(before, after):
    d = first_diff(before["h5"], after["h5"]) or W.diff(before["api"], after["api"], 3)
    if d:
        return d
    for x, y in zip(before.get("links", []), after.get("links", [])):
        if x != y:
            return {"read through the link": x[0], "before": x[1:], "after": y[1:]}
    return {"links": [len(before.get("links", [])), len(after.get("links", []))]}


def first_diff(a, b):
    for x, y in zip(a, b):
        if x != y:
            keys = sorted(k for k in set(x) | set(y) if x.get(k) != y.get(k))
            return {"node": x.get("n", x.get("path")), "fields": keys,
                    "source": {k: x.get(k) for k in keys[:3]}, "copy": {k: y.get(k) for k in keys[:3]}}
    if len(a) != len(b):
        return {"lengths": [len(a), len(b)]}
    return None


def _ids_in(x, acc):
    if isinstance(x, dict):
        for v in x.values():
            _ids_in(v, acc)
    elif isinstance(x, list):
        for v in x:
            _ids_in(v, acc)
    elif W._looks_like_id(x):
        acc.add(x)
    return acc


def _blank_ids(x):
    if isinstance(x, dict):
        return {k: _blank_ids(v) for k, v in x.items()}
    if isinstance(x, list):
        return [_blank_ids(v) for v in x]
    return "<id>" if W._looks_like_id(x) else x


def norm_api(records, fresh):
    """root name neutralised; with regenerated ids every id is blanked (the source may carry repeated ids from
    earlier id-keeping copies, the copy must not) — which object a link reaches is compared at the HDF5 level"""
    recs = [dict(r) for r in records]
    if recs:
        recs[0]["name"] = "<root>"
    if fresh:
        recs = _blank_ids(recs)
    return recs


def mutations(rng, kind, ent, blk, f, avoid=frozenset()):
    """(description, thunk, deleted_id or None) candidates changing the entity `ent` (or something below / linked).
    `avoid`: addresses of the objects of the *other* side - a mutation that links an array of the surrounding block
    into `ent` takes one the other side does not reach (else a later change made through that link would, rightly,
    be visible on the other side: the caller linked an original into the copy)"""
    muts = []

    def outside_array():
        for a in blk.data_arrays:
            if not (reach_addrs(h5obj(a)) & avoid):      # neither the array nor anything it links (metadata, sources)
                return a
        return blk.create_data_array("lnk-%d" % rng.randrange(10 ** 6), "t", data=[1.0, 2.0])

    def add(desc, fn, deleted=None):
        muts.append((desc, fn, deleted))

    def setter(o, a, v):
        return lambda: setattr(o, a, v)

    val = "mut-%d" % rng.randrange(1000)
    # changes made THROUGH the links of the entity, to what they hand out
    lh = link_handles(kind, ent)
    for lab, h in rng.sample(lh, min(len(lh), 4)):
        add("through %s: definition" % lab, setter(h, "definition", "via-link-" + val))
        if isinstance(h, nixio.DataArray):
            add("through %s: label, unit" % lab, lambda h=h: (setattr(h, "label", "via-link-" + val), setattr(h, "unit", "kV")))
            add("through %s: data" % lab, lambda h=h: h.write_direct(np.asarray(h[:]) * 0 - 1) if h.dtype.kind == "f" and h.size
                else setattr(h, "expansion_origin", 1.5))
    if kind != "property":
        add("definition", setter(ent, "definition", val))
        add("type", setter(ent, "type", val))
    if kind == "block":
        add("create_data_array", lambda: ent.create_data_array("new-" + val, "t", data=[1.0, 2.0]))
        add("create_tag", lambda: ent.create_tag("newtag-" + val, "t", [0.0]))
        add("create_group", lambda: ent.create_group("newgrp-" + val, "t"))
        add("create_source", lambda: ent.create_source("newsrc-" + val, "t"))
        for a in list(ent.data_arrays)[:3]:
            add("array label", setter(a, "label", val))
            add("array data", lambda a=a: a.write_direct(np.asarray(a[:]) * 0 + 7) if a.dtype.kind == "f" and a.size else None)
            add("array dimension", lambda a=a: a.append_set_dimension(["m1", "m2"]))
            add("delete array", lambda a=a: ent.data_arrays.__delitem__(a.name), [a.id])
        for t in list(ent.tags)[:2]:
            add("tag position", setter(t, "position", [5.0, 6.0]))
            add("tag feature", lambda t=t: t.create_feature(ent.data_arrays[0], "untagged"))
            add("tag unref", lambda t=t: t.references.__delitem__(0))
            add("delete tag", lambda t=t: ent.tags.__delitem__(t.name), [t.id])
        for g in list(ent.groups)[:1]:
            add("group append", lambda g=g: g.data_arrays.append(ent.data_arrays[-1]))
            add("delete group", lambda g=g: ent.groups.__delitem__(g.name), [g.id])
        for s in list(ent.sources)[:1]:
            add("source definition", setter(s, "definition", val))
            add("delete source", lambda s=s: ent.sources.__delitem__(s.name), [x.id for x in s.find_sources()] + [s.id])
        for m in list(ent.multi_tags)[:1]:
            add("delete multi_tag", lambda m=m: ent.multi_tags.__delitem__(m.name), [m.id])
        for d in list(ent.data_frames)[:1]:
            add("frame rows", lambda d=d: d.append_rows([(9, "z", 9.5)]))
        add("block metadata off", lambda: delattr(ent, "metadata"))
    elif kind == "data_array":
        add("label", setter(ent, "label", val))
        add("unit", setter(ent, "unit", "kHz"))
        add("expansion_origin", setter(ent, "expansion_origin", 3.5))
        add("polynom", setter(ent, "polynom_coefficients", [0.0, 3.0]))
        add("data", lambda: ent.write_direct(np.asarray(ent[:]) * 0 + 7) if ent.dtype.kind == "f" and ent.size else None)
        add("append data", lambda: ent.append(np.asarray(ent[:])) if ent.size and len(ent.shape) == 1 else None)
        add("dimension", lambda: ent.append_set_dimension(["m1"]))
        add("delete dimensions", lambda: ent.delete_dimensions())
        add("dim label", lambda: setattr(ent.dimensions[0], "label", val) if len(ent.dimensions) and
            hasattr(ent.dimensions[0], "label") else None)
        add("metadata off", lambda: delattr(ent, "metadata"))
        add("source unlink", lambda: ent.sources.__delitem__(0))
    elif kind == "data_frame":
        add("rows", lambda: ent.append_rows([(9, "z", 9.5)]))
        add("cell", lambda: ent.write_cell(1.25, position=(0, 2)))
        add("column", lambda: ent.append_column([5.0] * ent.shape[0], "extra", float))
    elif kind in ("tag", "multi_tag"):
        if kind == "tag":
            add("position", setter(ent, "position", [9.0, 9.0]))
            add("extent", setter(ent, "extent", [0.25, 0.25]))
            add("units", setter(ent, "units", ["s", "s"]))
        add("unref", lambda: ent.references.__delitem__(0))
        add("referenced array label", lambda: setattr(ent.references[0], "label", val))
        add("referenced array data", lambda: ent.references[0].write_direct(np.asarray(ent.references[0][:]) * 0 + 3))
        add("feature data label", lambda: setattr(ent.features[0].data, "definition", val))
        add("feature link_type", lambda: setattr(ent.features[0], "link_type", "untagged"))
        if kind == "multi_tag":
            add("positions data", lambda: ent.positions.write_direct(np.asarray(ent.positions[:]) + 1))
            add("extents off", lambda: setattr(ent, "extents", None))
        if blk is not None:
            add("reference append", lambda: ent.references.append(outside_array()))
            add("create_feature", lambda: ent.create_feature(outside_array(), "untagged"))
        add("source unlink", lambda: ent.sources.__delitem__(0))
        add("metadata section definition", lambda: setattr(ent.metadata, "definition", val))
        add("metadata off", lambda: delattr(ent, "metadata"))
        try:
            feats = list(ent.features)[:1]
        except Exception:
            feats = []
        for ft in feats:
            add("delete feature", lambda ft=ft: ent.features.__delitem__(ft.id), [ft.id])
    elif kind == "section":
        add("repository", setter(ent, "repository", val))
        add("create_property", lambda: ent.create_property("newprop-" + val, [1, 2]))
        add("create_section", lambda: ent.create_section("newsec-" + val, "t"))
        add("link off", lambda: setattr(ent, "link", None))
        for p in list(ent.props)[:2]:
            add("property values", lambda p=p: setattr(p, "values", list(p.values) + list(p.values)[:1])
                if len(p.values) else None)
            add("property definition", setter(p, "definition", val))
            add("delete property", lambda p=p: ent.props.__delitem__(p.name), [p.id])
        for s in list(ent.sections)[:1]:
            add("subsection definition", setter(s, "definition", val))
            add("subsection property", lambda s=s: s.create_property("deepprop-" + val, ["x"]))
            add("delete subsection", lambda s=s: ent.sections.__delitem__(s.name), [x.id for x in s.find_sections()] + [s.id])
    else:
        add("definition", setter(ent, "definition", val))
        add("unit", setter(ent, "unit", "kHz"))
        add("values", lambda: setattr(ent, "values", list(ent.values) + list(ent.values)[:1]) if len(ent.values) else None)
        add("uncertainty", setter(ent, "uncertainty", 0.5))
    return muts


class Scenario:
    def __init__(self, ctx, rng, tag):
        self.ctx, self.rng, self.tag = ctx, rng, tag
        self.paths = [ctx.tmpfile("c20-or-%s-%d.nix" % (tag, i)) for i in (0, 1)]
        self.files = [nixio.File.open(p, nixio.FileMode.Overwrite) for p in self.paths]
        self.log = []
        self.fails = []
        self.evals = 0
        self.counts = {}
        self.last = None            # (kind, handle returned by the previous copy, owner, file index)
        self.made = 0
        self.current = None         # the copy call under test (first entry of a failing input)
        for i, f in enumerate(self.files):
            populate(f, rng, "ab"[i])
        self.log.append(["populate", tag])

    def reopen(self):
        """close both files and open them again (read-write): every handle in use afterwards was fetched anew"""
        for f in self.files:
            f.close()
        self.files = [nixio.File.open(p, nixio.FileMode.ReadWrite) for p in self.paths]
        self.last = None
        self.log.append(["reopen"])
        self.count("reopened")

    def make_entity(self, kind, owner, f):
        """a new entity of `kind` beside the chosen source; the handle *returned by create_** is the source of the copy"""
        self.made += 1
        nm = "made%d" % self.made
        if kind == "block":
            b = f.create_block(nm, "t")
            b.create_data_array("in-" + nm, "t", data=[1.0, 2.0, 3.0])
            return b
        if kind == "data_array":
            a = owner.create_data_array(nm, "t", data=np.arange(6, dtype=float).reshape(2, 3))
            a.append_set_dimension(["r1", "r2"])
            a.append_sampled_dimension(0.25, unit="s")
            return a
        if kind == "data_frame":
            return owner.create_data_frame(nm, "t", col_dict=OrderedDict([("n", int), ("name", str), ("v", float)]),
                                           data=[(3, "made", 0.25)])
        if kind == "tag":
            t = owner.create_tag(nm, "t", [0.5, 0.5])
            t.references.append(owner.data_arrays[0])
            t.create_feature(owner.data_arrays[1], "untagged")
            return t
        if kind == "multi_tag":
            m = owner.create_multi_tag(nm, "t", positions=owner.data_arrays["pos"])
            m.references.append(owner.data_arrays[0])
            return m
        if kind == "section":
            s = (owner if owner is not None else f).create_section(nm, "t")
            s.create_property("made-p", [1.5, 2.5])
            s.create_section("made-sub", "t").create_property("made-q", ["x"])
            return s
        return owner.create_property(nm, ["v1", "v2"])

    def interleave(self, kind, src, owner, f):
        """something done between fetching the handle that will be copied and copying it: a change of the source made
        through another handle of it (the copy must show it), a sibling created beside it, a flush"""
        rng = self.rng
        r = rng.random()
        if r < 0.45:
            v = "interleaved-%d" % rng.randrange(1000)
            src.definition = v
            self.log.append(["then, through the owning container's handle: source.definition = %r" % v])
        elif r < 0.8:
            self.made += 1
            nm = "sibling%d" % self.made
            if kind == "block":
                f.create_block(nm, "t")
            elif kind in BLOCK_CONT:
                owner.create_data_array(nm, "t", data=[0.0])
            elif kind == "section":
                (owner if owner is not None else f).create_section(nm, "t")
            else:
                owner.create_property(nm, [0])
            self.log.append(["then: a sibling %r is created beside the source" % nm])
        else:
            f.flush()
            self.log.append(["then: flush"])
        self.count("interleaved")

    def close(self):
        for f in self.files:
            try:
                f.close()
            except Exception:
                pass
        for p in self.paths:
            try:
                os.remove(p)
            except OSError:
                pass

    def fail(self, what, observed, required, site, extra=None):
        inp = {"scenario": self.tag, "history": list(self.log)}
        if self.current is not None:
            inp = {"failing_call": self.current, "scenario": self.tag, "history": list(self.log)}
        if extra:
            inp.update(extra)
        self.fails.append(Failure(what, inp, observed, required, site))

    def count(self, k):
        self.counts[k] = self.counts.get(k, 0) + 1

    # -----------------------------------------------------------------------------------
    def pick_parent(self, kind, df, src_blk):
        rng = self.rng
        f = self.files[df]
        if kind == "block":
            return f
        if kind in BLOCK_CONT:
            blocks = list(f.blocks)
            return rng.choice(blocks) if blocks else None
        if kind == "section":
            if rng.random() < 0.5:
                return f
            c = candidates(f)["section"]
            return rng.choice(c)[0] if c else f
        c = candidates(f)["section"]
        return rng.choice(c)[0] if c else None

    def trial(self, force_kind=None, chain=False):
        """one copy with all checks; `chain`: the source is the copy made by the previous trial (a copy of a copy: after
        an id-keeping copy within one file the source shares its id - and often its name - with its original, from
        which it has diverged by the mutations of the previous trial)"""
        rng = self.rng
        if not chain:
            self.last = None
            if rng.random() < 0.07:
                self.reopen()
        sf = rng.choice([0, 1])
        df = sf if rng.random() < 0.5 else 1 - sf
        cands = candidates(self.files[sf])
        kinds = [k for k in cands if cands[k]]
        if not kinds:
            return
        kind = force_kind if force_kind in kinds else rng.choice(kinds)
        chain = chain and self.last is not None and self.still_there(*self.last)
        if chain:
            kind = self.last[0]         # a copy of the copy made last (whatever kind is due)
        pool = cands[kind]
        if rng.random() < 0.35:
            # a source whose id is carried by another object of the file as well (the result of an earlier id-keeping
            # copy, its original, or something below either): whatever finds "the" entity by its id finds the other one
            dups = dup_ids(self.files[sf])
            twins = [c for c in pool if c[0].id in dups] if dups else []
            if twins:
                pool = twins
                self.count("source-shares-its-id")
        src, src_owner = rng.choice(pool) if pool else (None, None)
        if src is None and not chain:
            return
        slabel = None
        r = rng.random()
        if chain:
            _, src, src_owner, sf = self.last
            df = sf if rng.random() < 0.5 else 1 - sf
            if rng.random() < 0.5:
                slabel = "the handle returned by the previous copy"
            else:                       # the same object, fetched anew from its container
                same = [e for e in self.container_of(kind, src, src_owner, self.files[sf])
                        if addr(h5obj(e)) == addr(h5obj(src))]
                src = same[0] if same else src
            self.count("copy-of-the-last-copy")
        elif r < 0.12:
            try:
                src = self.make_entity(kind, src_owner, self.files[sf])
                slabel = "the handle returned by create_*"
                self.log.append(["create", kind, src.name, "beside", getattr(src_owner, "name", "/")])
            except Exception:       # (the block lacks what a new tag / multi-tag would link: the chosen source is kept)
                pass
        parent = self.pick_parent(kind, df, src_owner)
        if kind in BLOCK_CONT and sf == df and src_owner is not None and rng.random() < 0.4:
            parent = src_owner          # beside the source, in its own block: the block holds what the source links
            self.count("into-the-source's-block")
        if parent is None:
            return
        if not isinstance(parent, nixio.File) and sf == df and addr(h5obj(parent)) in set(h5dump(h5obj(src))[1]):
            return      # destination inside the source's own sub-graph: source and copy would not be two sides
        keep = rng.random() < 0.5
        children = True if kind != "section" else rng.random() < 0.6
        cont = dest_container(kind, parent)
        existing = [e.name for e in cont]
        # ---- the handles: of the source and of the destination parent, of any provenance --------------------------
        hsrc = src
        if slabel is None:
            slabel, hsrc = other_handle(rng, handle_catalogue(self.files[sf], [kind]), src)
        hparent, dlabel = parent, "file"
        if not isinstance(parent, nixio.File) and rng.random() < 0.5:
            pk = "block" if isinstance(parent, nixio.Block) else "section"
            dlabel, hparent = other_handle(rng, handle_catalogue(self.files[df], [pk]), parent, 0.0)
        elif not isinstance(parent, nixio.File):
            dlabel = "plain (owning container, by iteration)"
        self.count("handle/" + provenance_class(slabel))
        self.handles = {"source_handle": slabel, "dest_handle": dlabel}
        if rng.random() < 0.25:
            try:
                self.interleave(kind, src, src_owner, self.files[sf])
            except Exception:
                pass
            existing = [e.name for e in cont]
        mode = rng.random()
        if mode < 0.2 and existing:
            name = rng.choice(existing)
            if rng.random() < 0.3 and src.name in existing:
                name = ""
            return self.refused_trial(kind, sf, df, hsrc, hparent, name, keep, children)
        if mode < 0.27:
            return self.wrong_kind_trial(kind, sf, df, parent, keep)
        if mode < 0.45 and src.name not in existing:
            name = ""
        else:
            name = "copy%d-%s" % (len(self.log), rng.choice(["x", "é", "with space", "0f" * 16]))
            while name in existing:
                name += "_"
        self.copy_trial(kind, sf, df, src, src_owner, parent, name, keep, children, hsrc, hparent)
        if not chain and self.last is not None and rng.random() < 0.5:
            self.trial(chain=True)

    def link_sweep(self):
        """the class generated directly, not left to chance: every kind of entity that carries links (tag, multi-tag, an
        array with sources / metadata), copied with both id policies (a) beside itself into its own block - which holds
        the entities it links, by the same name and id -, (b) into another block of the file that holds members of the
        same names (an id-keeping twin of the block, if there is one), (c) into a block of the other file"""
        rng = self.rng
        sf = rng.choice([0, 1])
        f = self.files[sf]
        blocks = list(f.blocks)
        if not blocks:
            return
        blk = blocks[0]
        names = {a.name for a in blk.data_arrays}
        twins = [b for b in blocks[1:] if names & {a.name for a in b.data_arrays}]
        others = list(self.files[1 - sf].blocks)
        for kind in ("tag", "multi_tag", "data_array"):
            pool = [e for e in getattr(blk, BLOCK_CONT[kind]) if link_handles(kind, e)]
            if not pool:
                continue
            src = rng.choice(pool)
            dests = [(sf, blk)] + ([(sf, rng.choice(twins))] if twins else []) + \
                    ([(1 - sf, rng.choice(others))] if others else [])
            for df, parent in dests:
                for keep in (True, False):
                    self.last = None
                    self.handles = {"source_handle": "plain (owning container, by iteration)", "dest_handle": "plain"}
                    name = "sweep%d-%s" % (len(self.log), kind)
                    if not self.still_there(kind, src, blk, sf):
                        break
                    self.count("link-sweep")
                    self.copy_trial(kind, sf, df, src, blk, parent, name, keep, True)
                    if len(distinct_new(self.fails)) >= 3:
                        return

    def beside_sweep(self):
        """every other kind copied beside itself under a new name with ids kept: the destination already holds an entity
        with the id (and the content) of the source - again generated directly"""
        rng = self.rng
        sf = rng.choice([0, 1])
        cands = candidates(self.files[sf])
        for kind in ("property", "section", "data_frame", "block"):
            if not cands[kind]:
                continue
            src, owner = rng.choice(cands[kind])
            parent = owner if owner is not None else self.files[sf]
            if kind == "section" and owner is not None and rng.random() < 0.5:
                continue
            self.last = None
            self.handles = {"source_handle": "plain (owning container, by iteration)", "dest_handle": "plain"}
            self.count("beside-sweep")
            self.copy_trial(kind, sf, sf, src, owner, parent, "beside%d-%s" % (len(self.log), kind), True, True)
            if len(distinct_new(self.fails)) >= 3:
                return

    def still_there(self, kind, ent, owner, fi):
        """the handle still stands for a live entity of its container (it may have been deleted since)"""
        try:
            cont = self.container_of(kind, ent, owner, self.files[fi])
            return any(addr(h5obj(x)) == addr(h5obj(ent)) for x in cont)
        except Exception:
            return False

    def describe(self, kind, sf, df, src, parent, name, keep, children):
        d = {"from_file": sf, "to_file": df, "source": src.name,
             "into": getattr(parent, "name", "/") if not isinstance(parent, nixio.File) else "/",
             "name": name, "keep_id": keep, "children": children}
        d.update(getattr(self, "handles", {}))
        self.current = ["copy", kind, d]
        return ["copy", kind, d]

    def refused_trial(self, kind, sf, df, src, parent, name, keep, children):
        self.log.append(self.describe(kind, sf, df, src, parent, name, keep, children) + ["existing name"])
        api = self.rng.random() < 0.35        # (the HDF5-level dump holds everything; the API walk is the slower half)
        before = [(W.walk(f) if api else None, h5dump(f._h5file["/"])[0]) for f in self.files]
        self.evals += 1
        self.count("refused")
        try:
            do_copy(kind, parent, src, name, keep, children)
            self.fail("copy under an existing name was accepted", "copied", "refused (NameError)", "dup-accepted")
        except Exception:
            pass
        after = [(W.walk(f) if api else None, h5dump(f._h5file["/"])[0]) for f in self.files]
        for i in (0, 1):
            if before[i][0] != after[i][0]:
                self.fail("refused copy changed file %d (API walk)" % i, W.diff(before[i][0], after[i][0], 3),
                          "unchanged", "refused-side-effect")
            elif before[i][1] != after[i][1]:
                self.fail("refused copy changed file %d (HDF5 level)" % i, first_diff(before[i][1], after[i][1]),
                          "unchanged", "refused-side-effect")

    def wrong_kind_trial(self, kind, sf, df, parent, keep):
        rng = self.rng
        cands = candidates(self.files[sf])
        others = [k for k in cands if cands[k] and k != kind]
        if not others:
            return
        ok = rng.choice(others)
        wrong = rng.choice(cands[ok])[0]
        self.current = ["copy", kind, {"from_file": sf, "to_file": df, "source_of_kind": ok, "keep_id": keep}, "wrong kind"]
        self.log.append(self.current)
        api = rng.random() < 0.35
        before = [(W.walk(f) if api else None, h5dump(f._h5file["/"])[0]) for f in self.files]
        self.evals += 1
        self.count("wrong_kind")
        try:
            do_copy(kind, parent, wrong, "wrongkind", keep)
            self.fail("an entity of kind %s was accepted as the source of a %s copy" % (ok, kind), "copied",
                      "refused (TypeError)", "wrong-kind-accepted")
        except Exception:
            pass
        after = [(W.walk(f) if api else None, h5dump(f._h5file["/"])[0]) for f in self.files]
        for i in (0, 1):
            if before[i] != after[i]:
                self.fail("refused copy (wrong kind) changed file %d" % i,
                          (W.diff(before[i][0], after[i][0], 3) if api else None) or first_diff(before[i][1], after[i][1]),
                          "unchanged", "refused-side-effect")

    def copy_trial(self, kind, sf, df, src, src_owner, parent, name, keep, children, hsrc=None, hparent=None):
        """`src` / `parent`: handles from the owning containers (the states are read through them); `hsrc` / `hparent`:
        the handles - of any provenance, standing for the same objects - the copy is made with"""
        rng = self.rng
        hsrc = src if hsrc is None else hsrc
        hparent = parent if hparent is None else hparent
        self.log.append(self.describe(kind, sf, df, src, parent, name, keep, children))
        self.evals += 1
        self.count("%s/%s/%s/%s" % (kind, "same" if sf == df else "cross", "keep" if keep else "fresh",
                                    "deep" if children else "shallow"))
        dstf = self.files[df]
        pre_addrs = all_addrs(dstf)
        pre_ids = all_ids(self.files[0]) | all_ids(self.files[1])
        src_state = side_state(kind, src)
        src_member = link_membership(kind, src)
        src_name = src.name
        others_before = W.walk(self.files[1 - df]) if sf != df else None
        try:
            cp = do_copy(kind, hparent, hsrc, name, keep, children)
        except Exception as e:
            self.fail("copy raised %s: %s" % (type(e).__name__, str(e)[:120]), type(e).__name__, "a copy", "copy-raised")
            return
        self.last = (kind, cp, parent if not isinstance(parent, nixio.File) else None, df)
        want = name or src_name
        # ---- name -----------------------------------------------------------------------------------
        if cp.name != want:
            self.fail("the returned entity is not named as requested", cp.name, want, "name")
            return
        cont = dest_container(kind, parent)
        try:
            got = cont[want]
            if addr(h5obj(got)) != addr(h5obj(cp)):
                self.fail("container[name] does not yield the copy", got.name, want, "name")
        except Exception as e:
            self.fail("container[name] raises %s for the copy" % type(e).__name__, type(e).__name__, want, "name")
        if addr(h5obj(cp)) == addr(h5obj(src)):
            self.fail("the returned entity is the source itself", "source", "a new object", "returned-original")
            return
        # ---- source unchanged by the copy -------------------------------------------------------------
        if side_state(kind, src) != src_state:
            self.fail("copying changed the source", first_diff(src_state["h5"], side_state(kind, src)["h5"]),
                      "unchanged", "source-changed")
        if others_before is not None and W.walk(self.files[1 - df]) != others_before:
            self.fail("a cross-file copy changed the source file", "changed", "unchanged", "source-changed")
        cp_state = side_state(kind, cp)
        # ---- internal links: the copy consists of new objects of the destination file only --------------
        nodes, addrs = h5dump(h5obj(cp))
        old = [a for a in addrs if a in pre_addrs]
        if old:
            self.fail("the copy links to %d object(s) that existed before the copy (originals)" % len(old),
                      len(old), 0, "internal-links")
        foreign = [a for a in addrs if a[0] != dstf._h5file.filename]
        if foreign:
            self.fail("the copy reaches objects of another file", len(foreign), 0, "internal-links")
        # ... and so are the entities the API hands out through the links of the copy (references, positions, extents,
        # feature data, group members, sources, metadata, section link): each is the new object the HDF5 link leads to
        own = set(addrs)
        for lab, h in link_handles(kind, cp):
            a = addr(h5obj(h))
            if a in pre_addrs:
                self.fail("a link of the copy hands out an object that existed before the copy (an original): the "
                          "links among the copied entities must point to the copied ones",
                          {"link": lab.replace("e.", "copy.", 1), "yields": [type(h).__name__, h.name, h.id],
                           "object": "existed before the copy"}, "one of the new objects of the copy", "internal-links")
                break
            if a not in own:
                self.fail("a link of the copy hands out an object that is not part of the copy",
                          {"link": lab.replace("e.", "copy.", 1), "yields": [type(h).__name__, h.name, h.id]},
                          "one of the new objects of the copy", "internal-links")
                break
        # ---- completeness ----------------------------------------------------------------------------
        if children:
            a_, b_ = strip_root(src_state["h5"], True), strip_root(cp_state["h5"], True)
            if a_ != b_:
                self.fail("HDF5-level content of the copy differs from the source", first_diff(a_, b_), "equal",
                          "complete-h5")
            sa, ca = norm_api(src_state["api"], not keep), norm_api(cp_state["api"], not keep)
            if sa != ca:
                self.fail("API walk of the copy differs from the walk of the source", W.diff(sa, ca, 3), "equal",
                          "complete-api")
        else:
            self.check_shallow(src_state, cp_state, keep)
        # ---- ids ---------------------------------------------------------------------------------------
        sid = [n["id"] for n in src_state["h5"]]
        cid = [n["id"] for n in cp_state["h5"]]
        if children:
            self.check_ids(sid, cid, keep, pre_ids)
        if not keep:
            stale = sorted(_ids_in(cp_state["api"], set()) & pre_ids)
            if stale:
                self.fail("the API shows %d id(s) inside the copy that existed before (keep_copy_id=False)" % len(stale),
                          stale[:3], "fresh ids only", "ids-fresh")
        # ---- link lists of the copy answer membership / lookup by id as those of the source do -------------
        if children:
            cp_member = link_membership(kind, cp)
            if cp_member != src_member:
                bad = [(a, b) for a, b in zip(src_member, cp_member) if a != b][:2]
                if not keep:
                    self.fail("after a copy with fresh ids the entries of the copy's link lists are still named by "
                              "the source's ids: `item in list` / `list[item.id]` fail for linked items",
                              bad, "as in the source", KNOWN_STALE)
                else:
                    self.fail("membership / lookup by id in the link lists of the copy differ from the source",
                              bad, "as in the source", "complete-api")
        # ---- independence ------------------------------------------------------------------------------
        self.independence(kind, sf, df, hsrc if rng.random() < 0.5 else src, src_owner, cp, parent, keep)

    def check_ids(self, sid, cid, keep, pre_ids):
        if len(sid) != len(cid):
            return
        if keep:
            if sid != cid:
                self.fail("ids were not kept", cid[:4], sid[:4], "ids-kept")
            return
        vals = []
        for s, c in zip(sid, cid):
            if (s is None) != (c is None):
                self.fail("an object gained or lost its id in the copy", c, s, "ids-fresh")
                return
            if c is not None:
                vals.append(c[1])
        if len(set(vals)) != len(vals):
            self.fail("regenerated ids are not pairwise distinct", len(vals) - len(set(vals)), 0, "ids-fresh")
        reused = [v for v in vals if v in pre_ids]
        if reused:
            self.fail("keep_copy_id=False left %d id(s) that already existed" % len(reused), reused[:3], "fresh ids",
                      "ids-fresh")
        bad = [v for v in vals if not UUID_RE.match(v)]
        if bad:
            self.fail("a regenerated id is not a UUID4", bad[:2], "uuid4", "ids-fresh")

    def check_shallow(self, src_state, cp_state, keep):
        """children=False: the section itself and its properties, no subsections"""
        sa, ca = src_state["api"], cp_state["api"]
        s0, c0 = dict(sa[0]), dict(ca[0])
        for r in (s0, c0):
            for k in ("name", "id", "sections", "link"):
                r.pop(k, None)
        if s0 != c0:
            self.fail("shallow section copy: the section's own attributes / property list differ",
                      {k: (s0.get(k), c0.get(k)) for k in s0 if s0.get(k) != c0.get(k)}, "equal", "shallow")
        if ca[0].get("sections") != []:
            self.fail("shallow section copy has subsections", ca[0].get("sections"), [], "shallow")
        sp = [r for r in sa[1:] if r["kind"] == "property" and r["path"].count("/") == 1]
        cpp = [r for r in ca[1:] if r["kind"] == "property" and r["path"].count("/") == 1]
        if not keep:
            ids_s = [r["id"] for r in sp]
            ids_c = [r["id"] for r in cpp]
            if set(ids_s) & set(ids_c):
                self.fail("shallow section copy with fresh ids kept a property id", sorted(set(ids_s) & set(ids_c))[:2],
                          "fresh", "ids-fresh")
            sp = [dict(r, id=None) for r in sp]
            cpp = [dict(r, id=None) for r in cpp]
            if ca[0]["id"] == sa[0]["id"]:
                self.fail("shallow section copy with fresh ids kept the section id", ca[0]["id"], "fresh", "ids-fresh")
        elif ca[0]["id"] != sa[0]["id"]:
            self.fail("shallow section copy did not keep the section id", ca[0]["id"], sa[0]["id"], "ids-kept")
        if sp != cpp:
            self.fail("shallow section copy: properties differ", W.diff(sp, cpp, 3), "equal", "shallow")
        if len(ca) != 1 + len(cpp):
            self.fail("shallow section copy contains more than the section and its properties",
                      [r["path"] for r in ca][:8], "section + properties", "shallow")

    def independence(self, kind, sf, df, src, src_owner, cp, parent, keep):
        rng = self.rng
        cp_owner = parent if kind in BLOCK_CONT or kind == "property" else None
        sides = [("source", src, src_owner, self.files[sf]), ("copy", cp, cp_owner, self.files[df])]
        for rnd in range(2):
            mi = rng.choice([0, 1])
            mname, ment, mown, mfile = sides[mi]
            oname, oent, oown, ofile = sides[1 - mi]
            muts = mutations(rng, kind, ment, mown, mfile, avoid=frozenset(h5dump(h5obj(oent))[1]))
            plain = [m for m in muts if m[2] is None]
            dels = [m for m in muts if m[2] is not None]
            before = side_state(kind, oent)
            applied = []
            via = [m for m in plain if m[0].startswith("through ")]
            chosen = rng.sample(plain, min(len(plain), rng.choice([2, 3, 4])))
            if via and not any(m[0].startswith("through ") for m in chosen):
                chosen.append(rng.choice(via))
            for desc, fn, _ in chosen:
                try:
                    fn()
                    applied.append(desc)
                except Exception:
                    pass
            self.log.append(["mutate", mname, applied])
            self.evals += 1
            after = side_state(kind, oent)
            if after != before:
                d = state_diff(before, after)
                self.fail("a change of the %s is visible in the %s" % (mname, oname), d, "unchanged", "independence")
                return
            if dels and rng.random() < 0.6:
                desc, fn, dids = rng.choice(dels)
                # delete_all removes every link, file-wide, to the deleted *objects*; an earlier id-keeping copy may
                # have left other objects with the same ids anywhere in the file (on the other side, or above it):
                # they are other objects and must stay
                shared = set(dids) & dup_ids(mfile)
                try:
                    fn()
                except Exception:
                    continue
                self.log.append(["mutate", mname, [desc]])
                self.evals += 1
                self.count("delete/" + ("same" if sf == df else "cross") + "/" + ("keep" if keep else "fresh") +
                           ("/shared-id" if shared else ""))
                after = side_state(kind, oent)
                if after != before:
                    d = state_diff(before, after)
                    self.fail("a deletion in the %s is visible in the %s%s" % (
                        mname, oname, " (the deleted entity's id is carried by another object of the file)"
                        if shared else ""), d, "unchanged", FIXED_DELETE if shared else "independence")
                    return
        # ---- the source (or the copy) itself is deleted: the other one stays, exactly as it was ----------------
        if rng.random() < 0.35:
            mi = rng.choice([0, 1])
            mname, ment, mown, mfile = sides[mi]
            oname, oent, oown, ofile = sides[1 - mi]
            if kind == "block" and len(mfile.blocks) < 2:
                return                      # keep something to copy for the following trials
            cont = dest_container(kind, parent) if mi == 1 else self.container_of(kind, src, src_owner, mfile)
            if cont is None:
                return
            before = side_state(kind, oent)
            ocont = self.container_of(kind, src, src_owner, ofile) if mi == 1 else dest_container(kind, parent)
            oname_in = oent.name
            try:
                cont.__delitem__(ment if rng.random() < 0.5 else ment.name)
            except Exception as e:
                self.fail("deleting the %s of a copy raised %s: %s" % (mname, type(e).__name__, str(e)[:100]),
                          type(e).__name__, "deleted", "independence")
                return
            self.log.append(["delete", mname])
            self.evals += 1
            self.count("delete-whole/" + mname + "/" + ("same" if sf == df else "cross") + "/" +
                       ("keep" if keep else "fresh"))
            site = FIXED_DELETE if (sf == df and keep) else "independence"
            try:
                present = ocont is None or oname_in in [x.name for x in ocont]
            except Exception:
                present = False
            if not present:
                self.fail("deleting the %s removed the %s from its container" % (mname, oname),
                          "gone", "still there", site)
                return
            try:
                after = side_state(kind, oent)
            except Exception as e:
                self.fail("after deleting the %s the %s can no longer be read (%s)" % (mname, oname, type(e).__name__),
                          type(e).__name__, "unchanged", site)
                return
            if after != before:
                d = state_diff(before, after)
                self.fail("deleting the %s changed the %s" % (mname, oname), d, "unchanged", site)

    @staticmethod
    def container_of(kind, ent, owner, f):
        """the container that owns the source entity `ent`"""
        if kind == "block":
            return f.blocks
        if kind in BLOCK_CONT:
            return getattr(owner, BLOCK_CONT[kind])
        if kind == "property":
            return owner.props
        return (owner if owner is not None else f).sections      # (Section.parent searches by id: not after id-keeping copies)


# ---- regression cases for defects repaired in /repo (status "fixed" in known_findings.json) ---------


def fixed_cases(ctx):
    fails = []
    path = ctx.tmpfile("c20-fixed.nix")
    path2 = ctx.tmpfile("c20-fixed2.nix")
    f = nixio.File.open(path, nixio.FileMode.Overwrite)
    f2 = nixio.File.open(path2, nixio.FileMode.Overwrite)

    def bad(what, inp, obs, req, site):
        fails.append(Failure(what, {"fixed_case": inp}, obs, req, site))

    try:
        b = f.create_block("b", "t")
        a = b.create_data_array("a", "t", data=[1.0, 2.0])
        t = b.create_tag("tg", "t", [0.0])
        t.references.append(a)
        # C20-regen-ids-attributeerror (np.string_): keep_copy_id=False must work and give fresh ids
        try:
            c = f.create_block(name="b2", copy_from=b, keep_copy_id=False)
            if c.id == b.id or c.data_arrays["a"].id == a.id:
                bad("keep_copy_id=False kept an id", "create_block(copy_from=b, keep_copy_id=False)", c.id, "fresh",
                    "ids-fresh")
        except Exception as e:
            bad("keep_copy_id=False raises %s" % type(e).__name__, "create_block(copy_from=b, keep_copy_id=False)",
                type(e).__name__, "a copy with fresh ids", "copy-raised")
        # C20-copy-returns-original: the copy under a new name with kept ids must be returned
        for label, fn in (("create_data_array", lambda: b.create_data_array(name="a2", copy_from=a, keep_copy_id=True)),
                          ("create_tag", lambda: b.create_tag(name="tg2", copy_from=t, keep_copy_id=True)),
                          ("create_block", lambda: f.create_block(name="b3", copy_from=b, keep_copy_id=True))):
            try:
                c = fn()
                if c.name not in ("a2", "tg2", "b3"):
                    bad("%s(copy_from=…, keep_copy_id=True) returned the original" % label, label, c.name, "the copy",
                        "returned-original")
            except Exception as e:
                bad("%s(copy_from=…) raises %s" % (label, type(e).__name__), label, type(e).__name__, "a copy",
                    "copy-raised")
        # C20-empty-array-not-copied: an empty array is falsy
        e0 = b.create_data_array("empty", "t", dtype=nixio.DataType.Double, shape=(0,))
        try:
            c = b.create_data_array(name="empty2", copy_from=e0)
            if c.name != "empty2" or c.type != "t" or tuple(c.shape) != (0,):
                bad("an empty DataArray was not copied", "create_data_array(name='empty2', copy_from=<empty>)",
                    [c.name, c.type], "copy of the empty array", "complete-api")
        except Exception as e:
            bad("copying an empty DataArray raises %s" % type(e).__name__, "create_data_array(copy_from=<empty>)",
                type(e).__name__, "a copy", "copy-raised")
        # C20-copy-section-*: duplicate check in the right group, new name, children=False, re-fetched subsection,
        # property ids regenerated
        s = f.create_section("s", "t")
        s.create_property("p", [1, 2])
        sub = s.create_section("sub", "t")
        sub.create_property("q", ["x"])
        try:
            f.copy_section(s)
            bad("File.copy_section accepted an existing name", "f.copy_section(s) with s in f.sections", "copied",
                "refused", "dup-accepted")
        except NameError:
            pass
        except Exception as e:
            bad("File.copy_section refused an existing name with %s" % type(e).__name__, "f.copy_section(s)",
                type(e).__name__, "NameError", "dup-accepted")
        if "sections" in f._h5file["/"]:
            bad("File.copy_section created a root group 'sections'", "f.copy_section(s)", "group created", "no group",
                "refused-side-effect")
        try:
            c = f.copy_section(s, name="s2", keep_id=True)
            if c.name != "s2" or [x.name for x in c.sections] != ["sub"] or [x.name for x in c.props] != ["p"]:
                bad("File.copy_section(name=…) did not return the complete copy", "f.copy_section(s, name='s2')",
                    [c.name, [x.name for x in c.sections]], "s2 with sub and p", "name")
            c = f.copy_section(s, name="s3", children=False, keep_id=False)
            if c.name != "s3" or len(c.sections) != 0 or [x.name for x in c.props] != ["p"] or \
                    c.props["p"].id == s.props["p"].id or c.id == s.id:
                bad("File.copy_section(children=False, keep_id=False) wrong", "f.copy_section(s,'s3',children=False)",
                    [c.name, len(c.sections), [x.name for x in c.props]], "s3, no subsections, p with a fresh id",
                    "shallow")
            refetched = f.sections["s"].sections["sub"]
            c = s.copy_section(refetched, name="subcopy", children=False)
            if c.name != "subcopy" or [x.name for x in c.props] != ["q"]:
                bad("Section.copy_section of a re-fetched subsection wrong", "s.copy_section(f.sections['s'].sections['sub'])",
                    c.name, "subcopy with q", "shallow")
            c = f2.copy_section(refetched, name="x")
            if c.name != "x" or [x.name for x in c.props] != ["q"]:
                bad("cross-file copy_section of a subsection wrong", "f2.copy_section(sub)", c.name, "x with q", "name")
        except Exception as e:
            bad("copy_section raises %s: %s" % (type(e).__name__, str(e)[:80]), "copy_section variants",
                type(e).__name__, "copies", "copy-raised")
        # C20-section-handle-through-link: a Section fetched through `.metadata` (no parent) or `Section.link` (the linking
        # section as parent) is copied like the same section fetched from its container - also when the linking
        # section has a subsection of the same name
        try:
            lk = f.create_section("linker", "t")
            lk.create_section("sub", "t").definition = "another section that is merely called sub"
            lk.link = sub
            blk = f.create_block("with-metadata", "t")
            blk.metadata = sub
            for label, h, dest in (("f2.copy_section(block.metadata)", blk.metadata, f2),
                                   ("f.copy_section(block.metadata, name=…)", blk.metadata, f),
                                   ("section.copy_section(other.link, name=…)", lk.link, s),
                                   ("f2.copy_section(other.link, name=…)", lk.link, f2)):
                c = dest.copy_section(h, name="via-link-%d" % len(dest.sections))
                got = [c.definition, [x.name for x in c.props], [list(x.values) for x in c.props]]
                want = [sub.definition, ["q"], [["x"]]]
                if got != want:
                    bad("copy_section of a Section handle fetched through a link copied another section", label, got,
                        want, "complete-api")
        except Exception as e:
            bad("copy_section of a Section handle fetched through a link raises %s: %s" % (type(e).__name__, str(e)[:80]),
                "copy_section(block.metadata) / copy_section(section.link)", type(e).__name__, "a copy", "copy-raised")
        # C20-create-property-returns-original
        try:
            p = s.props["p"]
            c = s.create_property(name="p2", copy_from=p, keep_copy_id=True)
            if c.name != "p2":
                bad("create_property(copy_from=…, keep_copy_id=True) returned the original",
                    "s.create_property(name='p2', copy_from=p, keep_copy_id=True)", c.name, "p2", "returned-original")
            c = s.create_property(name="p3", copy_from=p, keep_copy_id=False)
            if c.name != "p3" or c.id == p.id or list(c.values) != list(p.values):
                bad("create_property(copy_from=…, keep_copy_id=False) wrong", "s.create_property('p3', copy_from=p, False)",
                    [c.name, c.id == p.id], "p3, fresh id, same values", "ids-fresh")
        except Exception as e:
            bad("create_property(copy_from=…) raises %s" % type(e).__name__, "create_property(copy_from=p)",
                type(e).__name__, "a copy", "copy-raised")
    finally:
        for x in (f, f2):
            try:
                x.close()
            except Exception:
                pass
        for p_ in (path, path2):
            try:
                os.remove(p_)
            except OSError:
                pass
    return fails


def delete_by_object_cases(ctx):
    """C20-delete-hits-same-id-copy (D13, repaired: `delete_all` unlinks the objects, it used to match entity_id):
    after an id-keeping copy within one file, deleting on one side leaves the other side — in both directions, for
    plain containers, the section subtree and the source subtree; every link to the deleted object itself still goes"""
    fails = []
    path = ctx.tmpfile("c20-delobj.nix")
    f = nixio.File.open(path, nixio.FileMode.Overwrite)

    def bad(what, hist, obs, req):
        fails.append(Failure(what, {"fixed_case": "C20-delete-hits-same-id-copy", "history": hist}, obs, req,
                             FIXED_DELETE))

    def names(c):
        return [x.name for x in c]

    try:
        b = f.create_block("b", "t")
        a = b.create_data_array("a", "t", data=[1.0, 2.0])
        # 1. the minimal case: the copy survives the deletion of the original
        b.create_data_array(name="a-copy", copy_from=a, keep_copy_id=True)
        hist = [["create_data_array", "a"], ["copy", "a", "a-copy", {"keep_id": True}], ["del", "a"]]
        del b.data_arrays["a"]
        if names(b.data_arrays) != ["a-copy"]:
            bad("deleting an entity of the source removed the same-id object of the copy "
                "(deletion is global by entity_id)", hist, names(b.data_arrays), ["a-copy"])
        # 2. the other direction: the original survives the deletion of the copy; links to the deleted object go
        a = b.create_data_array("x", "t", data=[1.0])
        t = b.create_tag("tg", "t", [0.0])
        t.references.append(a)
        g = b.create_group("g", "t")
        g.data_arrays.append(a)
        b.create_data_array(name="x2", copy_from=a, keep_copy_id=True)
        hist = [["create_data_array", "x"], ["tg.references.append", "x"], ["g.data_arrays.append", "x"],
                ["copy", "x", "x2", {"keep_id": True}], ["del", "x2"]]
        del b.data_arrays["x2"]
        got = [names(b.data_arrays), names(t.references), names(g.data_arrays)]
        if got != [["a-copy", "x"], ["x"], ["x"]]:
            bad("deleting the id-keeping copy removed the original (or its links)", hist, got,
                [["a-copy", "x"], ["x"], ["x"]])
        # 3. a block copy: deleting an array of the original block leaves the copied block complete, and the links
        #    to the deleted array inside the original (tag reference, group member) are removed
        b2 = f.create_block(name="b2", copy_from=b, keep_copy_id=True)
        hist = [["copy", "b", "b2", {"keep_id": True}], ["del", "b/x"]]
        del b.data_arrays["x"]
        got = [names(b.data_arrays), names(t.references), names(g.data_arrays), names(b2.data_arrays),
               names(b2.tags["tg"].references), names(b2.groups["g"].data_arrays)]
        want = [["a-copy"], [], [], ["a-copy", "x"], ["x"], ["x"]]
        if got != want:
            bad("deleting an array of a block changed the id-keeping copy of the block (or left links to the deleted "
                "array in the original)", hist, got, want)
        # … and the other way round
        del b2.data_arrays["a-copy"]
        got = [names(b.data_arrays), names(b2.data_arrays)]
        if got != [["a-copy"], ["x"]]:
            bad("deleting an array of the copied block changed the original block", hist + [["del", "b2/a-copy"]], got,
                [["a-copy"], ["x"]])
        # 4. section subtree (SectionContainer.__delitem__ hands delete_all the whole subtree)
        s = f.create_section("s", "t")
        sub = s.create_section("sub", "t")
        sub.create_section("deep", "t")
        sub.create_property("p", [1])
        b.metadata = sub
        s2 = f.copy_section(s, name="s2", keep_id=True)
        hist = [["create_section", "s/sub/deep"], ["b.metadata = s/sub"], ["copy_section", "s", "s2", {"keep_id": True}],
                ["del", "f.sections['s']"]]
        del f.sections["s"]
        got = [names(f.sections), names(s2.sections), names(s2.sections["sub"].sections), names(s2.sections["sub"].props),
               b.metadata is None]
        want = [["s2"], ["sub"], ["deep"], ["p"], True]
        if got != want:
            bad("deleting a section changed its id-keeping copy (or left the metadata link to a deleted subsection)",
                hist, got, want)
        # 5. source subtree (SourceContainer.__delitem__: the subtree and the source)
        src = b.create_source("src", "t")
        src.create_source("deep", "t")
        aa = b.data_arrays["a-copy"]
        aa.sources.append(src)
        b3 = f.create_block(name="b3", copy_from=b, keep_copy_id=True)
        hist = [["create_source", "b/src/deep"], ["a-copy.sources.append", "src"], ["copy", "b", "b3", {"keep_id": True}],
                ["del", "b3.sources['src']"]]
        del b3.sources["src"]
        got = [names(b.sources), names(b.sources["src"].sources), names(aa.sources), names(b3.sources),
               names(b3.data_arrays["a-copy"].sources)]
        want = [["src"], ["deep"], ["src"], [], []]
        if got != want:
            bad("deleting a source of the copied block changed the original block (or left links to the deleted "
                "source in the copy)", hist, got, want)
    except Exception as e:
        bad("the regression case for deletion after an id-keeping copy raised %s: %s" % (type(e).__name__, str(e)[:120]),
            [], type(e).__name__, "no exception")
    finally:
        f.close()
        try:
            os.remove(path)
        except OSError:
            pass
    return fails


def known_case_stale(ctx):
    """after keep_copy_id=False the link lists of the copy are named by the source's ids"""
    path = ctx.tmpfile("c20-known2.nix")
    f = nixio.File.open(path, nixio.FileMode.Overwrite)
    try:
        b = f.create_block("b", "t")
        a = b.create_data_array("a", "t", data=[1.0, 2.0])
        g = b.create_group("g", "t")
        g.data_arrays.append(a)
        c = f.create_block(name="c", copy_from=b, keep_copy_id=False)
        ca, cg = c.data_arrays["a"], c.groups["g"]
        if not (ca in cg.data_arrays):
            return Failure("after a copy with fresh ids the entries of the copy's link lists are still named by the "
                           "source's ids: `item in list` / `list[item.id]` fail for linked items",
                           {"history": [["create_data_array", "a"], ["create_group", "g"], ["g.data_arrays.append", "a"],
                                        ["copy", "b", "c", {"keep_id": False}], ["c.data_arrays['a'] in c.groups['g'].data_arrays"]]},
                           False, True, KNOWN_STALE)
    finally:
        f.close()
        try:
            os.remove(path)
        except OSError:
            pass
    return None


def distinct_new(failures):
    """distinct failures (by message, digits blanked) that are not of a known class"""
    return {(re.sub(r"\d+", "#", f.what)[:60], f.site) for f in failures if f.site not in KNOWN_SITES}


def oracle(ctx, broken, hints):
    # the search is bounded by scenarios AND by wall time (quick: ~1 min, ~3 min when something no longer checks), and it
    # stops at the first few distinct failures: one concrete failing input is what is asked for
    n = ctx.budget(6, 40) * (4 if broken else 1)
    trials = ctx.budget(14, 24)
    limit = (170 if broken else 60) if ctx.quick() else (1500 if broken else 420)
    t_end = time.time() + limit
    failures = []
    evals = 0
    counts = {}
    kinds = ["block", "data_array", "data_frame", "tag", "multi_tag", "section", "property"]
    ran = 0
    for k in range(n):
        if k >= 2 and time.time() > t_end:
            break
        ran += 1
        rng = random.Random("C20-oracle/%d/%d" % (ctx.seed, k))
        sc = Scenario(ctx, rng, str(k))
        try:
            if k < 2:
                sc.link_sweep()
                sc.beside_sweep()
            for j in range(trials):
                sc.trial(force_kind=kinds[j % len(kinds)] if j < len(kinds) else None)
                if len(distinct_new(sc.fails)) >= 3 or (j >= 7 and time.time() > t_end):
                    break
        except Exception as e:  # the scenario itself must not abort the check silently
            sc.fail("oracle scenario aborted with %s: %s" % (type(e).__name__, str(e)[:200]), type(e).__name__,
                    "no exception", "scenario-aborted")
        finally:
            sc.close()
        failures += sc.fails
        evals += sc.evals
        for kk, v in sc.counts.items():
            counts[kk] = counts.get(kk, 0) + v
        found = len(distinct_new(failures))
        if found >= 3 or (found and time.time() > t_end - limit + 45):
            break
    fx = fixed_cases(ctx) + delete_by_object_cases(ctx)
    failures = fx + failures          # the minimal reproducers of repaired defects first (a regression prints that one)
    evals += 18
    for kc in (known_case_stale,):
        kf = kc(ctx)
        if kf is not None:
            failures.append(kf)
    best = {}
    for f in failures:
        key = (f.what, f.site)
        if key not in best or len(core.canon(f.input)) < len(core.canon(best[key].input)):
            best[key] = f
    return {"evaluations": evals, "failures": list(best.values()), "scenarios": ran, "scenarios_budget": n,
            "time_limit_s": limit, "trials": counts}


def matches_known(entry, failure):
    return entry.get("class") in KNOWN_SITES and failure.site == entry.get("class")


def reproduces(ctx, entry):
    if entry.get("class") == KNOWN_STALE:
        return known_case_stale(ctx) is not None
    return True


def replay_failure(ctx, fj):
    res = oracle(ctx, True, [])
    for f in res["failures"]:
        if f.what == fj.get("what"):
            return f
    return None
