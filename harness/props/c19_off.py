"""C19, second sentence: "With automatic timestamps disabled no operation other than an explicit force call changes
any timestamp" - for EVERY public operation of EVERY class, not only the listed attribute setters.

The sweep builds one file that holds every entity kind in contrasting states (frame with / without units, array
without / with set, sampled, range, self-linked, array-linked and frame-linked dimensions, tag and multi tag bare /
fully equipped, section with / without properties and link, property with / without values, unit, uncertainty, group
empty / filled, nested sources, a second block, an id-keeping copy), finds every object reachable from the File through
the public API (entities, dimension descriptors, dimension links, containers, link lists, data views) and every public
member of its class BY INTROSPECTION (property setters, methods, __setitem__, __delitem__), and calls each member with
every argument recipe known for its name plus candidates guessed from the parameter names - with the switch off (set at
open time, by assignment, or by re-opening) and the clock advanced before every call.  Before and after each call the
stored created_at / updated_at of all entities that existed when the file was opened are read; whatever the call did
(accepted, refused, new entities, deletions), none of them may differ, except the stamp an explicit
force_created_at / force_updated_at call was asked to write.  A difference seen in the stored attributes is confirmed
through the public getters on freshly fetched handles before it is reported.  Closing and re-opening ends every session
(a time stamp written by close() or by opening shows up there).
"""
import contextlib
import enum
import inspect
import io
import os
import shutil
import warnings

from ..lib.core import Failure

T0 = 1000000000            # the scene is built at this clock value
STEP = 1000003             # the clock advances by this before every call


def _nix():
    import nixio
    return nixio


# ---------------------------------------------------------------------------------------------------------------
# the scene


def build_scene(path, clock):
    """every kind in contrasting states; built with the switch ON under the controlled clock (all stamps = T0 ..)"""
    import numpy as np
    nix = _nix()
    clock.t = T0
    f = nix.File.open(path, nix.FileMode.Overwrite, auto_update_timestamps=True)
    try:
        s1 = f.create_section("s_full", "t")
        s1.definition = "d"
        s1.repository = "repo"
        s1.reference = "ref"
        s1.create_property("p_int", [1, 2, 3])
        p = s1.create_property("p_float", [0.5, 1.5])
        p.unit = "mV"
        p.uncertainty = 0.25
        p.definition = "pd"
        s1.create_property("p_text", ["a", "b"])
        pe = s1.create_property("p_empty", [1])
        pe.delete_values()
        sc = s1.create_section("s_child", "t")
        sc.create_property("p_child", [7])
        s2 = f.create_section("s_bare", "t")
        s1.link = s2
        b = f.create_block("b1", "t")
        b.definition = "bd"
        b.metadata = s1
        plain = b.create_data_array("a_plain", "t", data=[1.0, 2.0, 3.0])
        dimmed = b.create_data_array("a_dimmed", "t", data=np.arange(6.0).reshape(2, 3), label="L", unit="mV")
        dimmed.definition = "dd"
        dimmed.polynom_coefficients = [1.0, 2.0]
        dimmed.expansion_origin = 0.5
        dimmed.append_set_dimension(["x", "y"])
        dimmed.append_sampled_dimension(0.5, label="t", unit="s", offset=0.25)
        dimmed.metadata = sc
        ranged = b.create_data_array("a_ranged", "t", data=[1.0, 2.0, 3.0])
        ranged.append_range_dimension([1.0, 2.0, 4.0], label="r", unit="ms")
        selfd = b.create_data_array("a_self", "t", data=[0.5, 1.5, 2.5], label="sl", unit="s")
        selfd.append_range_dimension_using_self()
        ticks = b.create_data_array("a_ticks", "t", data=[1.0, 2.0, 3.0], label="tl", unit="ms")
        fu = b.create_data_frame("f_units", "t", col_dict={"a": int, "b": float, "c": float},
                                 data=[(1, 1.5, 0.5), (2, 2.5, 1.5), (3, 3.5, 2.5)])
        fu.units = ["mV", None, "s"]
        fu.definition = "fd"
        b.create_data_frame("f_plain", "t", col_dict={"a": int, "b": float}, data=[(1, 1.5), (2, 2.5), (3, 3.5)])
        linker = b.create_data_array("a_linker", "t", data=np.arange(9.0).reshape(3, 3))
        linker.append_range_dimension()
        linker.dimensions[0].link_data_array(ticks, [-1])
        linker.append_range_dimension()
        linker.dimensions[1].link_data_frame(fu, 2)
        linker2 = b.create_data_array("a_linker2", "t", data=[1.0, 2.0, 3.0])
        linker2.append_range_dimension()
        linker2.dimensions[0].link_data_frame(b.data_frames["f_plain"], 1)
        b.create_data_array("a_int", "t", data=[1, 2, 3], dtype=nix.DataType.Int64)
        pos = b.create_data_array("a_pos", "t", data=[[0.0, 0.5], [1.0, 1.0]])
        ext = b.create_data_array("a_ext", "t", data=[[1.0, 0.5], [0.5, 0.5]])
        b.create_data_array("a_copy", copy_from=plain)          # keeps the id of a_plain
        src = b.create_source("o_full", "t")
        src.create_source("o_child", "t")
        src.metadata = s2
        b.create_source("o_bare", "t")
        tf = b.create_tag("t_full", "t", [0.0, 0.5])
        tf.extent = [1.0, 1.0]
        tf.units = ["mV", "s"]
        tf.references.append(dimmed)
        tf.create_feature(ranged, nix.LinkType.Untagged)
        tf.create_feature(fu, nix.LinkType.Untagged)
        tf.sources.append(src)
        tf.metadata = s1
        b.create_tag("t_bare", "t", [1.0])
        mf = b.create_multi_tag("m_full", "t", pos)
        mf.extents = ext
        mf.units = ["mV", "s"]
        mf.references.append(dimmed)
        mf.create_feature(ranged, nix.LinkType.Indexed)
        mf.sources.append(src)
        b.create_multi_tag("m_bare", "t", pos)
        g = b.create_group("g_full", "t")
        g.data_arrays.append(plain)
        g.data_arrays.append(dimmed)
        g.data_frames.append(fu)
        g.tags.append(tf)
        g.multi_tags.append(mf)
        g.sources.append(src)
        b.create_group("g_empty", "t")
        plain.sources.append(src)
        b2 = f.create_block("b2", "t")
        b2.create_data_array("x_arr", "t", data=[1.0, 2.0])
        b2.create_tag("x_tag", "t", [0.0])
        b2.create_source("x_src", "t")
    finally:
        f.close()


# ---------------------------------------------------------------------------------------------------------------
# objects and members by introspection

SKIP_ATTRS = {"file", "parent", "referring_objects", "referring_data_arrays", "referring_tags",
              "referring_multi_tags", "referring_sources", "referring_blocks", "referring_groups", "parent_source"}
# not operations on the content of the file: session handling and printing (close is exercised at the end of every
# session; the switch itself is the configuration the sweep runs under)
SKIP_MEMBERS = {"close", "open", "pprint", "print_table", "write_to_csv", "create_new", "auto_update_timestamps"}
EXTRA_STEPS = {"DataArray": [["call", "get_slice", [[0], [1]]]]}


def _is_nix_obj(v):
    t = type(v)
    return (getattr(t, "__module__", "") or "").startswith("nixio.") and not isinstance(v, enum.Enum) \
        and not isinstance(v, BaseException) and t.__name__ not in ("File", "DataType") and not inspect.isclass(v)


def public_members(cls):
    """-> (readable properties, setters, methods) of a class, inherited ones included"""
    props, setters, methods = [], [], []
    for name in dir(cls):
        if name.startswith("_") and name not in ("__setitem__", "__delitem__"):
            continue
        try:
            a = inspect.getattr_static(cls, name)
        except AttributeError:
            continue
        if isinstance(a, property):
            props.append(name)
            if a.fset is not None:
                setters.append(name)
        elif isinstance(a, (classmethod, staticmethod)):
            continue
        elif callable(a):
            methods.append(name)
    return props, setters, methods


def resolve(f, path):
    o = f
    for st in path:
        if st[0] == "attr":
            o = getattr(o, st[1])
        elif st[0] == "item":
            o = o[st[1]]
        elif st[0] == "call":
            o = getattr(o, st[1])(*st[2])
        else:
            raise ValueError("bad path step")
    return o


def kind_of(v):
    cn = type(v).__name__
    ic = getattr(v, "_itemclass", None)
    if ic is not None and hasattr(type(v), "__getitem__"):
        return "%s[%s]" % (cn, getattr(ic, "__name__", "?"))
    return cn


def _h5obj(v):
    """the h5py object behind a nixio handle (None when it has none of its own)"""
    g = getattr(v, "_h5group", None)
    if g is not None:
        for a in ("group", "dataset"):
            try:
                o = getattr(g, a)
                if o is not None:
                    return o
            except Exception:
                pass
    return None


def _h5name(v):
    o = _h5obj(v)
    try:
        return None if o is None else o.name
    except Exception:
        return None


def _h5addr(v):
    """the address of the HDF5 object: one entity reached through several links (a group's member list, a metadata
    link) is one object"""
    import h5py
    o = _h5obj(v)
    try:
        return None if o is None else int(h5py.h5o.get_info(o.id).addr)
    except Exception:
        return None


def collect(f):
    """[{"path", "cls", "h5", "entity"}] of the nixio objects reachable through public properties and container
    items, breadth first; one entry per (class, HDF5 object) - the shortest route - and per container of each owner"""
    out = [{"path": [], "cls": "File", "h5": "/", "addr": "root", "entity": True}]
    seen = set()
    work = [([], f, 0)]
    while work:
        path, o, depth = work.pop(0)
        if depth > 8:
            continue
        steps = []
        props, _, _ = public_members(type(o))
        for name in props:
            if name not in SKIP_ATTRS:
                steps.append(["attr", name])
        if hasattr(type(o), "__getitem__") and hasattr(type(o), "__len__") and hasattr(o, "_itemclass"):
            try:
                n = len(o)
            except Exception:
                n = 0
            for i in range(n):
                steps.append(["item", i])
        for st in EXTRA_STEPS.get(type(o).__name__, []):
            steps.append(st)
        for st in steps:
            try:
                v = resolve(o, [st])
            except Exception:
                continue
            if not _is_nix_obj(v):
                continue
            cn = kind_of(v)
            h5 = _h5name(v)
            addr = _h5addr(v)
            ent = isinstance(inspect.getattr_static(type(v), "updated_at", None), property)
            # an object with an HDF5 object of its own: once per (class, object); containers and other helper
            # objects: once per owner and name
            key = (cn, addr) if ent and addr is not None else (cn, addr, _h5addr(o), st[1])
            if key in seen:
                continue
            seen.add(key)
            out.append({"path": path + [st], "cls": cn, "h5": h5, "addr": addr, "entity": ent})
            work.append((path + [st], v, depth + 1))
    return out


# ---------------------------------------------------------------------------------------------------------------
# arguments: recipes by member name (built from the object the call is made on and from the scene) and candidates
# guessed from parameter names


def _blk(f, o):
    """the block an object lives in (first block when it is not inside one)"""
    h5 = _h5name(o) or ""
    parts = h5.split("/")
    if len(parts) > 2 and parts[1] == "data" and parts[2] in f.blocks:
        return f.blocks[parts[2]]
    return f.blocks[0]


def _arr(name):
    return lambda f, o: _blk(f, o).data_arrays[name]


def _rows(o):
    try:
        return len(o)
    except Exception:
        return 3


def _frame_row(o, k=0):
    return tuple(o.read_rows([k])[0]) if hasattr(o, "read_rows") else None


def _own_data(o):
    import numpy as np
    return np.array(o[:])


def R(label, fn):
    """a recipe: label + function (f, o) -> (args, kwargs)"""
    return (label, fn)


def _a(*args, **kw):
    return lambda f, o: (list(args), dict(kw))


N = [0]


def _fresh(prefix="zz"):
    N[0] += 1
    return "%s%d" % (prefix, N[0])


RECIPES = {
    # DataFrame
    "append_column": [R("column of the frame's length, new name", lambda f, o: ([[7.0] * _rows(o), _fresh("col")], {})),
                      R("integer column with datatype", lambda f, o: ([[7] * _rows(o), _fresh("col")], {"datatype": int})),
                      R("column of the wrong length", lambda f, o: ([[7.0] * (_rows(o) + 2), _fresh("col")], {}))],
    "append_rows": [R("one more row like the first", lambda f, o: ([[_frame_row(o)]], {})),
                    R("a row that does not fit", _a([("x",)]))],
    "write_rows": [R("overwrite row 0 with row 1", lambda f, o: ([[_frame_row(o, 1)], [0]], {}))],
    "write_cell": [R("cell by position", lambda f, o: ([_frame_row(o)[1]], {"position": [1, 1]})),
                   R("cell by column name and row", lambda f, o: ([_frame_row(o)[1]], {"col_name": "b", "row_idx": 2}))],
    "write_column": [R("column by name", lambda f, o: ([[9.5] * _rows(o)], {"name": "b"})),
                     R("column by index", lambda f, o: ([[8.5] * _rows(o)], {"index": 1}))],
    # data sets (arrays, frames, views)
    "write_direct": [R("own data, changed", lambda f, o: ([_own_data(o) + 1 if _own_data(o).dtype.kind in "fiu"
                                                            else _own_data(o)[::-1].copy()], {}))],
    "read_direct": [R("into a buffer", lambda f, o: ([_own_data(o)], {}))],
    "__setitem__": [R("first element := last element", lambda f, o: ([0, _own_data(o)[-1]], {})),
                    R("section: new property", lambda f, o: ([_fresh("key"), 5], {})),
                    R("section: existing property", lambda f, o: ([o.props[0].name, [4, 5]], {})),
                    R("index out of range", _a(99, 1.0))],
    "append": [R("data set: own first element again", lambda f, o: ([_own_data(o)[:1]], {})),
               R("link list: an array of the block", lambda f, o: ([_arr("a_int")(f, o)], {})),
               R("link list: a frame of the block", lambda f, o: ([_blk(f, o).data_frames["f_plain"]], {})),
               R("link list: a tag of the block", lambda f, o: ([_blk(f, o).tags["t_bare"]], {})),
               R("link list: a multi tag of the block", lambda f, o: ([_blk(f, o).multi_tags["m_bare"]], {})),
               R("link list: a source of the block", lambda f, o: ([_blk(f, o).sources["o_bare"]], {})),
               R("link list: an array of another block", lambda f, o: ([f.blocks["b2"].data_arrays["x_arr"]], {}))],
    "extend": [R("link list: two arrays", lambda f, o: ([[_arr("a_int")(f, o), _arr("a_ext")(f, o)]], {})),
               R("link list: two sources", lambda f, o: ([[_blk(f, o).sources["o_bare"]]], {})),
               R("link list: tags", lambda f, o: ([[_blk(f, o).tags["t_bare"]]], {})),
               R("link list: multi tags", lambda f, o: ([[_blk(f, o).multi_tags["m_bare"]]], {})),
               R("link list: frames", lambda f, o: ([[_blk(f, o).data_frames["f_plain"]]], {}))],
    "__delitem__": [R("first item by position", _a(0)),
                    R("first item by name", lambda f, o: ([o[0].name if hasattr(o, "_itemclass") else o.props[0].name], {})),
                    R("last item by object", lambda f, o: ([o[len(o) - 1]], {})),
                    R("an item that is not there", _a("no such item"))],
    # DataArray
    "append_set_dimension": [R("no labels", _a()), R("labels", _a(["a", "b"]))],
    "append_sampled_dimension": [R("interval, label, unit, offset", _a(0.5, "time", "s", 0.25)), R("interval", _a(2)),
                                 R("refused interval", _a("x"))],
    "append_range_dimension": [R("ticks, label, unit", _a([1.0, 2.0, 4.0], "x", "mV")), R("nothing", _a()),
                               R("unsorted ticks", _a([3.0, 2.0, 1.0]))],
    "append_range_dimension_using_self": [R("default index", _a()), R("index -1", _a([-1])), R("index 0", _a([0]))],
    "delete_dimensions": [R("all", _a())],
    "get_slice": [R("one element", _a([0], [1]))],
    # dimensions
    "link_data_array": [R("1-D array of the block", lambda f, o: ([_arr("a_ticks")(f, o), [-1]], {})),
                        R("2-D array, row 0", lambda f, o: ([_arr("a_dimmed")(f, o), [0, -1]], {})),
                        R("bad index", lambda f, o: ([_arr("a_ticks")(f, o), [0]], {}))],
    "link_data_frame": [R("frame with units, column 1", lambda f, o: ([_blk(f, o).data_frames["f_units"], 1], {})),
                        R("frame without units, column 1", lambda f, o: ([_blk(f, o).data_frames["f_plain"], 1], {})),
                        R("bad column", lambda f, o: ([_blk(f, o).data_frames["f_plain"], 9], {}))],
    "remove_link": [R("remove", _a())],
    # tags
    "create_feature": [R("array, untagged", lambda f, o: ([_arr("a_int")(f, o), "untagged"], {})),
                       R("frame, indexed", lambda f, o: ([_blk(f, o).data_frames["f_plain"], "indexed"], {})),
                       R("array of another block", lambda f, o: ([f.blocks["b2"].data_arrays["x_arr"], "tagged"], {})),
                       R("no data", _a(None, "untagged"))],
    "tagged_data": [R("first reference", lambda f, o: ([0, 0] if type(o).__name__ == "MultiTag" else [0], {}))],
    "feature_data": [R("first feature", lambda f, o: ([0, 0] if type(o).__name__ == "MultiTag" else [0], {}))],
    "retrieve_data": [R("first reference", lambda f, o: ([0, 0] if type(o).__name__ == "MultiTag" else [0], {}))],
    "retrieve_feature_data": [R("first feature", lambda f, o: ([0, 0] if type(o).__name__ == "MultiTag" else [0], {}))],
    # creation (the new entity's own stamps are its own; all pre-existing entities keep theirs)
    "create_block": [R("new", lambda f, o: ([_fresh("blk"), "t"], {})),
                     R("copy of a block", lambda f, o: ([], {"name": _fresh("blk"), "copy_from": f.blocks["b2"]})),
                     R("copy, new ids", lambda f, o: ([], {"name": _fresh("blk"), "copy_from": f.blocks["b2"],
                                                          "keep_copy_id": False})),
                     R("name in use", _a("b1", "t"))],
    "create_section": [R("new", lambda f, o: ([_fresh("sec"), "t"], {})), R("name in use / invalid", _a("a/b", "t"))],
    "create_property": [R("values", lambda f, o: ([_fresh("prop"), [1, 2]], {})),
                        R("dtype", lambda f, o: ([_fresh("prop"), _nix().DataType.Double], {})),
                        R("copy", lambda f, o: ([], {"name": _fresh("prop"),
                                                    "copy_from": f.sections["s_full"].props["p_float"]})),
                        R("refused values", lambda f, o: ([_fresh("prop"), ["a", 1]], {}))],
    "copy_section": [R("with children, ids kept", lambda f, o: ([f.sections["s_full"]], {"name": _fresh("sec")})),
                     R("without children, new ids", lambda f, o: ([f.sections["s_full"]],
                                                                  {"children": False, "keep_id": False,
                                                                   "name": _fresh("sec")}))],
    "create_data_array": [R("data", lambda f, o: ([_fresh("arr"), "t"], {"data": [1.0, 2.0], "label": "l", "unit": "mV"})),
                          R("shape and dtype", lambda f, o: ([_fresh("arr"), "t"], {"dtype": _nix().DataType.Double,
                                                                                      "shape": (2, 2)})),
                          R("copy, id kept", lambda f, o: ([], {"name": _fresh("arr"), "copy_from": _arr("a_dimmed")(f, o)})),
                          R("copy, new id", lambda f, o: ([], {"name": _fresh("arr"), "copy_from": _arr("a_linker")(f, o),
                                                              "keep_copy_id": False})),
                          R("refused dtype", lambda f, o: ([_fresh("arr"), "t"], {"dtype": "nonsense", "data": [1]}))],
    "create_data_frame": [R("columns and rows", lambda f, o: ([_fresh("frm"), "t"], {"col_dict": {"n": str, "v": float},
                                                                                      "data": [("a", 1.0)]})),
                          R("copy", lambda f, o: ([], {"name": _fresh("frm"),
                                                      "copy_from": _blk(f, o).data_frames["f_units"]})),
                          R("refused", lambda f, o: ([_fresh("frm"), "t"], {"col_dict": None}))],
    "create_group": [R("new", lambda f, o: ([_fresh("grp"), "t"], {})), R("type missing", lambda f, o: ([_fresh("grp"), None], {}))],
    "create_source": [R("new", lambda f, o: ([_fresh("src"), "t"], {})), R("name in use", _a("o_full", "t"))],
    "create_tag": [R("position", lambda f, o: ([_fresh("tag"), "t", [1.0, 2.0]], {})),
                   R("copy", lambda f, o: ([], {"name": _fresh("tag"), "copy_from": _blk(f, o).tags["t_full"]})),
                   R("refused position", lambda f, o: ([_fresh("tag"), "t", ["not", "a", "position"]], {}))],
    "create_multi_tag": [R("positions", lambda f, o: ([_fresh("mtg"), "t", _arr("a_pos")(f, o)], {})),
                         R("positions and extents", lambda f, o: ([_fresh("mtg"), "t", _arr("a_pos")(f, o)],
                                                                  {"extents": _arr("a_ext")(f, o)})),
                         R("copy", lambda f, o: ([], {"name": _fresh("mtg"), "copy_from": _blk(f, o).multi_tags["m_full"]})),
                         R("refused positions", lambda f, o: ([_fresh("mtg"), "t", "xx"], {}))],
    # properties
    "extend_values": [R("values of the property's type", lambda f, o: ([list(o.values[:1]) or [1]], {})),
                      R("refused", _a([object()]))],
    "delete_values": [R("all", _a())],
    # force: the explicit calls (only the stamp they name, of the object they are made on, may change)
    "force_created_at": [R("a second", _a(1234567890)), R("now", _a()), R("refused", _a("x"))],
    "force_updated_at": [R("a second", _a(1234567891)), R("now", _a()), R("refused", _a(1.5))],
    "find_sources": [R("all", _a())], "find_sections": [R("all", _a())], "find_related": [R("all", _a())],
    "validate": [R("run", _a())], "flush": [R("run", _a())],
}

# values tried for property setters, by setter name; each is a function (f, o) -> value
SET_VALUES = {
    "metadata": [lambda f, o: f.sections["s_bare"], lambda f, o: f.sections["s_full"], lambda f, o: None,
                 lambda f, o: 5],
    # (no cycles: s_full links to s_bare in the scene)
    "link": [lambda f, o: f.sections["s_bare"] if o.name != "s_bare" else None, lambda f, o: None, lambda f, o: 5],
    "positions": [lambda f, o: _arr("a_ext")(f, o), lambda f, o: f.blocks["b2"].data_arrays["x_arr"],
                  lambda f, o: None],
    "extents": [lambda f, o: _arr("a_pos")(f, o), lambda f, o: None, lambda f, o: _arr("a_ext")(f, o)],
    "data": [lambda f, o: _arr("a_int")(f, o), lambda f, o: _blk(f, o).data_frames["f_plain"],
             lambda f, o: _arr("a_copy")(f, o), lambda f, o: None],
    "link_type": [lambda f, o: "tagged", lambda f, o: "indexed", lambda f, o: _nix().LinkType.Untagged,
                  lambda f, o: "bogus"],
    "units": [lambda f, o: ["mV"] * max(1, len(getattr(o, "column_names", None) or [1])),
              lambda f, o: ["s", "mV", "kHz", "ms"][:len(getattr(o, "column_names", None) or [1, 2])],
              lambda f, o: None, lambda f, o: [5]],
    "unit": [lambda f, o: "kHz", lambda f, o: "s", lambda f, o: None, lambda f, o: "", lambda f, o: 5],
    "label": [lambda f, o: "zz label", lambda f, o: None, lambda f, o: 5],
    "type": [lambda f, o: "zz.type", lambda f, o: None],
    "definition": [lambda f, o: "zz definition", lambda f, o: None, lambda f, o: 5],
    "reference": [lambda f, o: "zz ref", lambda f, o: None],
    "repository": [lambda f, o: "zz repo", lambda f, o: None],
    "position": [lambda f, o: [2.0, 3.0], lambda f, o: 4.0, lambda f, o: None, lambda f, o: ["a"]],
    "extent": [lambda f, o: [0.5, 0.5], lambda f, o: None, lambda f, o: [], lambda f, o: ["a"]],
    "polynom_coefficients": [lambda f, o: [0.5, 2.0, 1.0], lambda f, o: None, lambda f, o: [], lambda f, o: ["a"]],
    "expansion_origin": [lambda f, o: 1.5, lambda f, o: None, lambda f, o: "x"],
    "data_extent": [lambda f, o: tuple(x + 1 for x in o.data_extent), lambda f, o: tuple(max(1, x - 1) for x in o.data_extent),
                    lambda f, o: "x"],
    "ticks": [lambda f, o: [1.0, 2.0, 5.0], lambda f, o: [3.0, 1.0]],
    "labels": [lambda f, o: ["p", "q"], lambda f, o: None, lambda f, o: [1, 2]],
    "sampling_interval": [lambda f, o: 0.25, lambda f, o: "x"],
    "offset": [lambda f, o: 1.5, lambda f, o: None],
    "index": [lambda f, o: o.index, lambda f, o: [0] * len(o.index) if hasattr(o.index, "__len__") else 0],
    "values": [lambda f, o: list(o.values[::-1]) or [3], lambda f, o: [4, 5], lambda f, o: ["u", "v"], lambda f, o: [1.5],
               lambda f, o: None, lambda f, o: []],
    "uncertainty": [lambda f, o: 0.5, lambda f, o: None, lambda f, o: "x"],
    "dependency": [lambda f, o: "zz dep", lambda f, o: None],
    "dependency_value": [lambda f, o: "zz depv", lambda f, o: None],
    "value_origin": [lambda f, o: "zz origin", lambda f, o: None],
    "odml_type": [lambda f, o: __import__("nixio.property").property.OdmlType.Int,
                  lambda f, o: __import__("nixio.property").property.OdmlType.Text, lambda f, o: "int"],
}
GENERIC_VALUES = [lambda f, o: "zz", lambda f, o: 2.5, lambda f, o: None, lambda f, o: [1.0, 2.0], lambda f, o: ["mV"],
                  lambda f, o: 7, lambda f, o: f.sections["s_bare"], lambda f, o: f.blocks["b1"].data_arrays["a_int"]]
BY_PARAM = {"name": lambda f, o: _fresh("nm"), "type_": lambda f, o: "t", "array_type": lambda f, o: "t",
            "data": lambda f, o: [1.0, 2.0, 3.0], "index": lambda f, o: 0, "time": lambda f, o: 1234567890,
            "item": lambda f, o: 0, "key": lambda f, o: 0, "value": lambda f, o: 5.0, "label": lambda f, o: "zz",
            "unit": lambda f, o: "mV", "position": lambda f, o: [1.0], "count": lambda f, o: 2,
            "start_position": lambda f, o: 0.0, "end_position": lambda f, o: 1.0, "posidx": lambda f, o: 0,
            "refidx": lambda f, o: 0, "featidx": lambda f, o: 0}


def candidates(cls):
    """-> [("set" | "call", member, label, builder)] for every public setter and method of the class; builder(f, o)
    returns the value (set) or (args, kwargs) (call)"""
    props, setters, methods = public_members(cls)
    out = []
    for name in props:
        a = inspect.getattr_static(cls, name)
        if a.fdel is not None and name not in SKIP_MEMBERS:
            out.append(("del", name, "del obj.%s" % name, None))
        if name not in SKIP_MEMBERS:
            out.append(("get", name, "read obj.%s" % name, None))      # reading is an operation too
    for name in setters:
        if name in SKIP_MEMBERS:
            continue
        vals = SET_VALUES.get(name)
        for k, fn in enumerate(vals if vals is not None else GENERIC_VALUES):
            out.append(("set", name, "value %d%s" % (k, "" if vals is not None else " (generic)"), fn))
    for name in methods:
        if name in SKIP_MEMBERS:
            continue
        rs = RECIPES.get(name)
        if rs is not None:
            for label, fn in rs:
                out.append(("call", name, label, fn))
            continue
        # no recipe: arguments from the parameter names (a member the catalogue does not know yet is still called)
        fn = inspect.getattr_static(cls, name)
        try:
            sig = inspect.signature(fn)
        except (TypeError, ValueError):
            continue
        req = [p for p in list(sig.parameters.values())[1:]
               if p.kind in (p.POSITIONAL_ONLY, p.POSITIONAL_OR_KEYWORD) and p.default is p.empty]

        def guessed(f, o, req=req, shift=0):
            args = []
            for p in req:
                g = BY_PARAM.get(p.name)
                args.append(g(f, o) if g is not None else GENERIC_VALUES[shift % len(GENERIC_VALUES)](f, o))
            return args, {}
        out.append(("call", name, "guessed from parameter names", guessed))
        if any(p.name not in BY_PARAM for p in req):
            for s in range(1, 4):
                out.append(("call", name, "guessed (%d)" % s, lambda f, o, s=s, g=guessed: g(f, o, shift=s)))
    return out


DESTRUCTIVE = ("__delitem__", "delete", "remove", "del_")


def _destructive(member):
    return any(member.startswith(p) or member == p for p in DESTRUCTIVE)


# ---------------------------------------------------------------------------------------------------------------
# observation


def _txt(v):
    if v is None:
        return None
    if isinstance(v, bytes):
        return v.decode("ascii", "replace")
    return str(v)


class Watch:
    """the stored created_at / updated_at of the entities that exist now, read straight from the HDF5 objects (kept
    open: an entity a later call deletes keeps reporting its last stored values, one a call creates is not watched)"""

    def __init__(self, f, ents):
        import h5py
        import numpy as np
        self.objs = []
        h5 = f._h5file
        for e in ents:
            try:
                self.objs.append((e, h5 if e["h5"] == "/" else h5[e["h5"]]))
            except Exception:
                pass
        self.h5a = h5py.h5a
        self.mtype = h5py.h5t.C_S1.copy()
        self.mtype.set_size(40)
        self.buf = np.empty((), dtype="S40")

    def attr(self, o, name):
        try:
            a = self.h5a.open(o.id, name)
        except KeyError:
            return None
        try:
            a.read(self.buf, mtype=self.mtype)         # (text of any storage type, converted by HDF5)
            return self.buf.tobytes().rstrip(b"\0").decode("ascii", "replace")
        except Exception:
            return _txt(o.attrs.get(name.decode()))

    def read(self):
        out = []
        for e, o in self.objs:
            try:
                out.append((self.attr(o, b"created_at"), self.attr(o, b"updated_at")))
            except Exception as ex:
                out.append(("ERR:" + type(ex).__name__,) * 2)
        return out


def api_stamps(f, ent):
    """(created_at, updated_at) of a watched entity through the public getters of a freshly resolved handle"""
    try:
        o = resolve(f, ent["path"])
        return [o.created_at, o.updated_at]
    except Exception as ex:
        return ["ERR:" + type(ex).__name__] * 2


def _show(v, depth=0):
    import numpy as np
    if isinstance(v, (str, int, float, bool)) or v is None:
        return v
    if isinstance(v, np.ndarray):
        return "ndarray%s" % (v.tolist(),) if v.size < 12 else "ndarray shape %s" % (v.shape,)
    if isinstance(v, (list, tuple)):
        return [_show(x, depth + 1) for x in list(v)[:8]]
    if isinstance(v, dict):
        return {str(k): _show(x, depth + 1) for k, x in v.items()}
    if _is_nix_obj(v):
        try:
            return "<%s %s>" % (type(v).__name__, v.name)
        except Exception:
            return "<%s>" % type(v).__name__
    return repr(v)[:60]


def path_text(path):
    s = "file"
    for st in path:
        if st[0] == "attr":
            s += "." + st[1]
        elif st[0] == "item":
            s += "[%r]" % (st[1],)
        else:
            s += ".%s(%s)" % (st[1], ", ".join(repr(a) for a in st[2]))
    return s


VARIANTS = ["off at open", "switched off by assignment", "off by re-opening"]
# the switch on: the same calls; "an entity's creation time never changes as a side effect of any operation, and its
# update time never moves backwards while the clock does not" (the clock only advances during a session)
ON = "on"


def _utc_text(t):
    import datetime as _dt
    d = _dt.datetime(1970, 1, 1) + _dt.timedelta(seconds=t)
    return "%04d%02d%02dT%02d%02d%02d" % (d.year, d.month, d.day, d.hour, d.minute, d.second)


class Sweep:
    def __init__(self, ctx, clock):
        self.ctx = ctx
        self.clock = clock
        self.scene = ctx.tmpfile("c19-off-scene.nix")
        self.work = ctx.tmpfile("c19-off-work.nix")
        build_scene(self.scene, clock)
        nix = _nix()
        f = nix.File.open(self.scene, nix.FileMode.ReadOnly)
        try:
            self.objs = collect(f)
            # names instead of positions where the container offers them (positions shift when items go away)
        finally:
            f.close()
        self.ents = [o for o in self.objs if o["entity"]]
        self.f = None
        self.calls = 0
        self.records = None       # a list when the caller wants to know what every call did
        self.accepted = {}        # "Class.member" -> number of accepted calls
        self.tried = {}

    # -- sessions ---------------------------------------------------------------------------------
    def open(self, variant):
        nix = _nix()
        self.close()
        shutil.copyfile(self.scene, self.work)
        self.clock.t = T0 + STEP
        if variant == ON:
            self.f = nix.File.open(self.work, nix.FileMode.ReadWrite, auto_update_timestamps=True)
        elif variant == "off at open":
            self.f = nix.File.open(self.work, nix.FileMode.ReadWrite, auto_update_timestamps=False)
        elif variant == "switched off by assignment":
            self.f = nix.File.open(self.work, nix.FileMode.ReadWrite, auto_update_timestamps=True)
            self.f.auto_update_timestamps = False
        else:
            self.f = nix.File.open(self.work, nix.FileMode.ReadWrite, auto_update_timestamps=True)
            self.f.close()
            self.f = nix.File.open(self.work, nix.FileMode.ReadWrite, auto_update_timestamps=False)
        self.variant = variant
        self.watch = Watch(self.f, self.ents)
        self.last = self.watch.read()
        self.log = []

    def close(self):
        if self.f is not None:
            try:
                self.f.close()
            except Exception:
                pass
            self.f = None

    # -- one call ---------------------------------------------------------------------------------
    def perform(self, path, kind, member, label, builder):
        """-> (accepted, shown arguments); raises nothing"""
        self.clock.t += STEP
        shown = None
        try:
            o = resolve(self.f, path)
            if kind == "set":
                v = builder(self.f, o)
                shown = _show(v)
                setattr(o, member, v)
            elif kind == "del":
                delattr(o, member)
            elif kind == "get":
                v = getattr(o, member)
                if inspect.isgenerator(v):
                    list(v)
            else:
                args, kw = builder(self.f, o)
                shown = {"args": _show(args), "kwargs": _show(kw)} if kw else _show(args)
                r = getattr(o, member)(*args, **kw)
                if inspect.isgenerator(r):
                    list(r)
            return True, shown
        except Exception as ex:
            return False, {"arguments": shown, "raised": "%s: %s" % (type(ex).__name__, str(ex)[:80])}

    def step(self, obj, cand):
        """perform one candidate call and compare the watched stamps; -> list of Failure"""
        kind, member, label, builder = cand
        ok, shown = self.perform(obj["path"], kind, member, label, builder)
        self.calls += 1
        key = "%s.%s" % (obj["cls"], member)
        self.tried[key] = self.tried.get(key, 0) + 1
        if ok:
            self.accepted[key] = self.accepted.get(key, 0) + 1
        entry = {"on": path_text(obj["path"]), "path": obj["path"], "cls": obj["cls"], "kind": kind, "member": member,
                 "recipe": label, "shown": shown, "accepted": ok, "clock": self.clock.t}
        self.log.append(entry)
        self.clock_before = self.clock.t - STEP
        now = self.watch.read()
        if self.records is not None:
            # what the call did to the stored stamps (for the comparison with the model's table of touch states)
            me = [k for k, (e, _) in enumerate(self.watch.objs) if e["addr"] is not None and e["addr"] == obj.get("addr")]
            self.records.append({
                "cls": obj["cls"].split("[")[0],
                "member": member + {"del": "__deleter", "get": "__getter"}.get(kind, ""),
                "kind": kind, "accepted": ok, "on": path_text(obj["path"]), "recipe": label, "shown": shown,
                "variant": self.variant, "clock": self.clock.t,
                "changed": [[path_text(self.watch.objs[k][0]["path"]), self.watch.objs[k][0]["cls"], attr, a[i]]
                            for k, (b, a) in enumerate(zip(self.last, now))
                            for i, attr in enumerate(("created_at", "updated_at")) if a[i] != b[i]],
                "self": path_text(self.watch.objs[me[0]][0]["path"]) if me else None,
                "self_updated": now[me[0]][1] if me else None, "now": _utc_text(self.clock.t)})
        fails = self.compare(self.last, now, entry, obj)
        self.last = now
        return fails

    def compare(self, before, now, entry, obj):
        fails = []
        if before == now:
            return fails
        forced = {"force_created_at": 0, "force_updated_at": 1}.get(entry["member"]) if entry["kind"] == "call" else None
        if entry["kind"] == "get":
            entry = dict(entry, member="%s (read)" % entry["member"])
        for (e, _), b, a in zip(self.watch.objs, before, now):
            if a == b:
                continue
            for k, attr in enumerate(("created_at", "updated_at")):
                if a[k] == b[k]:
                    continue
                if forced == k and e["addr"] == obj.get("addr"):
                    continue          # the stamp an explicit force call names, of the object it was made on
                how = "%s %s (%s, %s)" % (entry["cls"], entry["member"], "accepted" if entry["accepted"] else "refused",
                                          "an explicit force call on another stamp / object" if forced is not None
                                          else "not a force call")
                if self.variant == ON:
                    if k == 1:
                        # update time: never backwards while the clock does not (a stamp forced into the future is
                        # no clock value: only stamps that were not ahead of the clock count)
                        if not (isinstance(a[k], str) and isinstance(b[k], str) and a[k] < b[k]
                                and b[k] <= _utc_text(self.clock_before)):
                            continue
                        what = "updated_at of %s moved backwards while the clock did not: %s" % (e["cls"], how)
                    else:
                        what = "created_at of %s changed as a side effect: %s" % (e["cls"], how)
                else:
                    what = "%s of %s changed with auto_update_timestamps off: %s" % (attr, e["cls"], how)
                api = api_stamps(self.f, e)
                fails.append(Failure(
                    what,
                    {"off_sweep": {"variant": self.variant, "calls": list(self.log), "entity": path_text(e["path"]),
                                   "entity_path": e["path"]}},
                    {"stored": a[k], "through the getter": api[k]}, {"stored": b[k]},
                    "%s.%s" % (entry["cls"].split("[")[0], entry["member"])))
        return fails

    def end_session(self):
        """close and re-open: nothing may have moved"""
        fails = []
        if self.f is None:
            return fails
        nix = _nix()
        before = self.last
        self.clock.t += STEP
        try:
            self.f.close()
            self.f = nix.File.open(self.work, nix.FileMode.ReadWrite, auto_update_timestamps=(self.variant == ON))
        except Exception:
            self.f = None
            return fails
        self.watch = Watch(self.f, self.ents)
        now = self.watch.read()
        entry = {"on": "file", "path": [], "cls": "File", "kind": "session", "member": "close / File.open", "recipe": "",
                 "shown": None, "accepted": True, "clock": self.clock.t}
        self.log.append(entry)
        if len(now) == len(before):
            fails = self.compare(before, now, entry, {"addr": None, "cls": "File"})
        self.last = now
        return fails


def _sample(rng, objs, share, entity_share=None):
    """a share of the objects of every class (at least one each); entity_share: that share of the entities, `share`
    of the helper objects (containers, dimension descriptors, views)"""
    if share >= 1.0:
        return list(objs)
    if entity_share is not None:
        return _sample(rng, [o for o in objs if o["entity"]], entity_share) + \
            _sample(rng, [o for o in objs if not o["entity"]], share)
    by_cls = {}
    for o in objs:
        by_cls.setdefault(o["cls"], []).append(o)
    pick = []
    for cls, lst in sorted(by_cls.items()):
        n = max(1, int(round(len(lst) * share)))
        pick += rng.sample(lst, min(len(lst), n))
    return pick


def run(ctx, rng, share=1.0, pristine=False, variants=None, stop_at_first=False, second_pass=True, on_share=0.0,
        records=None, entity_share=1.0):
    """the sweep: -> (number of calls, failures, coverage).  share < 1: `entity_share` of the entities and `share` of the
    helper objects (at least one of every class) for the switch-off sessions; pristine: additionally every member of every object on a copy nothing else has touched;
    second_pass: the methods are called before AND after the setters of the object (other state); on_share: share of
    the objects that get a further session with the switch on"""
    from .c19 import Clock, patched_clock
    clock = Clock()
    fails = []
    seen = set()

    def add(fs):
        for x in fs:
            k = (x.what, x.site)
            if k not in seen:
                seen.add(k)
                fails.append(x)
    with patched_clock(clock), warnings.catch_warnings():
        warnings.simplefilter("ignore")
        sw = Sweep(ctx, clock)
        sw.records = records
        try:
            objs = _sample(rng, sw.objs, share, entity_share=entity_share) if share > 0 else []
            sessions = [(o, None) for o in objs]
            if on_share > 0:
                sessions += [(o, ON) for o in _sample(rng, sw.objs, on_share)]
            for obj, variant in sessions:
                if variant is None:
                    variant = (variants or VARIANTS)[rng.randrange(len(variants or VARIANTS))]
                try:
                    sw.open(variant)
                    cls = type(resolve(sw.f, obj["path"]))
                except Exception:
                    continue
                cands = candidates(cls)
                rng.shuffle(cands)
                methods = [c for c in cands if c[0] in ("call", "get") and not _destructive(c[1])]
                setters = [c for c in cands if c[0] == "set"]
                last = [c for c in cands if c[0] == "del" or (c[0] == "call" and _destructive(c[1]))]
                # methods on the state the scene gives the object, the setters, the methods again (on what the setters
                # left: units / dimensions / links cleared or replaced), then what takes things away
                for c in methods + setters + (methods if second_pass and variant != ON else []) + last:
                    add(sw.step(obj, c))
                    if stop_at_first and fails:
                        break
                add(sw.end_session())
                cands = methods + setters + last
                if pristine:
                    for c in cands:
                        try:
                            sw.open(variant)
                        except Exception:
                            continue
                        add(sw.step(obj, c))
                if stop_at_first and fails:
                    break
        finally:
            sw.close()
            for p in (sw.scene, sw.work):
                try:
                    os.remove(p)
                except OSError:
                    pass
    members = sorted(sw.tried)
    never = [m for m in members if not sw.accepted.get(m)]
    cov = {"objects": len(objs), "objects_on": len([1 for _, v in sessions if v == ON]), "objects_in_scene": len(sw.objs), "entities_watched": len(sw.ents),
           "members_called": len(members), "members_never_accepted": never, "calls": sw.calls,
           "accepted_calls": sum(sw.accepted.values())}
    return sw.calls, fails, cov


def replay(ctx, inp):
    """re-run the calls of a reported failure on a fresh copy of the scene; -> list of Failure"""
    from .c19 import Clock, patched_clock
    spec = inp["off_sweep"]
    clock = Clock()
    fails = []
    with patched_clock(clock), warnings.catch_warnings():
        warnings.simplefilter("ignore")
        sw = Sweep(ctx, clock)
        try:
            sw.open(spec["variant"])
            index = {repr(o["path"]): o for o in sw.objs}
            for c in spec["calls"]:
                if c["kind"] == "session":
                    fails += sw.end_session()
                    continue
                obj = index.get(repr(c["path"]))
                if obj is None:
                    continue
                cls = type(resolve(sw.f, obj["path"]))
                cand = [x for x in candidates(cls) if x[0] == c["kind"] and x[1] == c["member"] and x[2] == c["recipe"]]
                if not cand:
                    continue
                sw.clock.t = c["clock"] - STEP
                fails += sw.step(obj, cand[0])
        finally:
            sw.close()
            for p in (sw.scene, sw.work):
                try:
                    os.remove(p)
                except OSError:
                    pass
    return fails


def shrink(ctx, failure):
    """the shortest prefix-free version: the failing call alone, else the failing call with the accepted calls before
    it, else as found"""
    inp = failure.input
    calls = inp["off_sweep"]["calls"]
    if len(calls) <= 1:
        return failure
    for keep in ([calls[-1]], [c for c in calls[:-1] if c["accepted"]] + [calls[-1]]):
        if len(keep) >= len(calls):
            continue
        cand = {"off_sweep": dict(inp["off_sweep"], calls=keep)}
        try:
            fs = replay(ctx, cand)
        except Exception:
            continue
        for x in fs:
            if x.site == failure.site and x.what == failure.what:
                return x
    return failure
