"""C12 — correspondence of the vector-setter model (Pure/VecWrite.lean on Generated/WriteOrder.lean) with nixio.

A case = (setter, stored vector or none, spelled value).  The model side runs `["vec_set", ...]` on the driver; the
implementation side performs the assignment on a real file and reads the dataset back with h5py.  Compared: refused or
accepted, the dataset afterwards (rank, values as exact fractions; absent), whether `updated_at` moved.

The table ELEMS maps a concrete Python element to the abstract facts of `VecWrite.Elem` (trusted, exercised here):
  typeOk — `Property._check_new_value_types` accepts it for an Int64 property
  convOk — NumPy converts it to the dataset's element type (float64 for the tag / array setters, int64 for the property)
  h5Ok   — irrelevant for the source as it is (every write is preceded by a conversion); kept truthful nevertheless
"""
from fractions import Fraction

import numpy as np
import nixio


class _Opaque:
    pass


# name -> (factory, value as Fraction, facts for the float setters (typeOk, convOk, h5Ok), facts for the Int64 property)
ELEMS = {
    "half": (lambda: 0.5, Fraction(1, 2), (True, True, True), (False, True, True)),
    "float": (lambda: 2.25, Fraction(9, 4), (True, True, True), (False, True, True)),
    "int": (lambda: 3, Fraction(3), (True, True, True), (True, True, True)),
    "negint": (lambda: -7, Fraction(-7), (True, True, True), (True, True, True)),
    "str": (lambda: "a", Fraction(0), (False, False, False), (False, False, False)),
    "object": (lambda: _Opaque(), Fraction(0), (False, False, False), (False, False, False)),
    "huge": (lambda: 2 ** 70, Fraction(2 ** 70), (True, True, True), (True, False, False)),
}
# which element kinds an ndarray can hold (homogeneous dtype), and its dtype
ARRAY_KINDS = {"half": np.float64, "float": np.float64, "int": np.int64, "negint": np.int64, "str": None, "object": object}

SETTERS = ("Tag.position", "Tag.extent", "DataArray.polynom_coefficients", "Property.values", "RangeDimension.ticks")


def gen_case(rng):
    setter = rng.choice(SETTERS)
    prop = setter == "Property.values"
    linked = False
    if prop:
        stored = [rng.randrange(-5, 9) for _ in range(rng.randrange(0, 5))]
    elif setter == "RangeDimension.ticks":
        linked = rng.random() < 0.35
        stored = None if linked else sorted(rng.randrange(-8, 9) / 4.0 for _ in range(rng.randrange(1, 5)))
    else:
        stored = None if rng.random() < 0.2 else [rng.randrange(-8, 9) / 4.0 for _ in range(rng.randrange(1, 5))]
    shape = rng.choice(["none", "scalar", "list", "list", "tuple", "ndarray", "ndarray", "ndarray", "unsized", "nested-list",
                        "nested-ndarray", "empty-list", "empty-ndarray"])
    kinds = sorted(ELEMS)
    if shape == "none":
        arg = {"shape": "none"}
    elif shape in ("scalar", "unsized"):
        k = rng.choice([x for x in kinds if x != "str"] if shape == "scalar" else ["half", "int", "object"])
        arg = {"shape": shape, "elems": [k]}
    elif shape in ("list", "tuple"):
        n = rng.randrange(1, 6)
        base = rng.choice(kinds)
        es = [base if rng.random() < 0.75 else rng.choice(kinds) for _ in range(n)]
        if prop and len(set(es)) > 1 and "huge" in es:
            es = [e if e != "huge" else "int" for e in es]
        arg = {"shape": shape, "elems": es}
    elif shape == "ndarray":
        k = rng.choice(sorted(ARRAY_KINDS))
        arg = {"shape": shape, "elems": [k] * rng.randrange(1, 6)}
    elif shape in ("nested-list", "nested-ndarray"):
        k = rng.choice(["half", "int"])
        arg = {"shape": shape, "elems": [k] * 4}
    else:
        arg = {"shape": shape, "elems": []}
    return {"setter": setter, "stored": stored, "arg": arg, "linked": linked}


def _elem_json(kind, prop):
    _, val, ff, pf = ELEMS[kind]
    t, c, h = pf if prop else ff
    return ["%d/%d" % (val.numerator, val.denominator), t, c, h]


def model_op(case):
    prop = case["setter"] == "Property.values"
    a = case["arg"]
    es = [_elem_json(k, prop) for k in a.get("elems", [])]
    sh = a["shape"]
    if sh == "none":
        arg = None
    elif sh == "scalar":
        arg = {"scalar": es[0]}
    elif sh == "unsized":
        arg = {"unsized": es[0]}
    elif sh in ("list", "tuple", "empty-list"):
        arg = {"seq": [False, es]}
    elif sh in ("ndarray", "empty-ndarray"):
        arg = {"seq": [True, es]}
    elif sh == "nested-list":
        arg = {"nested": [False, 2, es]}
    else:
        arg = {"nested": [True, 2, es]}
    st = case["stored"]
    stored = None if st is None else [_frac_str(Fraction(x)) for x in st]
    if case["setter"] == "RangeDimension.ticks":
        return ["vec_ticks", stored, bool(case.get("linked")), arg]
    return ["vec_set", case["setter"], stored, 5, 9, arg]


def _frac_str(fr):
    return "%d/%d" % (fr.numerator, fr.denominator)


def concrete(case):
    a = case["arg"]
    sh = a["shape"]
    vals = [ELEMS[k][0]() for k in a.get("elems", [])]
    if sh == "none":
        return None
    if sh == "scalar":
        return vals[0]
    if sh == "unsized":
        return np.array(vals[0])
    if sh == "list":
        return vals
    if sh == "tuple":
        return tuple(vals)
    if sh == "ndarray":
        dt = ARRAY_KINDS[a["elems"][0]]
        return np.array(vals, dtype=dt) if dt is not None else np.array(vals)
    if sh == "nested-list":
        return [vals[:2], vals[2:]]
    if sh == "nested-ndarray":
        return np.array(vals).reshape(2, 2)
    if sh == "empty-list":
        return []
    return np.array([], dtype=np.float64)


class Scene:
    def __init__(self, path):
        self.f = nixio.File.open(path, nixio.FileMode.Overwrite)
        b = self.f.create_block("b", "t")
        self.da = b.create_data_array("da", "t", data=[1.0, 2.0])
        self.tag = b.create_tag("tg", "t", [0.0])
        s = self.f.create_section("s", "t")
        self.pr = s.create_property("p", [1, 2])
        self.rd = self.da.append_range_dimension([1.0, 2.0])
        self.dl = b.create_data_array("dl", "t", data=[5.0, 6.0, 7.0])

    def close(self):
        self.f.close()

    def target(self, setter):
        return {"Tag.position": (self.tag, "position", self.tag), "Tag.extent": (self.tag, "extent", self.tag),
                "DataArray.polynom_coefficients": (self.da, "polynom_coefficients", self.da),
                "Property.values": (self.pr, "values", self.pr)}[setter]

    def raw(self, setter):
        if setter == "Property.values":
            ds = self.pr._h5dataset.dataset
        else:
            obj, attr, _ = self.target(setter)
            grp = obj._h5group.group
            if attr not in grp:
                return None
            ds = grp[attr]
        return [ds.ndim, [_frac_str(Fraction(float(x)) if not isinstance(x, (int, np.integer)) else Fraction(int(x)))
                          for x in np.asarray(ds[()]).ravel().tolist()]]

    def run_ticks(self, case):
        rd = self.rd
        grp = rd._h5group.group                       # the state before: no ticks, no link, then valid assignments
        for nm in ("ticks", "link"):
            if nm in grp:
                del grp[nm]
        if case["stored"]:
            rd.ticks = case["stored"]
        if case.get("linked"):
            rd.link_data_array(self.dl, [-1])
        before = self.da.updated_at
        try:
            rd.ticks = concrete(case)
            err = None
        except Exception as e:      # noqa
            err = type(e).__name__
        grp = rd._h5group.group
        ds = None
        if "ticks" in grp:
            d = grp["ticks"]
            ds = [d.ndim, [_frac_str(Fraction(float(x))) for x in np.asarray(d[()]).ravel().tolist()]]
        return {"ds": ds, "touched": self.da.updated_at != before, "refused": err is not None, "error": err,
                "link": "link" in grp}

    def run(self, case):
        if case["setter"] == "RangeDimension.ticks":
            return self.run_ticks(case)
        obj, attr, stamped = self.target(case["setter"])
        setattr(obj, attr, None)                      # the state before: remove, then a valid assignment
        if case["stored"]:
            setattr(obj, attr, case["stored"])
        before = stamped.updated_at
        try:
            setattr(obj, attr, concrete(case))
            err = None
        except Exception as e:      # noqa
            err = type(e).__name__
        return {"ds": self.raw(case["setter"]), "touched": stamped.updated_at != before, "refused": err is not None,
                "error": err}


def canon_model(out):
    if "ok" not in out:
        return out
    o = out["ok"]
    r = {"ds": o["ds"], "touched": o["stamp"] == 9, "refused": o["err"] is not None}
    if "link" in o:
        r["link"] = o["link"]
    return r


def canon_impl(out):
    r = {"ds": out["ds"], "touched": out["touched"], "refused": out["refused"]}
    if "link" in out:
        r["link"] = out["link"]
    return r
