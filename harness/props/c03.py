"""C03 — names unique per parent, ids unique, all lookups agree (structural model)."""
import os
import random
import uuid
from collections import OrderedDict

import nixio
from nixio.exceptions import DuplicateName

from ..lib import core, storegen
from . import c03_gen, c03_prov
from ..lib.core import Failure, Disagreement

PROP = "C03"
LEAN_MODULE = "NixModel.Props.C03"
THEOREMS = [
    "Nix.C03.index_nonneg",
    "Nix.C03.index_negative",
    "Nix.C03.index_out_of_range",
    "Nix.C03.lookup_by_name",
    "Nix.C03.lookup_by_id",
    "Nix.C03.membership_iff_lookup",
    "Nix.C03.duplicate_refused_block",
    "Nix.C03.duplicate_refused_section_root",
    "Nix.C03.duplicate_refused_section",
    "Nix.C03.duplicate_refused_in",
    "Nix.C03.duplicate_refused_frame",
    "Nix.C03.duplicate_refused_property",
    "Nix.C03.reachable_wf",
    "Nix.C03.step_wf",
    "Nix.C03.views_agree_reachable",
    "Nix.C03.views_agree_link_reachable",
    "Nix.C03.names_unique_reachable",
    "Nix.C03.ids_unique_reachable",
    "Nix.C03.id_fresh",
    "Nix.C03.id_stable_wf",
    "Nix.C03.id_stable",
    "Nix.C03.id_stable_x",
    "Nix.C03.order_after_delete",
    "Nix.C03.membership_by_entity",
    "Nix.C03.membership_by_entity_link",
    "Nix.C03.membership_by_handle",
    "Nix.C03.membership_by_entity_wrong_kind",
    "Nix.C03.delete_by_entity",
    "Nix.C03.delete_key_forms_agree",
    "Nix.C03.delete_from_owning_container",
    "Nix.C03.demoL_reachable",
    "Nix.C03.link_append_last",
    "Nix.C03.link_unlink_keeps_rest",
    "Nix.C03.legal_name_accepted_block",
    "Nix.C03.acceptedAs_of_created",
    "Nix.C03.legal_name_accepted_in",
    "Nix.C03.legal_name_accepted_frame",
    "Nix.C03.legal_name_accepted_section",
    "Nix.C03.legal_name_accepted_in_full",
    "Nix.C03.legal_name_accepted_multi_tag_full",
    "Nix.C03.legal_name_accepted_frame_full",
    "Nix.C03.legal_name_accepted_section_full",
    "Nix.C03.legal_name_accepted_property",
    "Nix.C03.legal_name_accepted_property_full",
    "Nix.C03.other_kinds_untouched_frame",
    "Nix.C03.other_kinds_untouched_in",
    "Nix.C03.legal_name_accepted_partial",
    "Nix.C03.demo_reachable",
    "Nix.C03.demoX_reachable",
    "Nix.C03.create_shape_tests_own_container",
    "Nix.C03.create_shape_matches_model",
    "Nix.C03.create_shape_functions",
    "Nix.C03.contains_shape_plain",
    "Nix.C03.contains_shape_link",
    "Nix.C03.getitem_shape_plain",
    "Nix.C03.getitem_shape_link",
    "Nix.C03.h5_lookup_shape",
    "Nix.C03.h5_get_by_name_shape",
    "Nix.C03.h5_get_by_id_shape",
    "Nix.C03.h5_contains_shape",
    "Nix.C03.backend_atoms_are_h5group",
    "Nix.C03.contains_shape_by_handle",
    "Nix.C03.dispatch_agrees_on_pool",
    "Nix.C03.pool_uuidish",
]
ASSUMPTIONS = [
    "HDF5 groups with creation-order tracking enumerate links in creation order, also after deletions and reopen "
    "(modelled by list order; exercised by the correspondence, including names that sort against creation order)",
    "uuid4 ids are drawn from an abstract fresh supply (model ids id:0, id:1, ...): the reachable-state theorems "
    "quantify over histories in which no call names its new entity with an id still to be drawn (Op.Fresh / "
    "FreshHist in Lemmas/StoreWF.lean); names equal to ids already in the file are allowed",
    "the id / name dispatch of the structural model (Store.pyIsUuid) covers plain / hyphenated / braced / urn:uuid: "
    "spellings; the complete uuid.UUID(text) acceptance is Py.uuidAccepts (Unicode 15.0 decimal digits / white space "
    "as in CPython 3.12), pinned by the correspondence; both agree on the generators' name pool",
]
TRUSTED_EXTRA = ["harness/lib/storeimpl.py + storegen.py + props/c03_gen.py (path addressing by iteration, HDF5-level dump with h5py)",
                 "harness/extract/c03_contshape.py (symbolic execution of the lookup functions; table expression -> atom)"]
READY = True
MANIFEST = {
    "level_text": "Kernel-checked theorems over a Lean model of the HDF5 object graph under a NIX file and of nixio's "
                  "container API (container.py, h5group.py, entity/block/section/source/tag/feature create paths, "
                  "create_data_frame included: Store/Frames.lean). An invariant WF (unique keys, link targets exist, "
                  "link names unique per group, ids handed out by the supply and pairwise distinct, container typing: "
                  "entries of owning containers are named by the entity's name, entries of link lists by its id) is "
                  "proved for the empty file and preserved by every API operation (one lemma per function, unbounded "
                  "induction over histories: reachable_wf over ReachableFreshX). On every reachable graph: positional "
                  "indexing (incl. negative), lookup by name, lookup by id, membership by name / id / entity all denote "
                  "the same entry of the creation-ordered link list (views_agree_reachable); names and ids are unique; "
                  "duplicates are refused by every create function, each looking into its own container only; ids never "
                  "change under any operation (id_stable, id_stable_x); an accepted create call of any kind (blocks, "
                  "sections at any depth, groups, arrays, frames, tags, multi tags, sources at any depth, properties) appends the "
                  "entity last under its name with a fresh id, addressable by position / name / id / entity, delete-by-"
                  "name restores the list (AcceptedAs: legal_name_accepted_block/_in/_frame/_section/_property), and leaves the "
                  "other containers of the same parent untouched (other_kinds_untouched_*: names are unique per kind); "
                  "deleting from a plain container removes exactly the addressed entry and keeps the order of the "
                  "rest; link-list append puts the entry last (re-append moves it to the end), unlink keeps the rest. "
                  "The model is hand-written and tied to the code by differential execution of random create / link / "
                  "delete histories (every access path queried after every step, HDF5-level graph dumps compared, names "
                  "colliding with the same kind and with other kinds drawn on purpose); uuid.UUID(text) acceptance has a "
                  "complete model (Py/UuidText.lean) pinned against nixio.util.is_uuid over generated spellings, and the "
                  "dispatch function of the structural model agrees with it on the histories' name pool "
                  "(dispatch_agrees_on_pool). The shape of the ten create functions (container tested before "
                  "DuplicateName, container created into, class created) is regenerated from block.py / section.py / "
                  "source.py / file.py (Generated/CreateShape.lean) and proved to be the model's (create_shape_*). "
                  "The decision trees of Container.__contains__ / __getitem__, LinkContainer.__contains__ / __getitem__ "
                  "and H5Group.get_by_id_or_name / get_by_name / get_by_id / __contains__ (tests and outcomes in the order of the code, each atom with the meaning "
                  "of its own Python expression: Store/ContShape.lean) are regenerated from container.py / h5group.py "
                  "(Generated/ContShape.lean) and proved to compute contHas / contGet / getByIdOrName / getByName / getById "
                  "for all graphs, containers and keys (contains_shape_*, getitem_shape_*, h5_*_shape). Entity objects as keys: an "
                  "entity object is the node its HDF5 object is, whatever path it was opened through (owning container, "
                  "link list, positions / extents / metadata / link / feature data, a kept handle); membership by entity "
                  "is True exactly when the node is an entry (membership_by_entity / _link / _by_handle), deletion by "
                  "entity removes exactly that entry and every key form deletes what the entity key deletes "
                  "(delete_by_entity, delete_key_forms_agree); deletion from sections / sources containers (subtree deletion) "
                  "succeeds for every addressing key, removes the entry and keeps the order of what remains "
                  "(delete_from_owning_container). A legal name that is free in the function's own container "
                  "is accepted: the success of the call is proved, not assumed (legal_name_accepted_in_full / "
                  "_multi_tag_full / _frame_full / _section_full / _property_full).",
    "technique": "Lean 4 proof (invariant over unbounded histories, per-function lemmas, decide over the regenerated "
                 "create-shape table, decision trees of the lookups regenerated from the source and proved equal to the "
                 "model) with differential correspondence",
    "level_note": "Trusted: Lean kernel; standard axioms; the correspondence harness; the create-shape translator; h5py/HDF5 link semantics "
                  "(creation-order iteration, hard links) are modelled, not verified; uuid4 freshness is an explicit "
                  "hypothesis (OpX.Fresh); the vocabulary of the decision trees (which Python expression is which atom: "
                  "table in extract/c03_contshape.py, meanings in Store/ContShape.lean; the positional branch of "
                  "Container.__getitem__ is pinned as a whole). Partial: File.create_section tests `name in self.sections` "
                  "(ids first), so legal_name_accepted_section_full excludes, for the top level, a name that is the id "
                  "of a top-level section; create_multi_tag with raw positions / extents "
                  "(auto-created arrays, createMultiTagAuto) is in the model and the correspondence, not in the proved "
                  "histories; for the subtree deletion of sections / sources delete_from_owning_container gives the "
                  "remaining list in terms of the deleted subtree (entry gone, order kept), but that no sibling lies in "
                  "that subtree is not proved (needs a single-owner invariant outside the shared WF). Open finding: an entity *named* with the id of a sibling is shadowed by that "
                  "sibling in by-name lookup (ids are tried first) — the one hypothesis left in views_agree_reachable.",
}

NAMES = storegen.NAMES_PLAIN + storegen.NAMES_UUIDISH


def extract(repo):
    """shape of the create functions (which container is tested for DuplicateName, which one is created into) and the
    decision trees of the container lookups"""
    from ..extract import c03_createshape, c03_contshape
    out = dict(c03_createshape.extract(repo))
    # decision trees of Container / LinkContainer __contains__ / __getitem__ and H5Group.get_by_id_or_name
    out.update(c03_contshape.extract(repo))
    return out


# ---------------------------------------------------------------------------------------
def _run_fixed(ctx, ops, tag):
    """a fixed op list (corpus) through the implementation; returns the outputs"""
    path = ctx.tmpfile("c03-corpus-%s.nix" % tag)
    impl = c03_gen.ImplX(path, literal_uuid_names=(storegen.LIT_UUID,))
    try:
        return [impl.run(op) if op[0] != "noop" else {"ok": None} for op in ops]
    finally:
        impl.close()
        try:
            os.remove(path)
        except OSError:
            pass


def _uuid_pin(ctx, n):
    """`Py.uuidAccepts` (complete model of uuid.UUID(text) acceptance) against nixio.util.is_uuid over generated
    spellings; `Store.pyIsUuid` (the dispatch function of the structural model) against it on the names the
    histories use and on the canonical spellings"""
    from nixio.util import util as nixutil
    rng = random.Random("%s/uuid/%d" % (PROP, ctx.seed))
    fam = c03_gen.uuid_family(rng, n)
    domain = list(NAMES) + storegen.NAMES_BAD + [str(uuid.UUID(int=rng.getrandbits(128))) for _ in range(40)]
    domain += [x.upper() for x in domain[-10:]] + ["{%s}" % x for x in domain[-10:]] + \
              ["urn:uuid:%s" % x for x in domain[-10:]] + [x.replace("-", "") for x in domain[-10:]]
    outs = core.run_driver(PROP, [["is_uuid", x] for x in fam + domain])
    dis, accepted, simple_dev = [], 0, 0
    for k, (x, o) in enumerate(zip(fam + domain, outs)):
        py = bool(nixutil.is_uuid(x))
        accepted += py
        m, simple = (o.get("ok") or [None, None])
        if m != py:
            dis.append(Disagreement({"is_uuid": x}, {"ok": m}, {"ok": py}))
        if simple != py:
            if k >= len(fam):
                dis.append(Disagreement({"is_uuid(dispatch model, histories' domain)": x}, {"ok": simple}, {"ok": py}))
            else:
                simple_dev += 1
    return dis, {"spellings": len(fam), "domain": len(domain), "accepted_by_cpython": accepted,
                 "dispatch_model_differs_outside_domain": simple_dev}


def _feature_key(op):
    """the key of the op is a Feature OBJECT (`{"o": [..., "features", i]}`)"""
    k = op[3] if len(op) > 3 and isinstance(op[3], dict) else None
    p = k.get("o") if k else None
    return isinstance(p, list) and len(p) >= 2 and p[-2] == "features"


def _compare(ops, outs, model):
    """storegen.compare; a Feature object as key of a container of other entities is refused by both sides, but a
    feature whose data array has been deleted raises RuntimeError from `str(feature)` inside `util.is_uuid` where the
    model says TypeError: only refused / accepted is compared there (the property does not name the error class)"""
    for k, op, m, i in storegen.compare(ops, outs, model):
        if _feature_key(op) and "err" in m and "err" in i:
            continue
        yield k, op, m, i


def correspondence(ctx):
    n_hist = ctx.budget(24, 240)
    steps = ctx.budget(45, 70)
    disagreements = []
    total = 0
    dist = {}
    errs = {}
    seen = set()
    samples = []
    # corpus first: minimised past disagreements / repaired defects
    for ci, case in enumerate(core.load_corpus(PROP)):
        ops = case["ops"]
        outs = _run_fixed(ctx, ops, str(ci))
        model = core.run_driver(PROP, [["reset"]] + ops)[1:]
        for k, op, m, i in _compare(ops, outs, model):
            disagreements.append(Disagreement({"corpus": case.get("name", ci), "index": k, "op": op, "prefix": ops[:k + 1]},
                                              m, i))
        for k, want in (case.get("expect") or {}).items():
            if outs[int(k)] != want:
                disagreements.append(Disagreement({"corpus": case.get("name", ci), "index": int(k), "op": ops[int(k)],
                                                   "prefix": ops[:int(k) + 1]}, want, outs[int(k)]))
        total += len(ops)
    for h in range(n_hist):
        rng = random.Random("%s/%d/%d" % (PROP, ctx.seed, h))
        profile = ["create_delete", "mixed", "links"][h % 3]
        ops, outs = c03_gen.run_history(ctx, rng, steps, profile, "c03-%d" % h, reopen_prob=0.04,
                                        share=[0.45, 0.25, 0.3][h % 3])
        model = core.run_driver(PROP, [["reset"]] + ops)[1:]
        for k, op, m, i in _compare(ops, outs, model):
            disagreements.append(Disagreement({"history": h, "index": k, "op": op,
                                               "prefix": ops[:k + 1] if len(ops) < 400 else None}, m, i))
        total += len(ops)
        for op, o in zip(ops, outs):
            dist[op[0]] = dist.get(op[0], 0) + 1
            if op[0] in ("create", "del", "append", "list", "get", "has"):
                key = "%s:%s" % (op[0], op[2])
                dist[key] = dist.get(key, 0) + 1
            if "err" in o:
                errs[o["err"]] = errs.get(o["err"], 0) + 1
                if o["err"] == "DuplicateName":
                    key = "DuplicateName:%s" % (op[2] if op[0] == "create" else op[0])
                    errs[key] = errs.get(key, 0) + 1
            if op[0] not in ("noop", "dump") and ("err" in o or o.get("ok") not in (None, [], 0, False)):
                seen.add(core.canon(op))
        if h < 2:
            samples.append({"history": h, "first_ops": ops[:6], "first_outputs": outs[:6]})
    udis, udist = _uuid_pin(ctx, ctx.budget(4000, 60000))
    disagreements += udis
    total += udist["spellings"] + udist["domain"]
    return {"evaluations": total, "distinct_nontrivial": len(seen),
            "rule": "adaptive random histories (profiles create_delete / mixed / links) over blocks, sections and sources "
                    "at any depth, groups, arrays, frames, tags, multi-tags (positions as array or as raw data: "
                    "auto-created arrays), properties, features and link lists, names from plain / non-ASCII / 300-char "
                    "/ '..' / UUID-looking pools and, on purpose, names already used by the same kind and by other kinds "
                    "of the same block; every access path of the touched container queried after each step; reopen "
                    "inserted at random; entity objects obtained through link lists / positions / extents / metadata / "
                    "link / feature data used as keys of membership, lookup, append, unlink and delete in the owning "
                    "container, in a container of the same kind that does not hold the entity and in link lists; "
                    "final HDF5-level dump compared. Then uuid.UUID(text) acceptance over generated "
                    "spellings. non-trivial = distinct op (canonical JSON) whose result is an error or a non-empty value",
            "samples": samples, "distribution": {"ops": dist, "impl_errors": errs, "uuid": udist},
            "disagreements": disagreements, "exhaustive": False}


# ---------------------------------------------------------------------------------------
# oracle: the property stated on the implementation alone


class Track:
    """expected content of one container: creation-ordered (name, id) of what was created and not deleted"""

    def __init__(self, label, getter, creator, parent=None):
        self.label, self.getter, self.creator, self.parent = label, getter, creator, parent
        self.items = []


def _check_container(tr, fails, history, cached=False):
    try:
        if cached:
            # the same container object for the whole scenario: caches inside the handle must not go stale
            if getattr(tr, "_cached", None) is None:
                tr._cached = tr.getter()
            cont = tr._cached
        else:
            cont = tr.getter()
        exp = tr.items
        got = [(e.name, e.id) for e in cont]
        if got != exp:
            fails.append(Failure("iteration order differs from creation order", history(), got, exp, tr.label))
            return
        n = len(exp)
        if len(cont) != n:
            fails.append(Failure("len() differs from the number of entities", history(), len(cont), n, tr.label))
        for i in range(-n, n):
            e = cont[i]
            if (e.name, e.id) != exp[i]:
                fails.append(Failure("positional index %d yields the wrong entity" % i, history(), [e.name, e.id],
                                     list(exp[i]), tr.label))
        for i in (n, n + 3, -n - 1):
            try:
                e = cont[i]
                fails.append(Failure("out-of-range index %d not refused" % i, history(), [e.name, e.id], "IndexError",
                                     tr.label))
            except IndexError:
                pass
        try:
            pairs = [(k, (e.name, e.id)) for k, e in cont.items()]
            if pairs != [(i, (nm, i)) for nm, i in exp]:
                fails.append(Failure("items() differs from the (id, entity) pairs in creation order", history(), pairs,
                                     [[i, [nm, i]] for nm, i in exp], tr.label))
        except Exception as ex:
            fails.append(Failure("items() raises", history(), type(ex).__name__, "pairs", tr.label))
        ids = {i for _, i in exp}
        for nm, i in exp:
            clash = nm in ids and storegen.real_uuid(nm)
            for key, what in ((nm, "name"), (i, "id")):
                if what == "name" and clash:
                    continue
                try:
                    e = cont[key]
                    if e.id != i:
                        fails.append(Failure("lookup by %s yields another entity" % what, history() + [["key", key]],
                                             [e.name, e.id], [nm, i], tr.label))
                except Exception as ex:
                    fails.append(Failure("lookup by %s fails" % what, history() + [["key", key]],
                                         type(ex).__name__, [nm, i], tr.label))
                try:
                    if key not in cont:
                        fails.append(Failure("membership test by %s is False for a contained entity" % what,
                                             history() + [["key", key]], False, True, tr.label))
                except Exception as ex:
                    fails.append(Failure("membership test by %s raises" % what, history() + [["key", key]],
                                         type(ex).__name__, True, tr.label))
            try:
                if cont[i] not in cont:
                    fails.append(Failure("membership test by entity is False", history(), False, True, tr.label))
            except Exception as ex:
                fails.append(Failure("membership test by entity raises", history(), type(ex).__name__, True, tr.label))
        for absent in ("no-such-name", "0e" * 16):
            if absent not in [nm for nm, _ in exp]:
                try:
                    if absent in cont:
                        fails.append(Failure("membership True for an absent name", history() + [["key", absent]], True,
                                             False, tr.label))
                except Exception as ex:
                    fails.append(Failure("membership test raises for an absent name", history() + [["key", absent]],
                                         type(ex).__name__, False, tr.label))
                try:
                    cont[absent]
                    fails.append(Failure("lookup of an absent name succeeds", history() + [["key", absent]], "entity",
                                         "KeyError", tr.label))
                except KeyError:
                    pass
                except Exception as ex:
                    fails.append(Failure("lookup of an absent name raises %s" % type(ex).__name__,
                                         history() + [["key", absent]], type(ex).__name__, "KeyError", tr.label))
    except Exception as ex:
        fails.append(Failure("container access raised %s: %s" % (type(ex).__name__, ex), history(), type(ex).__name__,
                             "no exception", tr.label))


FRAME_COLS = (("a", int), ("b", float))


def _new_frame(blk, n, variant):
    """create_data_frame in its three ordinary call forms"""
    if variant == 0:
        return blk.create_data_frame(n, "t", col_dict=OrderedDict(FRAME_COLS))
    if variant == 1:
        return blk.create_data_frame(n, "t", col_names=["a", "b"], col_dtypes=[int, float], data=[(1, 2.0), (3, 4.0)])
    return blk.create_data_frame(n, "t", col_dict=OrderedDict(FRAME_COLS), data=[(5, 6.0)])


class Scene:
    """one file with every kind of owning container, and the independent bookkeeping of what each must hold"""

    def __init__(self, ctx, rng, tag):
        self.rng = rng
        self.path = ctx.tmpfile("c03-oracle-%s.nix" % tag)
        self.f = nixio.File.open(self.path, nixio.FileMode.Overwrite)
        self.fails, self.log, self.all_ids = [], [], {}
        f = self.f
        b = f.create_block("blk", "t")
        s = f.create_section("sec", "t")
        s2 = s.create_section("sub", "t")
        src = b.create_source("src", "t")
        src2 = src.create_source("deep", "t")
        da0 = b.create_data_array("pos", "t", data=[1.0])
        blk = lambda: self.f.blocks["blk"]          # noqa: E731
        sec = lambda: self.f.sections["sec"]        # noqa: E731
        T = Track
        # (label, parent, getter, creator): tracks with the same parent are the entity kinds of ONE parent
        self.tracks = [
            T("file.blocks", lambda: self.f.blocks, lambda n: self.f.create_block(n, "t"), "file"),
            T("file.sections", lambda: self.f.sections, lambda n: self.f.create_section(n, "t"), "file"),
            T("section.sections", lambda: sec().sections, lambda n: sec().create_section(n, "t"), "sec"),
            T("section.sections(depth2)", lambda: sec().sections["sub"].sections,
              lambda n: sec().sections["sub"].create_section(n, "t"), "sub"),
            T("section.props", lambda: sec().props, lambda n: sec().create_property(n, 1), "sec"),
            T("section.props(depth2)", lambda: sec().sections["sub"].props,
              lambda n: sec().sections["sub"].create_property(n, "v"), "sub"),
            T("block.groups", lambda: blk().groups, lambda n: blk().create_group(n, "t"), "blk"),
            T("block.data_arrays", lambda: blk().data_arrays,
              lambda n: blk().create_data_array(n, "t", data=[1.0]), "blk"),
            T("block.data_frames", lambda: blk().data_frames,
              lambda n: _new_frame(blk(), n, self.rng.randrange(3)), "blk"),
            T("block.tags", lambda: blk().tags, lambda n: blk().create_tag(n, "t", [0.0]), "blk"),
            T("block.multi_tags", lambda: blk().multi_tags, self._new_multi_tag, "blk"),
            T("block.sources", lambda: blk().sources, lambda n: blk().create_source(n, "t"), "blk"),
            T("source.sources", lambda: blk().sources["src"].sources,
              lambda n: blk().sources["src"].create_source(n, "t"), "src"),
            T("source.sources(depth2)", lambda: blk().sources["src"].sources["deep"].sources,
              lambda n: blk().sources["src"].sources["deep"].create_source(n, "t"), "deep"),
        ]
        self.by = {t.label: t for t in self.tracks}
        for lab, e in (("file.blocks", b), ("file.sections", s), ("section.sections", s2), ("block.sources", src),
                       ("source.sources", src2), ("block.data_arrays", da0)):
            self.by[lab].items.append((e.name, e.id))
            self.all_ids[e.id] = e.name
        self.protected = {"blk", "sec", "sub", "src", "deep", "pos"}

    def _new_multi_tag(self, n):
        """positions given as an array of the block, or as raw data: then create_multi_tag creates ordinary
        arrays '<name>-positions' (and '<name>-extents') in the block first"""
        blk = self.f.blocks["blk"]
        arrays = self.by["block.data_arrays"]
        taken = {x for x, _ in arrays.items}
        mode = self.rng.randrange(3)
        auto = [n + "-positions"] + ([n + "-extents"] if mode == 2 else [])
        if mode == 0 or any(a in taken for a in auto):
            return blk.create_multi_tag(n, "t", positions=blk.data_arrays["pos"])
        before = len(blk.data_arrays)
        try:
            if mode == 1:
                mt = blk.create_multi_tag(n, "t", positions=[1.0, 2.0])
            else:
                mt = blk.create_multi_tag(n, "t", positions=[1.0, 2.0], extents=[0.5, 0.5])
        except Exception:
            if len(blk.data_arrays) != before:
                self.fails.append(Failure("refused create_multi_tag left auto-created arrays behind", self.history(),
                                          len(blk.data_arrays), before, "block.data_arrays"))
            raise
        for a in auto:                       # they are ordinary members of block.data_arrays, created in this order
            e = next((x for x in blk.data_arrays if x.name == a), None)
            if e is None:
                self.fails.append(Failure("auto-created array %r is not in block.data_arrays" % a, self.history(),
                                          None, a, "block.data_arrays"))
            else:
                arrays.items.append((a, e.id))
                if e.id in self.all_ids:
                    self.fails.append(Failure("id already used in this file", self.history(), e.id, "fresh id",
                                              "block.data_arrays"))
                self.all_ids[e.id] = a
        return mt

    def history(self):
        return list(self.log)

    def kin(self, tr):
        return [t for t in self.tracks if t.parent == tr.parent and t is not tr]

    def pick_name(self, tr):
        """names that collide with the SAME kind (must be refused) and with OTHER kinds of the same parent (must be
        accepted) are drawn on purpose; the rest comes from the pool"""
        r = self.rng.random()
        own = [n for n, _ in tr.items]
        others = sorted({n for t in self.kin(tr) for n, _ in t.items if n not in self.protected} - set(own))
        if own and r < 0.2:
            return self.rng.choice(own)
        if others and r < 0.5:
            return self.rng.choice(others)
        return self.rng.choice(NAMES)

    def create(self, tr, nm):
        fails, history = self.fails, self.history
        self.log.append(["create", tr.label, nm])
        names = [n for n, _ in tr.items]
        if nm in names:
            before = [(e.name, e.id) for e in tr.getter()]
            try:
                tr.creator(nm)
                fails.append(Failure("second entity under an existing name accepted", history(), "created",
                                     "DuplicateName", tr.label))
            except DuplicateName:
                pass
            except Exception as ex:
                fails.append(Failure("duplicate name refused with %s" % type(ex).__name__, history(),
                                     type(ex).__name__, "DuplicateName", tr.label))
            after = [(e.name, e.id) for e in tr.getter()]
            if before != after:
                fails.append(Failure("refused duplicate create changed the container (the first entity must keep "
                                     "its id)", history(), after, before, tr.label))
        else:
            try:
                e = tr.creator(nm)
                if e.name != nm:
                    fails.append(Failure("created entity has another name", history(), e.name, nm, tr.label))
                try:
                    okid = str(uuid.UUID(e.id)) == e.id
                except ValueError:
                    okid = False
                if not okid:
                    fails.append(Failure("id is not a well-formed UUID", history(), e.id, "uuid", tr.label))
                if e.id in self.all_ids:
                    fails.append(Failure("id already used in this file", history(), e.id, "fresh id", tr.label))
                self.all_ids[e.id] = nm
                tr.items.append((nm, e.id))
            except Exception as ex:
                taken = sorted(t.label for t in self.kin(tr) if nm in [n for n, _ in t.items])
                fails.append(Failure("legal name, free in this container%s, refused with %s: %s" % (
                    " (taken only by another kind: %s)" % ", ".join(taken) if taken else "", type(ex).__name__, ex),
                    history(), type(ex).__name__, "created", tr.label))
        # the other kinds of the same parent are not affected by a create (accepted or refused) in this kind
        for t in self.kin(tr):             # (auto-created position / extent arrays were booked by the creator)
            got = [(e.name, e.id) for e in t.getter()]
            if got != t.items:
                fails.append(Failure("create in %s changed %s of the same parent" % (tr.label, t.label), history(),
                                     got, list(t.items), t.label))

    def delete(self, tr):
        cand = [(n, i) for n, i in tr.items if n not in self.protected]
        if not cand:
            return
        nm, i = self.rng.choice(cand)
        how = self.rng.choice(["name", "id", "pos", "neg", "obj"])
        pos = tr.items.index((nm, i))
        self.log.append(["delete", tr.label, nm, how])
        try:
            cont = tr.getter()
            if how == "name":
                del cont[nm]
            elif how == "id":
                del cont[i]
            elif how == "pos":
                del cont[pos]
            elif how == "neg":
                del cont[pos - len(tr.items)]
            else:
                del cont[cont[pos]]
            tr.items.remove((nm, i))
        except Exception as ex:
            self.fails.append(Failure("delete by %s refused with %s" % (how, type(ex).__name__), self.history(),
                                      type(ex).__name__, "deleted", tr.label))
        for t in self.kin(tr):
            got = [(e.name, e.id) for e in t.getter()]
            if got != t.items:
                self.fails.append(Failure("delete in %s changed %s of the same parent (same name, other kind?)" % (
                    tr.label, t.label), self.history(), got, list(t.items), t.label))

    def reopen(self):
        self.log.append(["reopen"])
        self.f.close()
        self.f = nixio.File.open(self.path, self.rng.choice([nixio.FileMode.ReadWrite, nixio.FileMode.ReadOnly]))
        for t2 in self.tracks:
            _check_container(t2, self.fails, self.history)
        self.f.close()
        self.f = nixio.File.open(self.path, nixio.FileMode.ReadWrite)
        for t2 in self.tracks:
            t2._cached = None

    def check(self, tr):
        _check_container(tr, self.fails, self.history)
        _check_container(tr, self.fails, self.history, cached=True)

    def close(self):
        try:
            self.f.close()
        except Exception:
            pass
        try:
            os.remove(self.path)
        except OSError:
            pass


def _scenario(ctx, rng, steps, tag):
    """create/delete in every container kind with an independent bookkeeping of the expected order"""
    sc = Scene(ctx, rng, tag)
    try:
        for _ in range(steps):
            tr = rng.choice(sc.tracks)
            r = rng.random()
            if r < 0.6 or not tr.items:
                sc.create(tr, sc.pick_name(tr))
            elif r < 0.9:
                sc.delete(tr)
            else:
                sc.reopen()
            sc.check(tr)
            if len(sc.fails) > 5:
                break
        for t2 in sc.tracks:
            sc.check(t2)
    except Exception as ex:     # the scene itself must never raise: report it as a failure of the container access
        sc.fails.append(Failure("scenario raised %s: %s" % (type(ex).__name__, ex), sc.history(), type(ex).__name__,
                                "no exception", "scenario"))
    finally:
        sc.close()
    return sc.fails, len(sc.log)


def _kinds_scenario(ctx, rng, tag):
    """names are unique per PARENT AND KIND: a few names go, in a random order of the kinds, into every kind of
    container of each parent (each must be accepted, the kinds do not see each other), then a second time (each must
    be refused with DuplicateName and the first entity keeps its id), then some are deleted in one kind (the others
    stay) and created again (accepted, appended last)"""
    sc = Scene(ctx, rng, "k" + tag)
    try:
        names = rng.sample(NAMES, 3)
        for rnd in range(2):
            for nm in names:
                order = list(sc.tracks)
                rng.shuffle(order)
                for tr in order:
                    sc.create(tr, nm)
                    if len(sc.fails) > 5:
                        return sc.fails, len(sc.log)
            if rnd == 0 and rng.random() < 0.5:
                sc.reopen()
        for tr in sc.tracks:
            sc.check(tr)
        for tr in rng.sample(sc.tracks, 5):
            sc.delete(tr)
            sc.check(tr)
        for nm in names:
            for tr in rng.sample(sc.tracks, 5):
                sc.create(tr, nm)
        sc.reopen()
        for tr in sc.tracks:
            sc.check(tr)
    except Exception as ex:
        sc.fails.append(Failure("scenario raised %s: %s" % (type(ex).__name__, ex), sc.history(), type(ex).__name__,
                                "no exception", "scenario"))
    finally:
        sc.close()
    return sc.fails, len(sc.log)


def _link_scenario(ctx, rng, steps, tag):
    """link lists: order of appends, re-append moves to the end, unlink keeps the rest; the targets of the different
    lists of one owner share their names across kinds (array 'x', frame 'x', tag 'x' ...)"""
    path = ctx.tmpfile("c03-oracle-l%s.nix" % tag)
    f = nixio.File.open(path, nixio.FileMode.Overwrite)
    fails, log = [], []
    try:
        b = f.create_block("blk", "t")
        b.create_group("g", "t")
        b.create_tag("tg", "t", [0.0])
        pos = b.create_data_array("mpos", "t", data=[1.0])
        b.create_multi_tag("mt", "t", positions=pos)
        names = rng.sample(NAMES, 5)
        makers = {"data_arrays": lambda n: b.create_data_array(n, "t", data=[1.0]),
                  "data_frames": lambda n: _new_frame(b, n, rng.randrange(3)),
                  "tags": lambda n: b.create_tag(n, "t", [0.0]),
                  "multi_tags": lambda n: b.create_multi_tag(n, "t", positions=pos),
                  "sources": lambda n: b.create_source(n, "t")}
        pool = {}
        for kind, mk in makers.items():
            pool[kind] = []
            for nm in names:
                log.append(["create", "block." + kind, nm])
                e = mk(nm)
                pool[kind].append((e.name, e.id))
        blk = lambda: f.blocks["blk"]       # noqa: E731
        conts = {"group.data_arrays": ("data_arrays", lambda: blk().groups["g"].data_arrays),
                 "group.data_frames": ("data_frames", lambda: blk().groups["g"].data_frames),
                 "group.tags": ("tags", lambda: blk().groups["g"].tags),
                 "group.multi_tags": ("multi_tags", lambda: blk().groups["g"].multi_tags),
                 "group.sources": ("sources", lambda: blk().groups["g"].sources),
                 "tag.references": ("data_arrays", lambda: blk().tags["tg"].references),
                 "multi_tag.references": ("data_arrays", lambda: blk().multi_tags["mt"].references),
                 "data_array.sources": ("sources", lambda: blk().data_arrays["mpos"].sources),
                 "tag.sources": ("sources", lambda: blk().tags["tg"].sources)}
        exp = {k: [] for k in conts}
        for _ in range(steps):
            label = rng.choice(sorted(exp))
            kind, getc = conts[label]
            cont = getc()
            nm, i = rng.choice(pool[kind])
            if rng.random() < 0.65:
                log.append(["append", label, nm])
                target = next(x for x in getattr(blk(), kind) if x.id == i)
                try:
                    if rng.random() < 0.2:
                        # extend = append one after the other
                        nm2, i2 = rng.choice(pool[kind])
                        log[-1] = ["extend", label, [nm, nm2]]
                        cont.extend([target, next(x for x in getattr(blk(), kind) if x.id == i2)])
                        exp[label] = [x for x in exp[label] if x != (nm, i)] + [(nm, i)]
                        exp[label] = [x for x in exp[label] if x != (nm2, i2)] + [(nm2, i2)]
                    else:
                        cont.append(target)
                        exp[label] = [x for x in exp[label] if x != (nm, i)] + [(nm, i)]
                except Exception as ex:
                    fails.append(Failure("append of an entity of the same block refused with %s" % type(ex).__name__,
                                         list(log), type(ex).__name__, "appended", label))
            elif exp[label]:
                nm, i = rng.choice(exp[label])
                how = rng.choice(["name", "id", "pos", "neg", "obj"])
                log.append(["unlink", label, nm, how])
                pos_ = exp[label].index((nm, i))
                try:
                    if how == "name":
                        del cont[nm]
                    elif how == "id":
                        del cont[i]
                    elif how == "pos":
                        del cont[pos_]
                    elif how == "neg":
                        del cont[pos_ - len(exp[label])]
                    else:
                        del cont[cont[pos_]]
                    exp[label].remove((nm, i))
                except Exception as ex:
                    fails.append(Failure("unlink by %s refused with %s" % (how, type(ex).__name__), list(log),
                                         type(ex).__name__, "unlinked", label))
            for lab in ([label] if rng.random() < 0.7 else sorted(exp)):
                tr = Track(lab, conts[lab][1], None)
                tr.items = exp[lab]
                _check_container(tr, fails, lambda: list(log))
            got = [(x.name, x.id) for x in getattr(blk(), kind)]
            if [x for x in got if x in pool[kind]] != pool[kind]:
                fails.append(Failure("linking / unlinking changed the block's own %s" % kind, list(log), got, pool[kind],
                                     label))
            if len(fails) > 5:
                break
    except Exception as ex:
        fails.append(Failure("scenario raised %s: %s" % (type(ex).__name__, ex), list(log), type(ex).__name__,
                             "no exception", "scenario"))
    finally:
        try:
            f.close()
        except Exception:
            pass
        try:
            os.remove(path)
        except OSError:
            pass
    return fails, len(log)


def _name_is_sibling_id(ctx):
    """the open finding: an entity named with a sibling's id"""
    path = ctx.tmpfile("c03-known.nix")
    f = nixio.File.open(path, nixio.FileMode.Overwrite)
    try:
        b = f.create_block("blk", "t")
        a = b.create_data_array("a", "t", data=[1.0])
        c = b.create_data_array(a.id, "t", data=[1.0])
        got = b.data_arrays[a.id]
        if got.id != c.id:
            return Failure("lookup by name yields another entity", [["create", "block.data_arrays", "<id of sibling>"]],
                           got.name, "<the entity named like the id>", "name-equals-sibling-id")
    finally:
        f.close()
        os.remove(path)
    return None


def oracle(ctx, broken, hints):
    n = ctx.budget(10, 80) * (4 if broken else 1)
    n_prov = ctx.budget(4, 16) * (4 if broken else 1)        # scenes of c03_prov (about 3 x the cost of the others)
    steps = ctx.budget(50, 90)
    failures = []
    evals = 0
    for k in range(n):
        rng = random.Random("C03-oracle/%d/%d" % (ctx.seed, k))
        fs, e = _scenario(ctx, rng, steps, str(k))
        failures += fs
        evals += e
        fs, e = _link_scenario(ctx, rng, steps // 2, str(k))
        failures += fs
        evals += e
        if k % 2 == 0:
            fs, e = _kinds_scenario(ctx, rng, str(k))
            failures += fs
            evals += e
        if k % 3 == 0 and k // 3 < n_prov:
            # handles of every provenance (create, owning container, link lists, role links, searches, kept, reopened)
            fs, e = c03_prov.scenario(ctx, rng, steps // 2 + 5, str(k))
            failures += fs
            evals += e
        if len(failures) > 10:
            break
    kf = _name_is_sibling_id(ctx)
    if kf is not None:
        failures.append(kf)
    # de-duplicate by message + site, keep the shortest history
    best = {}
    for f in failures:
        key = (f.what, f.site)
        if key not in best or len(core.canon(f.input)) < len(core.canon(best[key].input)):
            best[key] = f
    return {"evaluations": evals, "failures": list(best.values()), "scenarios": n}


def matches_known(entry, failure):
    return entry.get("class") == "name-equals-sibling-id" and failure.site == "name-equals-sibling-id"


def reproduces(ctx, entry):
    if entry.get("class") == "name-equals-sibling-id":
        return _name_is_sibling_id(ctx) is not None
    return True


def replay_failure(ctx, fj):
    # histories are seeded; re-run the oracle and return the first failure with the same description
    res = oracle(ctx, True, [])
    for f in res["failures"]:
        if f.what == fj.get("what"):
            return f
    return None
