"""C03 — names unique per parent, ids unique, all lookups agree (structural model)."""
import os
import random
import uuid

import nixio
from nixio.exceptions import DuplicateName

from ..lib import core, storegen
from ..lib.core import Failure, Disagreement

PROP = "C03"
LEAN_MODULE = "NixModel.Props.C03"
THEOREMS = [
    "Nix.C03.index_nonneg",
    "Nix.C03.index_negative",
    "Nix.C03.index_out_of_range",
    "Nix.C03.lookup_by_name",
    "Nix.C03.lookup_by_id",
    "Nix.C03.membership_iff_lookup",
    "Nix.C03.duplicate_refused_block",
    "Nix.C03.duplicate_refused_section_root",
    "Nix.C03.duplicate_refused_section",
    "Nix.C03.duplicate_refused_in",
    "Nix.C03.duplicate_refused_property",
    "Nix.C03.reachable_wf",
    "Nix.C03.step_wf",
    "Nix.C03.views_agree_reachable",
    "Nix.C03.names_unique_reachable",
    "Nix.C03.ids_unique_reachable",
    "Nix.C03.id_fresh",
    "Nix.C03.id_stable_partial",
    "Nix.C03.order_after_delete",
    "Nix.C03.link_append_last",
    "Nix.C03.link_unlink_keeps_rest",
    "Nix.C03.legal_name_accepted_block",
    "Nix.C03.legal_name_accepted_partial",
    "Nix.C03.demo_reachable",
]
ASSUMPTIONS = [
    "HDF5 groups with creation-order tracking enumerate links in creation order, also after deletions and reopen "
    "(modelled by list order; exercised by the correspondence, including names that sort against creation order)",
    "uuid4 ids are drawn from an abstract fresh supply (model ids id:0, id:1, ...): the reachable-state theorems "
    "quantify over histories in which no call names its new entity with an id still to be drawn (Op.Fresh / "
    "FreshHist in Lemmas/StoreWF.lean); names equal to ids already in the file are allowed",
    "uuid.UUID(str) acceptance is modelled for plain / hyphenated / braced / urn:uuid: forms (the generators' domain)",
]
TRUSTED_EXTRA = ["harness/lib/storeimpl.py + storegen.py (path addressing by iteration, HDF5-level dump with h5py)"]
READY = True
MANIFEST = {
    "level_text": "Kernel-checked theorems over a Lean model of the HDF5 object graph under a NIX file and of nixio's "
                  "container API (container.py, h5group.py, entity/block/section/source/tag/feature create paths). "
                  "An invariant WF (unique keys, link targets exist, link names unique per group, ids handed out by the "
                  "supply and pairwise distinct, container typing: entries of owning containers are named by the "
                  "entity's name, entries of link lists by its id) is proved for the empty file and preserved by every "
                  "API operation (one lemma per function, unbounded induction over histories: reachable_wf). On every "
                  "reachable graph: positional indexing (incl. negative), lookup by name, lookup by id, membership by "
                  "name / id / entity all denote the same entry of the creation-ordered link list "
                  "(views_agree_reachable); names and ids are unique; duplicates are refused by every create function; "
                  "a legal block name is accepted, appended last, gets a fresh id, and delete-by-name restores the list; "
                  "deleting from a plain container removes exactly the addressed entry and keeps the order of the rest; "
                  "link-list append puts the entry last (re-append moves it to the end), unlink keeps the rest. The "
                  "model is hand-written and tied to the code by differential execution of random create/link/delete "
                  "histories (every access path queried after every step, HDF5-level graph dumps compared).",
    "level_note": "Trusted: Lean kernel; standard axioms; the correspondence harness; h5py/HDF5 link semantics "
                  "(creation-order iteration, hard links) are modelled, not verified; uuid4 freshness is an explicit "
                  "hypothesis (Op.Fresh). Partial: legal_name_accepted is packaged as one statement for create_block "
                  "only (for the other create functions: invariant preservation + the view theorems on the resulting "
                  "state; full statement kept as def LegalNameAcceptedEverywhere); id stability is proved for "
                  "create_block / create_section / del / append / attribute setters / reopen (def IdStable is the full "
                  "statement); order_after_delete covers plain containers and link lists, not the subtree deletion of "
                  "sections / sources. Open finding: an entity *named* with the id of a sibling is shadowed by that "
                  "sibling in by-name lookup (ids are tried first) — the one hypothesis left in views_agree_reachable.",
}

NAMES = storegen.NAMES_PLAIN + storegen.NAMES_UUIDISH


# ---------------------------------------------------------------------------------------
def correspondence(ctx):
    n_hist = ctx.budget(30, 240)
    steps = ctx.budget(45, 70)
    disagreements = []
    total = 0
    dist = {}
    errs = {}
    seen = set()
    samples = []
    for h in range(n_hist):
        rng = random.Random("%s/%d/%d" % (PROP, ctx.seed, h))
        profile = ["create_delete", "mixed", "links"][h % 3]
        ops, outs = storegen.run_history(ctx, rng, steps, profile, "c03-%d" % h, reopen_prob=0.04)
        model = core.run_driver(PROP, [["reset"]] + ops)[1:]
        for k, op, m, i in storegen.compare(ops, outs, model):
            disagreements.append(Disagreement({"history": h, "index": k, "op": op,
                                               "prefix": ops[:k + 1] if len(ops) < 400 else None}, m, i))
        total += len(ops)
        for op, o in zip(ops, outs):
            dist[op[0]] = dist.get(op[0], 0) + 1
            if "err" in o:
                errs[o["err"]] = errs.get(o["err"], 0) + 1
            if op[0] not in ("noop", "dump") and ("err" in o or o.get("ok") not in (None, [], 0, False)):
                seen.add(core.canon(op))
        if h < 2:
            samples.append({"history": h, "first_ops": ops[:6], "first_outputs": outs[:6]})
    return {"evaluations": total, "distinct_nontrivial": len(seen),
            "rule": "adaptive random histories (profiles create_delete / mixed / links) over blocks, sections and sources "
                    "at any depth, groups, arrays, tags, multi-tags, properties, features and link lists, names from "
                    "plain / non-ASCII / 300-char / '..' / UUID-looking pools; every access path of the touched container "
                    "queried after each step; reopen inserted at random; final HDF5-level dump compared. non-trivial = "
                    "distinct op (canonical JSON) whose result is an error or a non-empty value",
            "samples": samples, "distribution": {"ops": dist, "impl_errors": errs},
            "disagreements": disagreements, "exhaustive": False}


# ---------------------------------------------------------------------------------------
# oracle: the property stated on the implementation alone


class Track:
    """expected content of one container: creation-ordered (name, id) of what was created and not deleted"""

    def __init__(self, label, getter, creator):
        self.label, self.getter, self.creator = label, getter, creator
        self.items = []


def _check_container(tr, fails, history, cached=False):
    try:
        if cached:
            # the same container object for the whole scenario: caches inside the handle must not go stale
            if getattr(tr, "_cached", None) is None:
                tr._cached = tr.getter()
            cont = tr._cached
        else:
            cont = tr.getter()
        exp = tr.items
        got = [(e.name, e.id) for e in cont]
        if got != exp:
            fails.append(Failure("iteration order differs from creation order", history(), got, exp, tr.label))
            return
        n = len(exp)
        if len(cont) != n:
            fails.append(Failure("len() differs from the number of entities", history(), len(cont), n, tr.label))
        for i in range(-n, n):
            e = cont[i]
            if (e.name, e.id) != exp[i]:
                fails.append(Failure("positional index %d yields the wrong entity" % i, history(), [e.name, e.id],
                                     list(exp[i]), tr.label))
        for i in (n, n + 3, -n - 1):
            try:
                e = cont[i]
                fails.append(Failure("out-of-range index %d not refused" % i, history(), [e.name, e.id], "IndexError",
                                     tr.label))
            except IndexError:
                pass
        ids = {i for _, i in exp}
        for nm, i in exp:
            clash = nm in ids and storegen.real_uuid(nm)
            for key, what in ((nm, "name"), (i, "id")):
                if what == "name" and clash:
                    continue
                try:
                    e = cont[key]
                    if e.id != i:
                        fails.append(Failure("lookup by %s yields another entity" % what, history() + [["key", key]],
                                             [e.name, e.id], [nm, i], tr.label))
                except Exception as ex:
                    fails.append(Failure("lookup by %s fails" % what, history() + [["key", key]],
                                         type(ex).__name__, [nm, i], tr.label))
                try:
                    if key not in cont:
                        fails.append(Failure("membership test by %s is False for a contained entity" % what,
                                             history() + [["key", key]], False, True, tr.label))
                except Exception as ex:
                    fails.append(Failure("membership test by %s raises" % what, history() + [["key", key]],
                                         type(ex).__name__, True, tr.label))
            try:
                if cont[i] not in cont:
                    fails.append(Failure("membership test by entity is False", history(), False, True, tr.label))
            except Exception as ex:
                fails.append(Failure("membership test by entity raises", history(), type(ex).__name__, True, tr.label))
        for absent in ("no-such-name", "0e" * 16):
            if absent not in [nm for nm, _ in exp]:
                try:
                    if absent in cont:
                        fails.append(Failure("membership True for an absent name", history() + [["key", absent]], True,
                                             False, tr.label))
                except Exception as ex:
                    fails.append(Failure("membership test raises for an absent name", history() + [["key", absent]],
                                         type(ex).__name__, False, tr.label))
                try:
                    cont[absent]
                    fails.append(Failure("lookup of an absent name succeeds", history() + [["key", absent]], "entity",
                                         "KeyError", tr.label))
                except KeyError:
                    pass
                except Exception as ex:
                    fails.append(Failure("lookup of an absent name raises %s" % type(ex).__name__,
                                         history() + [["key", absent]], type(ex).__name__, "KeyError", tr.label))
    except Exception as ex:
        fails.append(Failure("container access raised %s: %s" % (type(ex).__name__, ex), history(), type(ex).__name__,
                             "no exception", tr.label))


def _scenario(ctx, rng, steps, tag):
    """create/delete in every container kind with an independent bookkeeping of the expected order"""
    path = ctx.tmpfile("c03-oracle-%s.nix" % tag)
    f = nixio.File.open(path, nixio.FileMode.Overwrite)
    fails = []
    log = []
    all_ids = {}

    def history():
        return list(log)

    try:
        b = f.create_block("blk", "t")
        s = f.create_section("sec", "t")
        s2 = s.create_section("sub", "t")
        src = b.create_source("src", "t")
        src2 = src.create_source("deep", "t")
        da0 = b.create_data_array("pos", "t", data=[1.0])
        tracks = [
            Track("file.blocks", lambda: f.blocks, lambda n: f.create_block(n, "t")),
            Track("file.sections", lambda: f.sections, lambda n: f.create_section(n, "t")),
            Track("section.sections", lambda: f.sections["sec"].sections, lambda n: f.sections["sec"].create_section(n, "t")),
            Track("section.sections(depth2)", lambda: f.sections["sec"].sections["sub"].sections,
                  lambda n: f.sections["sec"].sections["sub"].create_section(n, "t")),
            Track("section.props", lambda: f.sections["sec"].props, lambda n: f.sections["sec"].create_property(n, 1)),
            Track("block.groups", lambda: f.blocks["blk"].groups, lambda n: f.blocks["blk"].create_group(n, "t")),
            Track("block.data_arrays", lambda: f.blocks["blk"].data_arrays,
                  lambda n: f.blocks["blk"].create_data_array(n, "t", data=[1.0])),
            Track("block.tags", lambda: f.blocks["blk"].tags, lambda n: f.blocks["blk"].create_tag(n, "t", [0.0])),
            Track("block.multi_tags", lambda: f.blocks["blk"].multi_tags,
                  lambda n: f.blocks["blk"].create_multi_tag(n, "t", positions=f.blocks["blk"].data_arrays["pos"])),
            Track("block.sources", lambda: f.blocks["blk"].sources, lambda n: f.blocks["blk"].create_source(n, "t")),
            Track("source.sources", lambda: f.blocks["blk"].sources["src"].sources,
                  lambda n: f.blocks["blk"].sources["src"].create_source(n, "t")),
            Track("source.sources(depth2)", lambda: f.blocks["blk"].sources["src"].sources["deep"].sources,
                  lambda n: f.blocks["blk"].sources["src"].sources["deep"].create_source(n, "t")),
        ]
        tracks[0].items.append((b.name, b.id))
        tracks[1].items.append((s.name, s.id))
        tracks[2].items.append((s2.name, s2.id))
        tracks[9].items.append((src.name, src.id))
        tracks[10].items.append((src2.name, src2.id))
        tracks[6].items.append((da0.name, da0.id))
        protected = {"blk", "sec", "sub", "src", "deep", "pos"}
        for _ in range(steps):
            tr = rng.choice(tracks)
            r = rng.random()
            names = [n for n, _ in tr.items]
            if r < 0.6 or not tr.items:
                nm = rng.choice(NAMES)
                log.append(["create", tr.label, nm])
                if nm in names:
                    before = [(e.name, e.id) for e in tr.getter()]
                    try:
                        tr.creator(nm)
                        fails.append(Failure("second entity under an existing name accepted", history(), "created",
                                             "DuplicateName", tr.label))
                    except DuplicateName:
                        pass
                    except Exception as ex:
                        fails.append(Failure("duplicate name refused with %s" % type(ex).__name__, history(),
                                             type(ex).__name__, "DuplicateName", tr.label))
                    after = [(e.name, e.id) for e in tr.getter()]
                    if before != after:
                        fails.append(Failure("refused duplicate create changed the container", history(), after, before,
                                             tr.label))
                else:
                    try:
                        e = tr.creator(nm)
                        if e.name != nm:
                            fails.append(Failure("created entity has another name", history(), e.name, nm, tr.label))
                        try:
                            u = uuid.UUID(e.id)
                            okid = str(u) == e.id
                        except ValueError:
                            okid = False
                        if not okid:
                            fails.append(Failure("id is not a well-formed UUID", history(), e.id, "uuid", tr.label))
                        if e.id in all_ids:
                            fails.append(Failure("id already used in this file", history(), e.id, "fresh id", tr.label))
                        all_ids[e.id] = nm
                        tr.items.append((nm, e.id))
                    except Exception as ex:
                        fails.append(Failure("legal name refused with %s: %s" % (type(ex).__name__, ex), history(),
                                             type(ex).__name__, "created", tr.label))
            elif r < 0.9:
                cand = [(n, i) for n, i in tr.items if n not in protected]
                if not cand:
                    continue
                nm, i = rng.choice(cand)
                how = rng.choice(["name", "id", "pos", "neg", "obj"])
                pos = tr.items.index((nm, i))
                log.append(["delete", tr.label, nm, how])
                try:
                    cont = tr.getter()
                    if how == "name":
                        del cont[nm]
                    elif how == "id":
                        del cont[i]
                    elif how == "pos":
                        del cont[pos]
                    elif how == "neg":
                        del cont[pos - len(tr.items)]
                    else:
                        del cont[cont[pos]]
                    tr.items.remove((nm, i))
                except Exception as ex:
                    fails.append(Failure("delete by %s refused with %s" % (how, type(ex).__name__), history(),
                                         type(ex).__name__, "deleted", tr.label))
            else:
                log.append(["reopen"])
                f.close()
                f = nixio.File.open(path, rng.choice([nixio.FileMode.ReadWrite, nixio.FileMode.ReadOnly]))
                for t2 in tracks:
                    _check_container(t2, fails, history)
                f.close()
                f = nixio.File.open(path, nixio.FileMode.ReadWrite)
                for t2 in tracks:
                    t2._cached = None
            _check_container(tr, fails, history)
            _check_container(tr, fails, history, cached=True)
            if len(fails) > 5:
                break
        for t2 in tracks:
            _check_container(t2, fails, history)
            _check_container(t2, fails, history, cached=True)
    finally:
        try:
            f.close()
        except Exception:
            pass
        try:
            os.remove(path)
        except OSError:
            pass
    return fails, len(log)


def _link_scenario(ctx, rng, steps, tag):
    """link lists: order of appends, re-append moves to the end, unlink keeps the rest"""
    path = ctx.tmpfile("c03-oracle-l%s.nix" % tag)
    f = nixio.File.open(path, nixio.FileMode.Overwrite)
    fails, log = [], []
    try:
        b = f.create_block("blk", "t")
        g = b.create_group("g", "t")
        t = b.create_tag("tg", "t", [0.0])
        arrays = []
        for nm in rng.sample(NAMES, 6):
            arrays.append(b.create_data_array(nm, "t", data=[1.0]))
        exp = {"group.data_arrays": [], "tag.references": []}
        conts = {"group.data_arrays": lambda: f.blocks["blk"].groups["g"].data_arrays,
                 "tag.references": lambda: f.blocks["blk"].tags["tg"].references}
        for _ in range(steps):
            label = rng.choice(list(exp))
            a = rng.choice(arrays)
            cont = conts[label]()
            if rng.random() < 0.65:
                log.append(["append", label, a.name])
                cont.append(a)
                exp[label] = [x for x in exp[label] if x != (a.name, a.id)] + [(a.name, a.id)]
            elif exp[label]:
                nm, i = rng.choice(exp[label])
                how = rng.choice(["name", "id", "pos", "obj"])
                log.append(["unlink", label, nm, how])
                pos = exp[label].index((nm, i))
                try:
                    if how == "name":
                        del cont[nm]
                    elif how == "id":
                        del cont[i]
                    elif how == "pos":
                        del cont[pos]
                    else:
                        del cont[cont[pos]]
                    exp[label].remove((nm, i))
                except Exception as ex:
                    fails.append(Failure("unlink by %s refused with %s" % (how, type(ex).__name__), list(log),
                                         type(ex).__name__, "unlinked", label))
            tr = Track(label, conts[label], None)
            tr.items = exp[label]
            _check_container(tr, fails, lambda: list(log))
            if (a.name, a.id) not in [(x.name, x.id) for x in f.blocks["blk"].data_arrays]:
                fails.append(Failure("unlinking deleted the array itself", list(log), "gone", "still in block", label))
            if len(fails) > 5:
                break
    finally:
        try:
            f.close()
        except Exception:
            pass
        try:
            os.remove(path)
        except OSError:
            pass
    return fails, len(log)


def _name_is_sibling_id(ctx):
    """the open finding: an entity named with a sibling's id"""
    path = ctx.tmpfile("c03-known.nix")
    f = nixio.File.open(path, nixio.FileMode.Overwrite)
    try:
        b = f.create_block("blk", "t")
        a = b.create_data_array("a", "t", data=[1.0])
        c = b.create_data_array(a.id, "t", data=[1.0])
        got = b.data_arrays[a.id]
        if got.id != c.id:
            return Failure("lookup by name yields another entity", [["create", "block.data_arrays", "<id of sibling>"]],
                           got.name, "<the entity named like the id>", "name-equals-sibling-id")
    finally:
        f.close()
        os.remove(path)
    return None


def oracle(ctx, broken, hints):
    n = ctx.budget(14, 100) * (4 if broken else 1)
    steps = ctx.budget(50, 90)
    failures = []
    evals = 0
    for k in range(n):
        rng = random.Random("C03-oracle/%d/%d" % (ctx.seed, k))
        fs, e = _scenario(ctx, rng, steps, str(k))
        failures += fs
        evals += e
        fs, e = _link_scenario(ctx, rng, steps // 2, str(k))
        failures += fs
        evals += e
        if len(failures) > 10:
            break
    kf = _name_is_sibling_id(ctx)
    if kf is not None:
        failures.append(kf)
    # de-duplicate by message + site, keep the shortest history
    best = {}
    for f in failures:
        key = (f.what, f.site)
        if key not in best or len(core.canon(f.input)) < len(core.canon(best[key].input)):
            best[key] = f
    return {"evaluations": evals, "failures": list(best.values()), "scenarios": n}


def matches_known(entry, failure):
    return entry.get("class") == "name-equals-sibling-id" and failure.site == "name-equals-sibling-id"


def reproduces(ctx, entry):
    if entry.get("class") == "name-equals-sibling-id":
        return _name_is_sibling_id(ctx) is not None
    return True


def replay_failure(ctx, fj):
    # histories are seeded; re-run the oracle and return the first failure with the same description
    res = oracle(ctx, True, [])
    for f in res["failures"]:
        if f.what == fj.get("what"):
            return f
    return None
