"""C14 — the unit side of the property oracle, written from the SI definitions (not from nixio.util.units, not from
the Lean model, not from the extracted tables).

An *atomic* unit string is  [prefix] base [^ [+-] integer]  over the SI prefixes and the base / derived units the
property's "atomic SI dimension units" ranges over.  Two atomic units are convertible iff they measure the same
quantity: same base unit, same power (only the magnitude prefix may differ).  All predicates are three-valued:
True / False / None, None = "the property text does not decide" (a power spelled in two ways, text around a product
of units, ...): the oracle then accepts either verdict of the implementation.
"""
import re

SI_PREFIXES = ["Y", "Z", "E", "P", "T", "G", "M", "k", "h", "da", "d", "c", "m", "u", "n", "p", "f", "a", "z", "y"]
SI_UNITS = ["m", "g", "s", "A", "K", "mol", "cd", "Hz", "N", "Pa", "J", "W", "C", "V", "F", "S", "Wb", "T", "H",
            "lm", "lx", "Bq", "Gy", "Sv", "kat", "l", "L", "Ohm", "%", "dB", "rad"]
OPT_PREFIXES = [""] + SI_PREFIXES
_POWER = re.compile(r"^\^([+-]?)([1-9][0-9]*)$")

# strings that look like units but are none of the table (hour, minute, day, wrong case, bare prefix, missing '^')
NON_SI = ["h", "min", "d", "sec", "Volt", "volt", "KHz", "khz", "mhz", "hz", "k", "da", "m2", "mm2", "eV", "bar",
          "mmHg", "degC", "ha", "t", "ol", "b", "v", "Mol", "moL", "mo", "Sw", "sv", "wb", "ohm", "OHM", "dBm",
          "radian", "ka", "at", "Kat", "x", "cdd", "mm^", "m^", "m^0", "m^02", "m^-", "m^2.5", "^2", "s^-0",
          "sillyvolts", "abc", "furlong", "xyz", "mV^", "ms^--1", "Pas", "Hzs", "mmm", "mmmol", "kk", "kkg", "dda",
          "dam^", "5m", "m5", "1", "-", "_", "mV_s", "ms-1"]


def parses(u):
    """all readings (prefix, base, power text) of u as an atomic unit"""
    out = []
    if not isinstance(u, str) or not u:
        return out
    for p in OPT_PREFIXES:
        if not u.startswith(p):
            continue
        rest = u[len(p):]
        for b in SI_UNITS:
            if rest.startswith(b):
                w = rest[len(b):]
                if w == "" or _POWER.match(w):
                    out.append((p, b, w))
    return out


def power_value(w):
    if w == "":
        return 1
    m = _POWER.match(w)
    return int(m.group(2)) * (-1 if m.group(1) == "-" else 1)


def is_atomic(u):
    return bool(parses(u))


def _proper_compound(s):
    parts = re.split(r"[*/]", s)
    return len(parts) >= 2 and all(is_atomic(x) for x in parts)


def is_compound(u):
    """True: a product / quotient of atomic units; None: such a product occurs inside other text; else False"""
    if not u or ("*" not in u and "/" not in u):
        return False
    if _proper_compound(u):
        return True
    n = len(u)
    for i in range(n):
        for j in range(i + 3, n + 1):
            if _proper_compound(u[i:j]):
                return None
    return False


def is_si(u):
    if not u:
        return False
    if is_atomic(u):
        return True
    return is_compound(u)


def convertible(a, b):
    """can a quantity in unit a be expressed in unit b.  Products of units are 'not supported' by the catalogue text:
    only identical spellings count as convertible, everything else about them is undecided or unconvertible."""
    pa, pb = parses(a), parses(b)
    if pa and pb:
        same_q = [(x, y) for x in pa for y in pb if x[1] == y[1] and power_value(x[2]) == power_value(y[2])]
        if not same_q:
            return False
        if all(x[1] == y[1] and power_value(x[2]) == power_value(y[2]) for x in pa for y in pb):
            if all(x[2] == y[2] for x, y in same_q):
                return True
        return None          # same quantity, power spelled differently ('^+2' / '^2', '' / '^1'), or ambiguous reading
    if not a or not b:
        return False
    sa, sb = is_si(a), is_si(b)
    if sa is False or sb is False:
        return False
    if a == b and sa and sb:
        return True
    if pa or pb:
        # an atomic unit against a product of units
        return False if (sa and sb) else None
    return None if (sa is None or sb is None) else False


# ---------------------------------------------------------------------------------------
# generation

POWERS_PLAIN = ["", "", "", "", "^2", "^-1", "^3", "^-2", "^10"]
POWERS_ODD = ["^+2", "^1", "^+1", "^-1", "^2"]       # spellings the property does not decide; correspondence only


def related_bases(b):
    """other base units whose symbol starts with this one's or vice versa, or that differ by case only"""
    return [c for c in SI_UNITS if c != b and (c.startswith(b) or b.startswith(c) or c.lower() == b.lower())]


HOMOGRAPH_BASES = [b for b in SI_UNITS if related_bases(b)]


def prefix_homographs(p, b):
    """(p', b') with b' != b whose spelling starts with p+b or is a start of it: 'mm'/'mmol', 'T'/'Tm', 'cd'/'cdB'..."""
    s = p + b
    out = []
    for q in OPT_PREFIXES:
        for c in SI_UNITS:
            if c == b:
                continue
            t = q + c
            if t != s and (t.startswith(s) or s.startswith(t)):
                out.append((q, c))
    return out


def atom(rng, odd=False, homograph=0.4):
    """a random atomic unit as (prefix, base, power text)"""
    b = rng.choice(HOMOGRAPH_BASES) if rng.random() < homograph else rng.choice(SI_UNITS)
    p = rng.choice(OPT_PREFIXES) if rng.random() < 0.7 else ""
    w = rng.choice(POWERS_ODD if (odd and rng.random() < 0.3) else POWERS_PLAIN)
    return (p, b, w)


def spell(t):
    return t[0] + t[1] + t[2]


def variant(rng, t):
    """same quantity, prefix drawn afresh (equal prefix included)"""
    return (rng.choice(OPT_PREFIXES) if rng.random() < 0.8 else t[0], t[1], t[2])


UNCONV_MODES = ["base", "homograph", "homograph", "prefixhomograph", "power", "nonsi", "compound"]


def unconvertible(rng, t, mode=None, atomic_only=False):
    """a unit string that is NOT convertible to atom t (another quantity); `mode` picks how close it looks"""
    mode = mode or rng.choice(UNCONV_MODES)
    p, b, w = t
    if mode == "homograph":
        rel = related_bases(b)
        if rel:
            q = p if rng.random() < 0.5 else rng.choice(OPT_PREFIXES)
            return q + rng.choice(rel) + w
        mode = "prefixhomograph"
    if mode == "prefixhomograph":
        rel = prefix_homographs(p, b)
        if rel:
            q, c = rng.choice(rel)
            return q + c + w
        mode = "base"
    if mode == "power":
        ws = [x for x in ["", "^2", "^-1", "^3", "^-2"] if power_value(x) != power_value(w)]
        return (p if rng.random() < 0.5 else rng.choice(OPT_PREFIXES)) + b + rng.choice(ws)
    if mode == "nonsi" and not atomic_only:
        return rng.choice(NON_SI)
    if mode == "compound" and not atomic_only:
        return compound(rng)
    c = rng.choice([x for x in SI_UNITS if x != b])
    return (p if rng.random() < 0.5 else rng.choice(OPT_PREFIXES)) + c + w


def compound(rng):
    n = rng.choice([2, 2, 3])
    s = spell(atom(rng))
    for _ in range(n - 1):
        s += rng.choice("*/") + spell(atom(rng))
    return s


def selftest():
    """consistency of the hand-written tables (run by the harness module at import)"""
    assert len(set(SI_PREFIXES)) == 20 and len(set(SI_UNITS)) == len(SI_UNITS)
    for u in NON_SI:
        assert is_si(u) is False, u
    for p in OPT_PREFIXES:
        for b in SI_UNITS:
            assert (p, b, "") in parses(p + b)
    assert convertible("mm", "km") is True and convertible("mol", "mm") is False
    assert convertible("mSv", "uS") is False and convertible("Wb", "kW") is False
    assert convertible("m^+2", "m^2") is None and convertible("m", "m^1") is None
    assert convertible("mV/s", "mV/s") is True and convertible("s", "") is False
