"""C02 — closing and reopening a file reproduces the complete observable state (structural model + handle machine).

correspondence
  (a) random two-file histories (storegen2: create / link / unlink / role / attribute / delete / copy over every
      entity kind of the structural model, attribute values None, "", non-ASCII) executed on real nixio, every
      entity reached through a *cached* or a freshly navigated handle chosen by a seeded coin, reopen (read-write)
      inserted at random; at the end the files are closed, reopened read-only and read-write, and after each
      reopen every container / role link of every entity and the HDF5-level dump are queried again; all outputs
      are compared with the model driver's (for which reopen is `noop`);
  (b) random op sequences of the handle machine (Pure/Handles) against real `nixio.hdf5.h5group.H5Group`
      objects on a real HDF5 file (several handles on the same children of one parent group).
oracle (implementation only)
  rich random histories over ALL entity kinds (arrays of several dtypes with dimensions, frames, tags, multi-tags,
  features, groups, nested sources, nested sections, typed properties) with every writable public property set
  to values incl. None / "" / non-ASCII, several live handles per entity; the full API walk (harness/lib/walk.py
  plus every public readable property discovered by introspection) before closing must equal the walk after
  reopening read-only and read-write; what a write stored must be what is read back (last write wins); deleted
  ids must not come back; every live handle must show what a fresh navigation shows.
"""
import contextlib
import inspect
import io
import json
import os
import random

import h5py
import numpy as np
import nixio
from nixio.hdf5.h5group import H5Group

from ..lib import core, storegen, storegen2, walk as W
from ..lib.core import Failure, Disagreement
from ..lib.storeimpl import Impl, BadOp, err_name
from ..lib.storeimpl2 import Impl2

PROP = "C02"
LEAN_MODULE = "NixModel.Props.C02"
THEOREMS = [
    "Nix.C02.reopen_identity",
    "Nix.C02.reopen_anywhere",
    "Nix.C02.reopen_identity_init",
    "Nix.C02.last_write_wins",
    "Nix.C02.none_clears",
    "Nix.C02.write_frame",
    "Nix.C02.refused_write_unchanged",
    "Nix.C02.deleted_stay_deleted",
    "Nix.C02.deleted_not_listed",
    "Nix.C02.handle_independence",
    "Nix.C02.handle_independence_partial",
    "Nix.C02.handle_independence_before_counterexample",
    "Nix.C02.bound_handle_write",
    "Nix.C02.bound_handle_write_before_counterexample",
    "Nix.C02.handle_fields_accounted",
    "Nix.C02.handle_fields_assigned_where_modelled",
    "Nix.C02.handle_fields_all_present",
    "Nix.C02.h5cache_sites",
    "Nix.C02.no_other_state",
]


def extract(repo):
    """translator tie: the per-object / per-module state the nixio sources have today (Generated/HandleState.lean)"""
    from ..extract import handlestate
    return handlestate.extract(repo)


ASSUMPTIONS = [
    "the handle-state translator sees assignments of instance fields, class / module level containers, `global`, "
    "caching decorators, __slots__, __setattr__ hooks, private stores on other objects and item assignments through a "
    "field; state hidden elsewhere (closures, default-argument containers, attributes set on h5py objects, "
    "weak-reference registries) is outside it and is left to the two-handle sweep of the oracle",
    "persistence itself is runtime truth: that libhdf5/h5py return after close + open what was written is modelled "
    "by `Op.reopen` = identity on the graph and exercised (not proved) by the correspondence and the oracle",
    "the handle machine covers the H5Group handles on the children of one live parent group (link lists and role "
    "links); handles on entities that were deleted meanwhile are outside the property ('handles to the same entity')",
    "h5py's `.name` of an open group is empty exactly when the group is no longer part of the file (HDF5 path "
    "tracking within one file handle); exercised by correspondence (b)",
    "attribute values in the structural model are strings / None (definition, type, label, unit, repository, "
    "reference); numeric and array-valued attributes and array data are covered by the implementation-side walk "
    "comparison only (and by C01 / C10 / C16 for their own semantics)",
]
TRUSTED_EXTRA = ["harness/lib/storeimpl*.py, storegen*.py (shared structural runner / generators), harness/lib/walk.py, "
                 "the handle cache and the introspective walk in harness/props/c02.py"]
READY = True
MANIFEST = {
    "level_text": "Kernel-checked theorems over (1) the structural Lean model of the HDF5 object graph and nixio's "
                  "container / entity API: close + reopen inserted at any point(s) of any history leaves the state "
                  "unchanged (nixio keeps no state outside the file), the attribute read after a write is the written "
                  "value until the next write of it (None clears), a deleted entity is linked from nowhere in any later "
                  "state until something is created or linked again; (2) a state machine of the only volatile state, "
                  "the cached h5py group of H5Group handles: for every history of link-list operations through any "
                  "number of handles every handle shows what a fresh handle shows, and a write through a handle lands on "
                  "the object the handle stands for; (3) a table, regenerated from the nixio sources on every run, of "
                  "every place an instance field is assigned, every class / module level container, global, caching "
                  "decorator, attribute hook and item assignment through a field: each field is one the models account "
                  "for (reference fixed at construction, lazily created container handle, the cached group, parent "
                  "handle, session switch, value object) and is assigned only where that role allows - no object, class "
                  "or module keeps cached content (a new per-handle cache breaks a named theorem). Models (1) and (2) are "
                  "hand-written and tied to the code by differential "
                  "execution on real HDF5 files (cached vs fresh handles chosen at random, reopen read-only and "
                  "read-write, HDF5-level dumps), and an implementation-side oracle compares the complete API walk "
                  "(every public readable property, by introspection) before closing and after reopening, sweeps every "
                  "plain attribute through changes of representation (last write wins) and makes every mutation through a "
                  "second handle while a first one is kept alive (the kept handle must answer like a fresh one: "
                  "properties, data, method results).",
    "level_note": "Partial: persistence (HDF5 storage, flush, close) is runtime truth carried by the correspondence / "
                  "oracle, not by a theorem; the structural model tracks string attributes only. Two defects were "
                  "repaired in /repo (fix: 3f50192 stale second handle on an emptied and refilled link list, D9; "
                  "fix: f74e1cb write through a handle whose link was removed or redirected created a bogus group); "
                  "the Lean model has both code versions and proves the counterexamples for the old one. Trusted: Lean "
                  "kernel, standard axioms, the harness, h5py/HDF5.",
}

# =======================================================================================
# handle cache on top of the shared runner


def _h5obj(ent):
    g = getattr(ent, "_h5group", None)
    if g is None:
        return None
    if hasattr(g, "group"):
        return g.group
    return getattr(g, "dataset", None)


def _raw_h5obj(ent):
    """the h5py object a handle has cached, read without going through the `group` getter (which may re-resolve
    a handle whose entity was deleted to a new entity of the same name)"""
    g = getattr(ent, "_h5group", None)
    if g is None:
        return None
    if "_group" in g.__dict__:
        return g.__dict__["_group"]
    return getattr(g, "dataset", None)


def same_object(kept, fresh):
    """does the kept handle stand for the same HDF5 object as the freshly navigated one (same entity, not merely an
    entity of the same name created after the kept one was deleted)?"""
    if type(kept) is not type(fresh):
        return False
    try:
        x, y = _raw_h5obj(kept), _h5obj(fresh)
        return x is not None and y is not None and bool(x) and x == y
    except Exception:
        return False


class CImpl(Impl):
    """Impl whose navigation hands out cached handles (kept as long as they stand for the same HDF5 object as a
    fresh navigation of the same path) or fresh ones, by a seeded coin"""

    def __init__(self, path, coin, literal_uuid_names=()):
        super().__init__(path, literal_uuid_names)
        self.coin = coin
        self.hcache = {}
        self.stats = {"fresh": 0, "cached": 0, "dropped": 0}

    def reopen(self, mode="a"):
        self.hcache = {}
        super().reopen(mode)

    def nav(self, path):
        fresh = super().nav(path)
        if not path or isinstance(fresh, nixio.File):
            return fresh
        key = json.dumps(path)
        slots = self.hcache.setdefault(key, [])
        alive = [h for h in slots if same_object(h, fresh)]
        self.stats["dropped"] += len(slots) - len(alive)
        slots[:] = alive
        if len(slots) < 2:
            slots.append(fresh)
        if slots and self.coin.random() < 0.65:
            self.stats["cached"] += 1
            return self.coin.choice(slots)
        self.stats["fresh"] += 1
        return fresh


class CImpl2(Impl2):
    def __init__(self, path0, path1, coin, literal_uuid_names=()):
        self.files = [CImpl(path0, coin, literal_uuid_names), CImpl(path1, coin, literal_uuid_names)]
        self.cur = 0


ROLES_OF = {"block": ["metadata"], "group": ["metadata"], "data_array": ["metadata"], "tag": ["metadata"],
            "multi_tag": ["metadata", "positions", "extents"], "source": ["metadata"], "section": ["link"],
            "feature": ["data"]}


def sweep(gen, fi):
    """query every container and role link of every entity of file `fi`, and the HDF5-level dump"""
    gen.use(fi)
    ents = gen.inv(fi)
    gen.do(["list", [], "data"])
    gen.do(["list", [], "metadata"])
    for e in ents:
        for cname in storegen.CONTAINERS.get(e.kind, []):
            gen.do(["list", e.path, cname])
            gen.do(["len", e.path, cname])
        for role in ROLES_OF.get(e.kind, []):
            gen.do(["role", e.path, role])
    gen.do(["dump"])


ATTR_VALUES = [None, "", "x", "é", "名前 ü", "a b", "mV", "y" * 120]


def attr_step(gen, rng):
    """an attribute write (None, '', non-ASCII ...) through a cached or fresh handle, then a second write or a
    clearing None now and then (last write wins), and the HDF5-level dump"""
    ents = gen.inv(gen.impl.cur)
    if not ents:
        return
    e = rng.choice(ents)
    allowed = {"data_array": ["definition", "type", "label", "unit"], "property": ["definition", "unit"],
               "section": ["definition", "type", "repository", "reference"], "feature": ["definition"]}
    attr = rng.choice(allowed.get(e.kind, ["definition", "type"]) + (["label"] if rng.random() < 0.05 else []))
    pool = [None, "", "mV", "x", "é"] if attr == "unit" else ATTR_VALUES
    gen.do(["set_attr", e.path, attr, rng.choice(pool)])
    if rng.random() < 0.4:
        gen.do(["set_attr", e.path, attr, rng.choice(pool)])
    if rng.random() < 0.35:
        gen.do(["dump"])


def copy_step(gen, rng):
    """copies (C20 owns their semantics; here they only add history variety): blocks, arrays / tags / multi-tags into
    a block, properties, sections to the root or into a section of the *other* file (a section copied into itself
    is a corner the shared copy model does not describe: the shallow HDF5 copy then contains the freshly created,
    still empty `sections` group)"""
    sf = rng.choice([0, 0, 1])
    df = sf if rng.random() < 0.6 else 1 - sf
    gen.use(df)
    src_ents, dst_ents = gen.inv(sf), gen.inv(df)
    kind = rng.choice(["block", "data_array", "tag", "multi_tag", "section", "property"])
    src = gen.pick(src_ents, kind)
    if src is None:
        return
    keep = rng.random() < 0.5
    name = rng.choice(storegen2.NEW_NAMES) if rng.random() < 0.7 else ""
    if kind == "block":
        gen.do(["copy_block", sf, src.path, name, keep])
        gen.probe([], "data", "file")
    elif kind in ("data_array", "tag", "multi_tag"):
        blk = gen.pick(dst_ents, "block")
        if blk is None:
            return
        gen.do(["copy_into", blk.path, kind, sf, src.path, name, keep])
        gen.probe(blk.path, {"data_array": "data_arrays", "tag": "tags", "multi_tag": "multi_tags"}[kind], "block")
    elif kind == "section":
        children = rng.random() < 0.6
        dsec = gen.pick(dst_ents, "section") if (df != sf and rng.random() < 0.5) else None
        if dsec is None:
            gen.do(["copy_section", None, sf, src.path, children, keep, name])
            gen.probe([], "metadata", "file")
        else:
            gen.do(["copy_section", dsec.path, sf, src.path, children, keep, name])
            gen.probe(dsec.path, "sections", "section")
    else:
        dsec = gen.pick(dst_ents, "section")
        if dsec is None:
            return
        gen.do(["copy_property", dsec.path, sf, src.path, name, keep])
        gen.probe(dsec.path, "properties", "section")
    if rng.random() < 0.6:
        gen.dump_both()


def store_history(ctx, rng, steps, tag, profile="mixed"):
    """returns ops, impl outputs, walk mismatches (before close vs after reopen), handle stats"""
    p0, p1 = ctx.tmpfile("c02-%s-0.nix" % tag), ctx.tmpfile("c02-%s-1.nix" % tag)
    coin = random.Random(rng.random())
    impl = CImpl2(p0, p1, coin, literal_uuid_names=(storegen.LIT_UUID,))
    gen = storegen2.Gen2(rng, impl, profile)
    mism = []
    try:
        for k in range(steps):
            if k > 12 and rng.random() < 0.08:
                copy_step(gen, rng)
            else:
                if rng.random() < 0.1:
                    gen.use(rng.choice([0, 0, 0, 1]))
                gen.step()
            if rng.random() < 0.45:
                attr_step(gen, rng)
            if rng.random() < 0.04:
                impl.reopen("a")
                gen.ops.append(["noop"])
                gen.outs.append({"ok": None})
        gen.dump_both()
        before = [W.walk_or_error(i.f) for i in impl.files]
        for mode in ("r", "a"):
            impl.reopen(mode)
            gen.ops.append(["noop"])
            gen.outs.append({"ok": None})
            after = [W.walk_or_error(i.f) for i in impl.files]
            for fi in (0, 1):
                if after[fi] != before[fi]:
                    mism.append({"file": fi, "mode": mode, "diff": W.diff(before[fi], after[fi], limit=3)})
            for fi in (0, 1):
                sweep(gen, fi)
        stats = {k: sum(i.stats[k] for i in impl.files) for k in ("fresh", "cached", "dropped")}
    finally:
        impl.close()
        impl.remove()
    return gen.ops, gen.outs, mism, stats


# =======================================================================================
# handle machine against real H5Group objects

LIST_NAMES = ["data_arrays", "tags", "refs"]
ROLE_NAMES = ["metadata", "positions"]
KEYS = ["x", "y", "k3", "é"]
ATTRS = ["definition", "label"]


class _Ent:
    def __init__(self, h5group):
        self._h5group = h5group


class HMImpl:
    """executes the `h_*` protocol of lean/Driver/C02.lean on nixio's H5Group"""

    def __init__(self, path, depth):
        self.h5 = h5py.File(path, "w")
        self.entsgrp = self.h5.create_group("__ents")
        if depth == 1:
            self.P = self.h5["/"]
            self.PH = H5Group(self.h5, "/")
        elif depth == 2:
            self.P = self.h5.create_group("p")
            self.PH = H5Group(self.h5["/"], "p")
        else:
            self.P = self.h5.create_group("/data/b/groups/g")
            self.PH = H5Group(self.h5["/data/b/groups"], "g")
        self.handles = []
        self.ents = []

    def close(self):
        try:
            self.h5.close()
        except Exception:
            pass

    def ent_index(self, obj):
        for j, e in enumerate(self.ents):
            if e._h5group.group == obj:
                return j
        return -1

    def run(self, op):
        try:
            return {"ok": self._run(op)}
        except BadOp as e:
            return {"bad": str(e)}
        except Exception as e:  # noqa
            return {"err": err_name(e)}

    def _h(self, i):
        if not (0 <= i < len(self.handles)):
            raise BadOp("no such handle")
        return self.handles[i]

    def _run(self, op):
        k = op[0]
        if k == "h_open":
            self.handles.append(H5Group(self.P, op[1], op[2]))
            return len(self.handles) - 1
        if k == "h_read":
            h = self._h(op[1])
            n = len(h)
            grp = h.group
            # link names straight from the group the getter hands out (H5Group.__iter__ names its items after
            # h5py's `.name`, which is another path of the object once the handle's own path is gone)
            items = [] if grp is None else [[nm, self.ent_index(grp[nm])] for nm in grp]
            if n != len(items) or n != len(list(h)):
                raise RuntimeError("len() and iteration disagree")
            for nm, _ in items:
                if nm not in h:
                    raise RuntimeError("contains() and iteration disagree")
            return items
        if k == "h_get_attr":
            return self._h(op[1]).get_attr(op[2])
        if k == "h_link":
            self._h(op[1]).create_link(self.ents[op[3]], op[2])
            return None
        if k == "h_del":
            self._h(op[1]).delete(op[2], op[3])
            return None
        if k == "h_set_attr":
            self._h(op[1]).set_attr(op[2], op[3])
            return None
        if k == "h_new":
            g = H5Group(self.entsgrp, "e%d" % len(self.ents), create=True)
            self.ents.append(_Ent(g))
            return len(self.ents) - 1
        if k == "h_plink":
            self.PH.create_link(self.ents[op[2]], op[1])
            return None
        if k == "h_punlink":
            if op[1] not in self.P:
                raise KeyError(op[1])
            del self.P[op[1]]
            return None
        if k == "h_truth":
            h = H5Group(self.P, op[1])
            grp = h.group
            return [] if grp is None else [[nm, self.ent_index(grp[nm])] for nm in grp]
        raise BadOp("unknown op")


def hm_history(ctx, rng, n_ops, depth, tag):
    path = ctx.tmpfile("c02-hm-%s.h5" % tag)
    impl = HMImpl(path, depth)
    ops, outs = [], []

    def do(op):
        ops.append(op)
        outs.append(impl.run(op))

    try:
        do(["h_new"])
        do(["h_new"])
        for _ in range(n_ops):
            r = rng.random()
            nh = len(impl.handles)
            ne = len(impl.ents)
            if nh == 0 or r < 0.14:
                role = rng.random() < 0.3
                name = rng.choice(ROLE_NAMES if role else LIST_NAMES[:2])
                do(["h_open", name, (not role) and rng.random() < 0.25])
            elif r < 0.38:
                do(["h_link", rng.randrange(nh), rng.choice(KEYS), rng.randrange(ne)])
            elif r < 0.58:
                i = rng.randrange(nh)
                is_list = impl.handles[i].name in LIST_NAMES
                do(["h_del", i, rng.choice(KEYS), is_list and rng.random() < 0.85])
            elif r < 0.72:
                do(["h_read", rng.randrange(nh)])
            elif r < 0.80:
                do(["h_set_attr", rng.randrange(nh), rng.choice(ATTRS), rng.choice([None, "", "v", "é"])])
            elif r < 0.86:
                do(["h_get_attr", rng.randrange(nh), rng.choice(ATTRS)])
            elif r < 0.89:
                do(["h_new"])
            elif r < 0.95:
                do(["h_plink", rng.choice(ROLE_NAMES), rng.randrange(ne)])
            else:
                do(["h_punlink", rng.choice(ROLE_NAMES)])
            if rng.random() < 0.3:
                for i in range(len(impl.handles)):
                    do(["h_read", i])
                for nm in LIST_NAMES[:2] + ROLE_NAMES:
                    do(["h_truth", nm])
    finally:
        impl.close()
        try:
            os.remove(path)
        except OSError:
            pass
    return ops, outs


# =======================================================================================
def correspondence(ctx):
    disagreements = []
    total = 0
    dist, errs = {}, {}
    seen = set()
    samples = []
    hstats = {"fresh": 0, "cached": 0, "dropped": 0}
    # corpus: fixed handle-machine histories (regressions of the two repaired defects)
    corpus = core.load_corpus(PROP)
    for ci, case in enumerate(corpus):
        impl = HMImpl(ctx.tmpfile("c02-corpus-%d.h5" % ci), case.get("depth", 5))
        try:
            outs = [impl.run(op) for op in case["ops"]]
        finally:
            impl.close()
        model = core.run_driver(PROP, [["h_reset", case.get("depth", 5), "current"]] + case["ops"])[1:]
        for k, (op, m, i) in enumerate(zip(case["ops"], model, outs)):
            if m != i:
                disagreements.append(Disagreement({"kind": "corpus", "name": case.get("name"), "index": k, "op": op,
                                                   "ops": case["ops"]}, m, i))
        total += len(case["ops"])
    # (a) structural histories through cached / fresh handles, reopen r / a at the end
    n_hist = ctx.budget(14, 100)
    steps = ctx.budget(80, 110)
    for h in range(n_hist):
        rng = random.Random("%s/store/%d/%d" % (PROP, ctx.seed, h))
        ops, outs, mism, st = store_history(ctx, rng, steps, "s%d" % h, ["mixed", "links"][h % 2])
        model = core.run_driver(PROP, [["reset"]] + ops)[1:]
        for k, op, m, i in storegen.compare(ops, outs, model):
            disagreements.append(Disagreement({"kind": "store", "history": h, "index": k, "op": op,
                                               "prefix": [o for o in ops[:k + 1] if o[0] not in
                                                          ("get", "has", "len", "list", "role", "dump")][-40:]}, m, i))
        for mm in mism:
            disagreements.append(Disagreement({"kind": "reopen-walk", "history": h, "file": mm["file"],
                                               "mode": mm["mode"]}, "walk before closing", mm["diff"]))
        total += len(ops)
        for k in hstats:
            hstats[k] += st[k]
        for op, o in zip(ops, outs):
            dist[op[0]] = dist.get(op[0], 0) + 1
            if "err" in o:
                errs[o["err"]] = errs.get(o["err"], 0) + 1
            if op[0] not in ("noop", "dump", "use") and ("err" in o or o.get("ok") not in (None, [], 0, False)):
                seen.add(core.canon(op))
        if h < 2:
            samples.append({"history": h, "first_ops": ops[:5], "first_outputs": outs[:5]})
    # (b) the handle machine against H5Group
    n_hm = ctx.budget(120, 1000)
    hm_ops = ctx.budget(60, 90)
    hm_total = 0
    for h in range(n_hm):
        rng = random.Random("%s/hm/%d/%d" % (PROP, ctx.seed, h))
        depth = [5, 2, 1][h % 3]
        ops, outs = hm_history(ctx, rng, hm_ops, depth, "m%d" % h)
        model = core.run_driver(PROP, [["h_reset", depth, "current"]] + ops)[1:]
        for k, (op, m, i) in enumerate(zip(ops, model, outs)):
            if m != i:
                disagreements.append(Disagreement({"kind": "handles", "history": h, "depth": depth, "index": k,
                                                   "op": op, "ops": ops[:k + 1]}, m, i))
                break
        hm_total += len(ops)
        for op, o in zip(ops, outs):
            dist[op[0]] = dist.get(op[0], 0) + 1
            if "err" in o:
                errs["h:" + o["err"]] = errs.get("h:" + o["err"], 0) + 1
            if "err" in o or o.get("ok") not in (None, []):
                seen.add(core.canon(op))
        if h < 1:
            samples.append({"handle_history": h, "first_ops": ops[:8], "first_outputs": outs[:8]})
    total += hm_total
    return {"evaluations": total, "distinct_nontrivial": len(seen),
            "rule": "(a) adaptive random two-file histories (create / link / unlink / role / attribute incl. None, '', "
                    "non-ASCII / delete / copy over blocks, groups, arrays, tags, multi-tags, features, sources, sections, "
                    "properties), every entity reached through a cached or a fresh handle by a seeded coin, reopen "
                    "inserted at random, then close + reopen read-only and read-write with every container, role link "
                    "and the HDF5-level dump queried again and the API walk compared with the one before closing; "
                    "(b) random op sequences of the handle machine on real H5Group objects (parent at depth 1, 2, 5). "
                    "non-trivial = distinct op (canonical JSON) whose result is an error or a non-empty value",
            "samples": samples,
            "distribution": {"ops": dist, "impl_errors": errs, "handles_used": hstats, "handle_machine_ops": hm_total},
            "disagreements": disagreements, "exhaustive": False}


# =======================================================================================
# oracle: the property on the implementation alone

SKIP_PROPS = {"file"}
STRUCT_PROPS = {"metadata", "data", "link", "positions", "extents", "values", "data_extent", "ticks", "labels",
                "polynom_coefficients", "expansion_origin", "position", "extent", "units", "link_type", "odml_type",
                "offset", "sampling_interval", "uncertainty", "dependency", "dependency_value", "value_origin",
                "reference", "repository", "definition", "type", "label", "unit"}
TEXTS = [None, "", "x", "é ü 名前", "mV", "a/b", " lead", "0f" * 16]
NUMERIC = {"expansion_origin", "offset", "sampling_interval", "uncertainty"}
VERBATIM = {"definition", "label", "repository", "reference", "dependency", "dependency_value", "value_origin"}


def canon_value(v, depth=0):
    if v is None or isinstance(v, (bool, int, float, str, bytes, np.generic)):
        return W.num(v)
    if isinstance(v, nixio.File):
        return "<file>"
    if hasattr(v, "_h5group") or hasattr(v, "_h5dataset"):
        ident = []
        for a in ("id", "name", "index"):
            try:
                ident.append(W.num(getattr(v, a)))
            except Exception:
                ident.append(None)
        return {"ref": [type(v).__name__] + ident}
    if hasattr(v, "_backend") or type(v).__name__ in ("DimensionContainer",):
        try:
            return [canon_value(x, depth + 1) for x in v]
        except Exception as e:
            return {"!": type(e).__name__}
    if isinstance(v, np.ndarray):
        return {"array": W.data_hash(v)}
    if isinstance(v, (list, tuple)):
        if depth > 3:
            return "<deep>"
        return [canon_value(x, depth + 1) for x in v]
    if isinstance(v, dict):
        return {str(k): canon_value(x, depth + 1) for k, x in sorted(v.items(), key=lambda kv: str(kv[0]))}
    if hasattr(v, "value") and type(v).__module__.startswith("nixio"):
        return str(v.value)
    if isinstance(v, type):
        return v.__name__
    return "<%s>" % type(v).__name__ if not isinstance(v, np.dtype) else str(v)


def readable_props(obj):
    out = []
    for name, member in inspect.getmembers(type(obj)):
        if name.startswith("_") or name in SKIP_PROPS or not isinstance(member, property):
            continue
        out.append((name, member.fset is not None))
    return out


def introspect(obj):
    rec = {"class": type(obj).__name__}
    for name, _ in readable_props(obj):
        try:
            with contextlib.redirect_stdout(io.StringIO()):
                v = getattr(obj, name)
            rec[name] = canon_value(v)
        except Exception as e:
            rec[name] = {"!": type(e).__name__}
    if isinstance(obj, (nixio.DataArray, nixio.DataFrame)):
        try:
            rec["<data>"] = W.data_hash(obj[:] if len(obj.shape) else obj[()])
        except Exception as e:
            rec["<data>"] = {"!": type(e).__name__}
    return rec


def entities(f):
    """every entity of the file, with a path, in container order"""
    def srcs(owner, path):
        for s in owner.sources:
            p = "%s/src:%s" % (path, s.name)
            yield p, s
            yield from srcs(s, p)

    def secs(owner, path):
        for s in owner.sections:
            p = "%s/s:%s" % (path, s.name)
            yield p, s
            for pr in s.props:
                yield "%s/p:%s" % (p, pr.name), pr
            yield from secs(s, p)

    for b in f.blocks:
        bp = "b:%s" % b.name
        yield bp, b
        for da in b.data_arrays:
            p = "%s/da:%s" % (bp, da.name)
            yield p, da
            for i, d in enumerate(da.dimensions, 1):
                yield "%s/dim#%d" % (p, i), d
        for df in b.data_frames:
            yield "%s/df:%s" % (bp, df.name), df
        for g in b.groups:
            yield "%s/g:%s" % (bp, g.name), g
        for kind, cont in (("t", b.tags), ("mt", b.multi_tags)):
            for t in cont:
                p = "%s/%s:%s" % (bp, kind, t.name)
                yield p, t
                for i, ft in enumerate(t.features, 1):
                    yield "%s/f#%d" % (p, i), ft
        yield from srcs(b, bp)
    yield from secs(f, "")


def full_walk(f):
    try:
        intro = [[p, introspect(e)] for p, e in entities(f)]
    except Exception as e:
        intro = [["<traversal>", {"!": type(e).__name__}]]
    return {"walk": W.walk_or_error(f), "intro": intro}


def walk_diff(a, b):
    out = []
    if a["walk"] != b["walk"]:
        out += [{"view": "walk", **d} for d in W.diff(a["walk"], b["walk"], limit=3)]
    if a["intro"] != b["intro"]:
        da, db = dict(map(tuple, [(p, json.dumps(r, sort_keys=True)) for p, r in a["intro"]])), \
                 dict(map(tuple, [(p, json.dumps(r, sort_keys=True)) for p, r in b["intro"]]))
        for p in list(da) + [q for q in db if q not in da]:
            if da.get(p) != db.get(p):
                ra = json.loads(da[p]) if p in da else None
                rb = json.loads(db[p]) if p in db else None
                fields = sorted(k for k in set(ra or {}) | set(rb or {}) if (ra or {}).get(k) != (rb or {}).get(k))
                out.append({"view": "introspection", "path": p, "fields": fields,
                            "before": {k: (ra or {}).get(k) for k in fields[:4]},
                            "after": {k: (rb or {}).get(k) for k in fields[:4]}})
                if len(out) > 4:
                    break
        if not out and [p for p, _ in a["intro"]] != [p for p, _ in b["intro"]]:
            out.append({"view": "introspection", "path": "<order>", "before": [p for p, _ in a["intro"]][:12],
                        "after": [p for p, _ in b["intro"]][:12]})
    return out


def _dimlink_target_id(dim):
    """id of the entity a linked dimension reads its ticks / labels from (raises when the link is dangling); reading
    the values first makes sure the link really yields something"""
    dl = dim.dimension_link
    dl.values                      # raises for a dangling link
    return dl._linked_group().get_attr("entity_id")


class Rich:
    """free-form random history on one file through the public API, several live handles per entity"""

    NAMES = ["a", "b", "z1", "é", "名前", "name with space", "A", "0f" * 16, "m"]
    DTYPES = [np.float64, np.int32, np.uint8, np.int64, np.float32]

    def __init__(self, ctx, rng, tag):
        self.ctx, self.rng = ctx, rng
        self.path = ctx.tmpfile("c02-rich-%s.nix" % tag)
        self.f = nixio.File.open(self.path, nixio.FileMode.Overwrite)
        self.log = []
        self.fails = []
        self.kept = {}        # path -> [live handles]
        self.deleted_ids = set()
        self.written = {}     # (id, attr) -> value (verbatim attributes)
        self.evals = 0

    # ---- helpers
    def fail(self, what, observed, required, site):
        if len(self.fails) < 6:
            self.fails.append(Failure(what, {"scenario": "rich", "log": list(self.log)}, observed, required, site))

    def all_entities(self):
        return list(entities(self.f))

    def pick(self, cls=None):
        ents = [(p, e) for p, e in self.all_entities() if cls is None or isinstance(e, cls)]
        if not ents:
            return None, None
        p, e = self.rng.choice(ents)
        # hand out a kept handle (if it still stands for the same object) or the fresh one
        slots = [h for h in self.kept.get(p, []) if same_object(h, e)]
        self.kept[p] = slots
        if len(slots) < 3:
            slots.append(e)
        if self.rng.random() < 0.6:
            return p, self.rng.choice(slots)
        return p, e

    def name(self):
        return self.rng.choice(self.NAMES)

    def attempt(self, desc, fn):
        self.log.append(desc)
        self.evals += 1
        try:
            with contextlib.redirect_stdout(io.StringIO()):
                return True, fn()
        except Exception as e:  # a refused call is fine here (C12 looks at those)
            self.log[-1] = desc + ["refused:" + type(e).__name__]
            return False, None

    # ---- steps
    def step(self):
        r = self.rng.random()
        f, rng = self.f, self.rng
        blocks = list(f.blocks)
        if not blocks or r < 0.04:
            self.attempt(["create_block"], lambda: f.create_block(self.name(), "t"))
            return
        if r < 0.34:
            self.create()
        elif r < 0.56:
            self.set_attr()
        elif r < 0.68:
            self.link()
        elif r < 0.76:
            self.role()
        elif r < 0.84:
            self.write_data()
        elif r < 0.93:
            self.delete()
        else:
            self.reopen_mid()
        self.check_handles()

    def create(self):
        rng, f = self.rng, self.f
        what = rng.choice(["da", "da", "df", "group", "tag", "mtag", "source", "section", "section", "prop", "prop",
                           "feature", "dim", "dim"])
        _, b = self.pick(nixio.Block)
        if what == "da":
            shape = tuple(rng.randrange(0, 4) for _ in range(rng.randrange(1, 4)))
            dt = rng.choice(self.DTYPES)
            data = (np.arange(int(np.prod(shape)) or 0).reshape(shape) * 3 % 251).astype(dt)
            self.attempt(["create_data_array", str(np.dtype(dt)), list(shape)],
                         lambda: b.create_data_array(self.name(), "t", data=data))
        elif what == "df":
            from collections import OrderedDict
            n = rng.randrange(0, 4)
            rows = [(i + 1, ["a", "é", ""][i % 3], 0.5 * i) for i in range(n)]
            cols = OrderedDict([("n", int), ("s", str), ("x", float)])
            self.attempt(["create_data_frame", n],
                         lambda: b.create_data_frame(self.name(), "t", col_dict=cols, data=rows or None))
        elif what == "group":
            self.attempt(["create_group"], lambda: b.create_group(self.name(), "t"))
        elif what == "tag":
            pos = [float(rng.randrange(5)) for _ in range(rng.randrange(1, 3))]
            self.attempt(["create_tag", pos], lambda: b.create_tag(self.name(), "t", pos))
        elif what == "mtag":
            das = list(b.data_arrays)
            if das:
                da = rng.choice(das)
                self.attempt(["create_multi_tag", da.name], lambda: b.create_multi_tag(self.name(), "t", da))
        elif what == "source":
            _, s = self.pick(nixio.Source)
            owner = s if (s is not None and rng.random() < 0.5) else b
            self.attempt(["create_source"], lambda: owner.create_source(self.name(), "t"))
        elif what == "section":
            _, s = self.pick(nixio.Section)
            owner = s if (s is not None and rng.random() < 0.6) else f
            self.attempt(["create_section"], lambda: owner.create_section(self.name(), "t"))
        elif what == "prop":
            _, s = self.pick(nixio.Section)
            if s is not None:
                vals = rng.choice([[1, 2], [1.5], ["a", "é", ""], [True, False], "single", 7, [-3]])
                self.attempt(["create_property", vals], lambda: s.create_property(self.name(), vals))
        elif what == "feature":
            _, t = self.pick(rng.choice([nixio.Tag, nixio.MultiTag]))
            das = list(b.data_arrays)
            if t is not None and das:
                da = rng.choice(das)
                lt = rng.choice(["tagged", "untagged", "indexed"])
                self.attempt(["create_feature", da.name, lt], lambda: t.create_feature(da, lt))
        else:
            _, da = self.pick(nixio.DataArray)
            if da is not None:
                k = rng.randrange(4)
                if k == 3:
                    # a range dimension linked to a vector of an array of ANY block (dimension links may cross blocks)
                    cands = [x for _, x in self.all_entities() if isinstance(x, nixio.DataArray) and len(x.shape) >= 1]
                    if cands:
                        tgt = rng.choice(cands)
                        idx = [-1] + [0] * (len(tgt.shape) - 1)
                        rng.shuffle(idx)

                        def linkdim():
                            rd = da.append_range_dimension()
                            rd.link_data_array(tgt, idx)
                        self.attempt(["append_range_dimension+link", tgt.name, idx], linkdim)
                elif k == 0:
                    self.attempt(["append_set_dimension"], lambda: da.append_set_dimension(["l1", "é"][:rng.randrange(3)]))
                elif k == 1:
                    self.attempt(["append_sampled_dimension"],
                                 lambda: da.append_sampled_dimension(0.5, label="t", unit="ms", offset=1.0))
                else:
                    self.attempt(["append_range_dimension"],
                                 lambda: da.append_range_dimension([1.0, 2.5, 4.0], label="x", unit="mV"))

    def values_for(self, name, obj):
        rng = self.rng
        if name in ("definition", "type", "label", "repository", "reference", "dependency", "dependency_value",
                    "value_origin"):
            return rng.choice(TEXTS)
        if name == "unit":
            return rng.choice([None, "", "mV", "s", "ms", "é", "uV"])
        if name == "units":
            return rng.choice([None, [], ["mV"], ["ms", "s"], ["mV", "mV", "s"]])
        if name in ("position", "extent"):
            return rng.choice([None, [1.0], [0.5, 2.0], [], [3.0, 1.0, 2.0]])
        if name in ("expansion_origin", "offset", "sampling_interval", "uncertainty"):
            return rng.choice([None, 0.0, 1.5, -2.25, 3])
        if name == "polynom_coefficients":
            return rng.choice([None, [], [1.0, 2.0], (0.0,), [0.5, 0.0, 1.0]])
        if name == "ticks":
            return rng.choice([[0.0, 1.0], [1.0, 2.5, 9.0], []])
        if name == "labels":
            return rng.choice([["a"], ["é", "", "c"], []])
        if name == "values":
            return rng.choice([[1, 2, 3], [4.5], ["x", "é"], [True], 9, "s", []])
        if name == "link_type":
            return rng.choice(["tagged", "untagged", "indexed", nixio.LinkType.Indexed])
        if name == "odml_type":
            return rng.choice([nixio.OdmlType.Text, nixio.OdmlType.Person, None])
        if name == "data_extent":
            try:
                return tuple(max(0, s + rng.choice([-1, 0, 1])) for s in obj.data_extent)
            except Exception:
                return (1,)
        return rng.choice(TEXTS + [1.5])

    def set_attr(self):
        p, e = self.pick()
        if e is None:
            return
        writable = [n for n, w in readable_props(e) if w and n not in ("metadata", "data", "link", "positions",
                                                                        "extents")]
        if not writable:
            return
        name = self.rng.choice(writable)
        if name in NUMERIC:
            # a short burst on one attribute: integer-valued, fractional and None values follow each other directly
            # (a store that keeps the representation of the first write would truncate the second)
            for val in self.rng.sample([3, 1.5, -2.25, 0.0, None, 7, 0.25, 1], 3):
                self.set_one(p, e, name, val)
            return
        self.set_one(p, e, name, self.values_for(name, e))

    def set_one(self, p, e, name, val):
        ok, _ = self.attempt(["set", p, name, canon_value(val)], lambda: setattr(e, name, val))
        plain = (name in VERBATIM and (val is None or isinstance(val, str))) or (
            name in NUMERIC and (val is None or (isinstance(val, (int, float)) and not isinstance(val, bool))))
        if ok and plain:
            # last write wins: an accepted plain setter reads back the value it was given (numbers compare by value:
            # 3 == 3.0), through the same handle now and through a fresh one after reopening
            got = getattr(e, name)
            if got != val:
                self.fail("the value read back is not the value written", [name, canon_value(got)],
                          [name, canon_value(val)], "write-read")
            try:
                eid = e.id
            except Exception:
                # dimension descriptors carry no id: the walk comparison around reopen covers them. A linked
                # dimension writes its label / unit THROUGH to the linked array (that is C05's alias rule), so what
                # was recorded for arrays under that attribute name is no longer the last value written
                if name in ("label", "unit"):
                    for k in [k for k in self.written if k[1] == name]:
                        del self.written[k]
                return
            self.written[(eid, name, p)] = val

    def link(self):
        rng = self.rng
        _, owner = self.pick(rng.choice([nixio.Group, nixio.Group, nixio.Tag, nixio.MultiTag, nixio.DataArray]))
        if owner is None:
            return
        conts = {nixio.Group: ["data_arrays", "data_frames", "tags", "multi_tags", "sources"],
                 nixio.Tag: ["references", "sources"], nixio.MultiTag: ["references", "sources"],
                 nixio.DataArray: ["sources"]}[type(owner)]
        cname = rng.choice(conts)
        cont = getattr(owner, cname)
        cls = {"data_arrays": nixio.DataArray, "data_frames": nixio.DataFrame, "tags": nixio.Tag,
               "multi_tags": nixio.MultiTag, "sources": nixio.Source, "references": nixio.DataArray}[cname]
        if rng.random() < 0.65 or len(cont) == 0:
            _, tgt = self.pick(cls)
            if tgt is not None:
                self.attempt(["append", cname, tgt.name], lambda: cont.append(tgt))
        else:
            i = rng.randrange(len(cont))
            self.attempt(["unlink", cname, i], lambda: cont.__delitem__(i))

    def role(self):
        rng = self.rng
        r = rng.random()
        if r < 0.55:
            _, owner = self.pick(rng.choice([nixio.Block, nixio.Group, nixio.DataArray, nixio.Tag, nixio.MultiTag,
                                             nixio.Source, nixio.DataFrame]))
            _, sec = self.pick(nixio.Section)
            if owner is None:
                return
            if rng.random() < 0.3:
                def clear():
                    del owner.metadata
                self.attempt(["del_metadata"], clear)
            elif sec is not None:
                self.attempt(["set_metadata", sec.name], lambda: setattr(owner, "metadata", sec))
        elif r < 0.8:
            _, mt = self.pick(nixio.MultiTag)
            _, da = self.pick(nixio.DataArray)
            if mt is None or da is None:
                return
            which = rng.choice(["positions", "extents"])
            val = None if (which == "extents" and rng.random() < 0.3) else da
            self.attempt(["set_" + which, None if val is None else da.name], lambda: setattr(mt, which, val))
        else:
            _, s1 = self.pick(nixio.Section)
            _, s2 = self.pick(nixio.Section)
            if s1 is None:
                return
            val = None if rng.random() < 0.3 else s2
            self.attempt(["set_link", None if val is None else s2.name], lambda: setattr(s1, "link", val))

    def write_data(self):
        rng = self.rng
        _, da = self.pick(nixio.DataArray)
        if da is None:
            return
        k = rng.randrange(3)
        if k == 0:
            def whole():
                shape = da.shape
                da[...] = (np.arange(int(np.prod(shape))).reshape(shape) * 7 % 13).astype(da.dtype)
            self.attempt(["write_all"], whole)
        elif k == 1:
            def app():
                shape = list(da.shape)
                if not shape:
                    raise ValueError("scalar")
                shape[0] = 1
                da.append(np.ones(shape, dtype=da.dtype), axis=0)
            self.attempt(["append_data"], app)
        else:
            def one():
                if len(da.shape) and all(s > 0 for s in da.shape):
                    da[tuple(0 for _ in da.shape)] = 5
            self.attempt(["write_one"], one)

    def delete(self):
        rng = self.rng
        ents = [(p, e) for p, e in self.all_entities() if not type(e).__name__.endswith("Dimension")]
        if not ents:
            return
        p, e = rng.choice(ents)
        if isinstance(e, nixio.Block) and rng.random() < 0.7:
            return
        try:
            ids = [e.id]
            if isinstance(e, nixio.Section):
                ids = [s.id for s in e.find_sections()] + [pr.id for s in e.find_sections() for pr in s.props]
            elif isinstance(e, nixio.Source):
                ids = [s.id for s in e.find_sources()] + [e.id]
            elif isinstance(e, nixio.Block):
                ids = None      # everything below goes: checked through the walk
            elif isinstance(e, (nixio.Tag, nixio.MultiTag)):
                ids = [e.id] + [ft.id for ft in e.features]
            parent_cont = self.container_of(p)
        except Exception:
            return
        if parent_cont is None:
            return
        key = rng.choice([e.id, getattr(e, "name", e.id), e]) if not isinstance(e, nixio.Feature) else e.id
        ok, _ = self.attempt(["delete", p, "by-" + ("obj" if key is e else "key")], lambda: parent_cont.__delitem__(key))
        if ok and ids:
            self.deleted_ids.update(ids)
            self.check_deleted_links("right after the deletion")

    LINK_LISTS = {"Group": ("data_arrays", "data_frames", "tags", "multi_tags", "sources"),
                  "Tag": ("references", "sources"), "MultiTag": ("references", "sources"),
                  "DataArray": ("sources",), "DataFrame": ("sources",)}
    ROLE_LINKS = {"Block": ("metadata",), "Group": ("metadata",), "DataArray": ("metadata",),
                  "DataFrame": ("metadata",), "Tag": ("metadata",), "MultiTag": ("metadata", "positions", "extents"),
                  "Source": ("metadata",), "Feature": ("data",), "Section": ("link",)}

    def check_deleted_links(self, when):
        """deleted things stay deleted: no link list and no role link anywhere in the file yields an entity that
        was deleted (by itself or as part of a deleted source / section subtree)"""
        if not self.deleted_ids:
            return
        for p, e in self.all_entities():
            cls = type(e).__name__
            for cname in self.LINK_LISTS.get(cls, ()):
                try:
                    ids = [x.id for x in getattr(e, cname)]
                except Exception:
                    continue
                self.evals += 1
                gone = [i for i in ids if i in self.deleted_ids]
                if gone:
                    self.fail("a link list still yields a deleted entity (%s)" % when, [p, cname, gone[:3]],
                              "no deleted entity in any list", "deleted")
                    return
            if cls == "DataArray":
                try:
                    dims = list(e.dimensions)
                except Exception:
                    dims = []
                for i, dim in enumerate(dims, 1):
                    try:
                        if not getattr(dim, "has_link", False):
                            continue
                        tid = _dimlink_target_id(dim)
                    except Exception:
                        continue        # a dangling dimension link raises: it does not yield the deleted entity
                    self.evals += 1
                    if tid in self.deleted_ids:
                        self.fail("a dimension link still yields a deleted entity (%s)" % when, [p, "dimension %d" % i, tid],
                                  "no deleted entity behind any link", "deleted")
                        return
            for rname in self.ROLE_LINKS.get(cls, ()):
                try:
                    t = getattr(e, rname)
                    tid = None if t is None else t.id
                except Exception:
                    continue        # a dangling role link raises: it does not yield the deleted entity
                self.evals += 1
                if tid in self.deleted_ids:
                    self.fail("a link still yields a deleted entity (%s)" % when, [p, rname, tid],
                              "no deleted entity behind any link", "deleted")
                    return

    def container_of(self, p):
        """the owning container of the entity at walk path `p` (fresh navigation)"""
        parts = p.split("/")
        cur = self.f
        cont = None
        tagmap = {"b": "blocks", "da": "data_arrays", "df": "data_frames", "g": "groups", "t": "tags",
                  "mt": "multi_tags", "src": "sources", "s": "sections", "p": "props"}
        # names may contain '/', never generated here except in TEXTS for attributes
        for part in parts:
            if not part:
                continue
            if part.startswith("f#"):
                cont = cur.features
                cur = cont[int(part[2:]) - 1]
                continue
            kind, nm = part.split(":", 1)
            cont = getattr(cur, tagmap[kind])
            found = None
            for x in cont:
                if x.name == nm:
                    found = x
                    break
            if found is None:
                return None
            cur = found
        return cont

    def reopen_mid(self):
        before = full_walk(self.f)
        self.log.append(["reopen", "a"])
        self.f.close()
        self.kept = {}
        self.f = nixio.File.open(self.path, nixio.FileMode.ReadWrite)
        after = full_walk(self.f)
        d = walk_diff(before, after)
        if d:
            self.fail("the state after close + reopen (read-write) differs from the state before closing", d,
                      "identical walk", "reopen")

    def check_handles(self):
        """every kept handle that still stands for the same object shows what the fresh handle shows"""
        if self.rng.random() > 0.5:
            return
        fresh = dict(self.all_entities())
        for p, slots in self.kept.items():
            e = fresh.get(p)
            if e is None:
                continue
            ref = None
            for h in slots:
                if not same_object(h, e):
                    continue
                if ref is None:
                    ref = introspect(e)
                got = introspect(h)
                self.evals += 1
                if got != ref:
                    fields = sorted(k for k in set(got) | set(ref) if got.get(k) != ref.get(k))
                    self.fail("a live handle shows another state than a fresh handle on the same entity",
                              {k: got.get(k) for k in fields[:4]}, {k: ref.get(k) for k in fields[:4]},
                              "handle:" + p.split("/")[-1].split(":")[0].split("#")[0])
                    return

    def finish(self):
        w1 = full_walk(self.f)
        self.f.close()
        self.kept = {}
        for mode, label in ((nixio.FileMode.ReadOnly, "read-only"), (nixio.FileMode.ReadWrite, "read-write")):
            self.log.append(["reopen", label])
            self.f = nixio.File.open(self.path, mode)
            w = full_walk(self.f)
            self.evals += len(w["intro"]) + 1
            d = walk_diff(w1, w)
            if d:
                self.fail("the state after close + reopen (%s) differs from the state before closing" % label, d,
                          "identical walk", "reopen")
            live = {}
            for p, e in entities(self.f):
                try:
                    live[e.id] = (p, e)
                except Exception:
                    pass
            back = sorted(i for i in self.deleted_ids if i in live)
            if back:
                self.fail("a deleted entity is back after reopen", back[:3], "absent", "deleted")
            self.check_deleted_links("after close + reopen (%s)" % label)
            for (eid, name, p), val in self.written.items():
                if eid in live and live[eid][0] == p:
                    got = getattr(live[eid][1], name)
                    if got != val:
                        self.fail("after reopen an attribute is not the last value written", [name, got], [name, val],
                                  "last-write")
            self.f.close()

    def cleanup(self):
        try:
            self.f.close()
        except Exception:
            pass
        try:
            os.remove(self.path)
        except OSError:
            pass


def rich_scenario(ctx, key, steps):
    rng = random.Random(key)
    sc = Rich(ctx, rng, str(abs(hash(key)) % 10 ** 8))
    try:
        sc.f.create_section("meta", "t")
        for _ in range(steps):
            sc.step()
            if len(sc.fails) > 3:
                break
        sc.finish()
    except Exception as e:  # the scenario itself must not die silently
        sc.fail("history aborted by %s: %s" % (type(e).__name__, str(e)[:200]), type(e).__name__, "no exception",
                "scenario")
    finally:
        sc.cleanup()
    for fl in sc.fails:
        fl.input["key"] = key
        fl.input["steps"] = steps
    return sc.fails, sc.evals


# ---- fixed regression scenarios (the repaired defects stay checked) -------------------------------------


def fixed_scenarios(ctx):
    fails = []
    path = ctx.tmpfile("c02-fixed.nix")

    def fresh():
        return nixio.File.open(path, nixio.FileMode.Overwrite)

    # D9: two handles on one link list; emptied and refilled through handle 1
    f = fresh()
    try:
        b = f.create_block("b", "t")
        b.create_group("g", "t")
        a = b.create_data_array("a", "t", data=[1.0])
        c1, c2 = b.groups["g"].data_arrays, b.groups["g"].data_arrays
        c1.append(a)
        n_before = len(c2)
        del c1[0]
        c1.append(a)
        got = [len(c1), len(c2), len(b.groups["g"].data_arrays)]
        if got != [1, 1, 1] or n_before != 1:
            fails.append(Failure("a second handle on a link list does not show the list (emptied and refilled through "
                                 "the first handle)", {"scenario": "D9", "log": ["c1.append(a)", "len(c2)", "del c1[0]",
                                                                               "c1.append(a)", "len(c2)"]},
                                 got, [1, 1, 1], "stale-link-list-handle"))
        try:
            del c2[0]
            if len(b.groups["g"].data_arrays) != 0:
                raise RuntimeError("still there")
        except Exception as e:
            fails.append(Failure("unlinking through the second handle fails", {"scenario": "D9-del"}, type(e).__name__,
                                 "unlinked", "stale-link-list-handle"))
    finally:
        f.close()
    # every kind of link list: filled through handle 1 (handle 2 has seen it non-empty), emptied through handle 1 (the
    # HDF5 group of the list is removed with its last entry), refilled through handle 2: every handle, a fresh handle
    # and the reopened file show the entry
    f = fresh()
    try:
        b = f.create_block("b", "t")
        a = b.create_data_array("a", "t", data=[1.0])
        b.create_group("g", "t")
        b.create_tag("tg", "t", [0.0])
        b.create_multi_tag("mt", "t", positions=b.create_data_array("p", "t", data=[1.0]))
        src = b.create_source("s", "t")
        lists = [("group.data_arrays", lambda: b.groups["g"].data_arrays, a),
                 ("group.tags", lambda: b.groups["g"].tags, b.tags["tg"]),
                 ("group.multi_tags", lambda: b.groups["g"].multi_tags, b.multi_tags["mt"]),
                 ("group.sources", lambda: b.groups["g"].sources, src),
                 ("tag.references", lambda: b.tags["tg"].references, a),
                 ("tag.sources", lambda: b.tags["tg"].sources, src),
                 ("multi_tag.references", lambda: b.multi_tags["mt"].references, a),
                 ("array.sources", lambda: b.data_arrays["a"].sources, src)]
        want = {}
        for desc, get, item in lists:
            owner1, owner2 = get(), get()
            owner1.append(item)
            seen = len(owner2)
            del owner1[0]
            owner2.append(item)
            got = [seen, len(owner1), len(owner2), len(get())]
            want[desc] = item.id
            if got != [1, 1, 1, 1]:
                fails.append(Failure("an entry appended through a second handle, after the list was emptied through the "
                                     "first, is not shown by every handle (%s)" % desc,
                                     {"scenario": "refill-through-second-handle", "list": desc,
                                      "log": ["h1.append(x)", "len(h2)", "del h1[0]", "h2.append(x)", "len(h1), len(h2), len(fresh)"]},
                                     got, [1, 1, 1, 1], "stale-link-list-handle"))
        f.close()
        f = nixio.File.open(path, nixio.FileMode.ReadOnly)
        b = f.blocks["b"]
        for desc, get, item in lists:
            ids = [x.id for x in get()]
            if ids != [want[desc]]:
                fails.append(Failure("an entry appended through a second handle is lost after close + reopen (%s)" % desc,
                                     {"scenario": "refill-through-second-handle", "list": desc}, ids, [want[desc]],
                                     "stale-link-list-handle"))
    finally:
        f.close()
    # deleting the root of a source / section subtree of which SEVERAL members are linked from the same list / from
    # several entities: deleted things stay deleted - every one of those links is gone, now and after reopening
    f = fresh()
    try:
        b = f.create_block("b", "t")
        a = b.create_data_array("a", "t", data=[1.0])
        g = b.create_group("g", "t")
        tg = b.create_tag("tg", "t", [0.0])
        s = b.create_source("s", "t")
        c1, c2 = s.create_source("c1", "t"), s.create_source("c2", "t")
        d = c2.create_source("d", "t")
        keep = b.create_source("keep", "t")
        for lst, items in ((a.sources, [s, c1, keep, d]), (tg.sources, [c1, c2]), (g.sources, [d, keep, s])):
            for it in items:
                lst.append(it)
        sec = f.create_section("sec", "t")
        sa, sb = sec.create_section("sa", "t"), sec.create_section("sb", "t")
        other = f.create_section("other", "t")
        b.metadata, g.metadata, a.metadata, tg.metadata = sa, sb, sec, other
        other.link = sa
        # a dimension of an array of ANOTHER block linked to an array / frame that is deleted afterwards
        b2 = f.create_block("b2", "t")
        x = b.create_data_array("x", "t", data=[1.0, 2.0, 3.0])
        y = b2.create_data_array("y", "t", data=[0.0, 0.0, 0.0])
        y.append_range_dimension().link_data_array(x, [-1])
        xid = x.id
        del b.data_arrays["x"]
        del b.sources["s"]
        del f.sections["sec"]

        def dimlink(ff):
            d0 = ff.blocks["b2"].data_arrays["y"].dimensions[0]
            try:
                return _dimlink_target_id(d0)
            except Exception as ex:
                return "raises " + type(ex).__name__
        for when, ff in (("in the session", f),):
            got_id = dimlink(ff)
            if got_id == xid:
                fails.append(Failure("a dimension (of an array of another block) linked to a deleted array still yields it (%s)"
                                     % when, {"scenario": "subtree-deletion-several-links", "case": "cross-block dimension link"},
                                     got_id, "a dangling or removed link", "deleted"))

        def seen(ff):
            bb = ff.blocks["b"]
            out = {"array.sources": [x.name for x in bb.data_arrays["a"].sources],
                   "tag.sources": [x.name for x in bb.tags["tg"].sources],
                   "group.sources": [x.name for x in bb.groups["g"].sources]}
            for nm, e in (("block", bb), ("group", bb.groups["g"]), ("array", bb.data_arrays["a"]),
                          ("tag", bb.tags["tg"])):
                try:
                    m = e.metadata
                    out[nm + ".metadata"] = None if m is None else m.name
                except Exception as ex:
                    out[nm + ".metadata"] = "raises " + type(ex).__name__
            try:
                lk = ff.sections["other"].link
                out["other.link"] = None if lk is None else lk.name
            except Exception as ex:
                out["other.link"] = "raises " + type(ex).__name__
            return out
        want = {"array.sources": ["keep"], "tag.sources": [], "group.sources": ["keep"], "block.metadata": None,
                "group.metadata": None, "array.metadata": None, "tag.metadata": "other", "other.link": None}
        got = seen(f)
        f.close()
        f = nixio.File.open(path, nixio.FileMode.ReadOnly)
        got2 = seen(f)
        if dimlink(f) == xid:
            fails.append(Failure("a dimension (of an array of another block) linked to a deleted array still yields it "
                                 "(after close + reopen)", {"scenario": "subtree-deletion-several-links",
                                                            "case": "cross-block dimension link"}, xid,
                                 "a dangling or removed link", "deleted"))
        for when, gt in (("in the session", got), ("after close + reopen", got2)):
            bad = {k: gt[k] for k in want if gt[k] != want[k] and not str(gt[k]).startswith("raises")}
            if bad:
                fails.append(Failure("after deleting a source subtree and a section subtree, links to deleted members "
                                     "are still there (%s)" % when,
                                     {"scenario": "subtree-deletion-several-links"}, bad, {k: want[k] for k in bad},
                                     "deleted"))
    finally:
        f.close()
    # a handle obtained through a link list entry, written to after the entry was unlinked
    f = fresh()
    try:
        b = f.create_block("b", "t")
        g = b.create_group("g", "t")
        a = b.create_data_array("a", "t", data=[1.0])
        a1 = b.create_data_array("a1", "t", data=[1.0])
        g.data_arrays.append(a)
        g.data_arrays.append(a1)
        a2 = g.data_arrays[0]
        del g.data_arrays[0]
        a2.label = "x"
        try:
            listed = [x.name for x in g.data_arrays]
        except Exception as e:
            listed = type(e).__name__
        got = [b.data_arrays["a"].label, listed]
        if got != ["x", ["a1"]]:
            fails.append(Failure("a write through a handle obtained via a link list, after the entry was unlinked, is "
                                 "lost / damages the list", {"scenario": "unlinked-entry-handle"}, got, ["x", ["a1"]],
                                 "write-through-removed-link"))
    finally:
        f.close()
    # a handle obtained through `metadata`, written to after the link was removed / redirected
    f = fresh()
    try:
        b = f.create_block("b", "t")
        s1, s2 = f.create_section("s1", "t"), f.create_section("s2", "t")
        b.metadata = s1
        s = b.metadata
        b.metadata = s2
        s.definition = "x"
        got = [f.sections["s1"].definition, f.sections["s2"].definition]
        if got != ["x", None]:
            fails.append(Failure("a write through a handle obtained via `metadata` goes to the section the link was "
                                 "redirected to", {"scenario": "redirected-role-handle"}, got, ["x", None],
                                 "write-through-removed-link"))
        s = b.metadata
        del b.metadata
        s.definition = "y"
        try:
            md = b.metadata
            md = None if md is None else md.name
        except Exception as e:
            md = type(e).__name__
        got = [f.sections["s2"].definition, md]
        if got != ["y", None]:
            fails.append(Failure("a write through a handle obtained via `metadata`, after `del x.metadata`, creates a "
                                 "bogus group / is lost", {"scenario": "removed-role-handle"}, got, ["y", None],
                                 "write-through-removed-link"))
    finally:
        f.close()
        try:
            os.remove(path)
        except OSError:
            pass
    return fails, 12

# ---- attribute sweep: last write wins for every plain attribute and every change of representation ------------


def _norm(v):
    if v is None:
        return None
    if isinstance(v, (str, bytes)):
        return v
    if isinstance(v, (list, tuple, np.ndarray)):
        return [_norm(x) for x in v]
    if isinstance(v, (bool, np.bool_)):
        return bool(v)
    if isinstance(v, (int, float, np.integer, np.floating)):
        return float(v)
    return repr(v)


SWEEP_TEXT = ["a", "\u00e9\u00fc", "", None, "long " * 40, "b"]
SWEEP_NUM = [3, 1.5, None, 0.25, 7, -2.25, 0.0, 1, 2.5]
SWEEP_VEC = [[1.0], [0.5, 2.0, 4.0], [3], [1, 2.5], [0.25, 0.5]]


def attribute_sweep(ctx):
    """one entity of every kind; every plain attribute is written a sequence of values that changes the stored
    representation (integer-valued -> fractional, short -> long -> short, ASCII -> non-ASCII -> empty -> None): each
    accepted write must read back as the value written, through the writing handle, through a fresh handle, and
    (the last one) after close + reopen"""
    fails, evals = [], 0
    path = ctx.tmpfile("c02-sweep.nix")
    f = nixio.File.open(path, nixio.FileMode.Overwrite)
    try:
        b = f.create_block("b", "t")
        da = b.create_data_array("a", "t", data=np.arange(6.0).reshape(2, 3))
        da.append_sampled_dimension(0.5)
        da.append_range_dimension([1.0, 2.0, 3.0])
        b.create_group("g", "t")
        b.create_tag("tg", "t", [1.0])
        b.create_multi_tag("mt", "t", positions=b.create_data_array("p", "t", data=[1.0, 2.0]))
        b.tags["tg"].create_feature(da, "tagged")
        src = b.create_source("s", "t")
        src.create_source("deep", "t")
        sec = f.create_section("sec", "t")
        sec.create_section("sub", "t")
        sec.create_property("pf", [1.5, 2.5])
        sec.create_property("ps", ["x"])
        getters = {
            "block": lambda f: f.blocks["b"], "array": lambda f: f.blocks["b"].data_arrays["a"],
            "group": lambda f: f.blocks["b"].groups["g"], "tag": lambda f: f.blocks["b"].tags["tg"],
            "multi_tag": lambda f: f.blocks["b"].multi_tags["mt"], "source": lambda f: f.blocks["b"].sources["s"],
            "deep source": lambda f: f.blocks["b"].sources["s"].sources["deep"],
            "section": lambda f: f.sections["sec"], "subsection": lambda f: f.sections["sec"].sections["sub"],
            "float property": lambda f: f.sections["sec"].props["pf"],
            "text property": lambda f: f.sections["sec"].props["ps"],
            "sampled dimension": lambda f: f.blocks["b"].data_arrays["a"].dimensions[0],
            "range dimension": lambda f: f.blocks["b"].data_arrays["a"].dimensions[1],
        }
        last = {}
        for kind, get in getters.items():
            obj = get(f)
            for name, writable in readable_props(obj):
                if not writable:
                    continue
                if name in VERBATIM or name == "label" and kind != "array":
                    seq = SWEEP_TEXT
                elif name == "label":
                    seq = SWEEP_TEXT
                elif name in NUMERIC:
                    seq = SWEEP_NUM
                elif name in ("position", "extent", "polynom_coefficients"):
                    seq = SWEEP_VEC
                elif name == "type":
                    seq = [v for v in SWEEP_TEXT if v]
                else:
                    continue
                for val in seq:
                    evals += 1
                    try:
                        with contextlib.redirect_stdout(io.StringIO()):
                            setattr(obj, name, val)
                    except Exception:
                        continue            # a refused value is C12's subject
                    for how, h in (("the writing handle", obj), ("a fresh handle", get(f))):
                        got = getattr(h, name)
                        if _norm(got) != _norm(val):
                            fails.append(Failure(
                                "%s.%s = %r reads back as another value through %s" % (kind, name, val, how),
                                {"scenario": "attribute-sweep", "kind": kind, "attribute": name,
                                 "values written in order": [canon_value(v) for v in seq[:seq.index(val) + 1]]},
                                canon_value(got), canon_value(val), "write-read"))
                            break
                    last[(kind, name)] = val
        f.close()
        for mode in (nixio.FileMode.ReadOnly, nixio.FileMode.ReadWrite):
            f = nixio.File.open(path, mode)
            for (kind, name), val in last.items():
                evals += 1
                got = getattr(getters[kind](f), name)
                if _norm(got) != _norm(val):
                    fails.append(Failure("%s.%s: after close + reopen the attribute is not the last value written"
                                         % (kind, name), {"scenario": "attribute-sweep", "kind": kind, "attribute": name},
                                         canon_value(got), canon_value(val), "last-write"))
            f.close()
    finally:
        try:
            f.close()
        except Exception:
            pass
        try:
            os.remove(path)
        except OSError:
            pass
    return fails, evals

# ---- two-handle sweep: no answer of a live handle may depend on what that handle happened to read earlier -----------


def probes(obj):
    """answers computed by methods (not properties) that a per-handle cache could make stale"""
    out = {}

    def tryp(name, fn):
        try:
            with contextlib.redirect_stdout(io.StringIO()):
                out[name] = canon_value(fn())
        except Exception as e:
            out[name] = {"!": type(e).__name__}
    if isinstance(obj, nixio.SampledDimension):
        tryp("index_of(1.3)", lambda: obj.index_of(1.3))
        tryp("position_at(3)", lambda: obj.position_at(3))
        tryp("axis(3)", lambda: list(obj.axis(3)))
        tryp("range_indices(0.5,2.5)", lambda: obj.range_indices(0.5, 2.5))
    elif isinstance(obj, nixio.RangeDimension):
        tryp("index_of(2.2)", lambda: obj.index_of(2.2))
        tryp("tick_at(1)", lambda: obj.tick_at(1))
        tryp("axis(2)", lambda: list(obj.axis(2)))
    elif isinstance(obj, nixio.SetDimension):
        tryp("index_of(1.0)", lambda: obj.index_of(1.0))
    elif isinstance(obj, nixio.DataFrame):
        tryp("read_rows(all)", lambda: [list(map(canon_value, r)) for r in obj.read_rows(range(len(obj)))])
        tryp("df_shape", lambda: obj.df_shape)
    elif isinstance(obj, nixio.Section):
        tryp("len", lambda: len(obj))
        tryp("keys", lambda: list(obj.keys()))
    elif isinstance(obj, nixio.DataArray):
        tryp("len", lambda: len(obj))
        tryp("get_slice", lambda: {"array": W.data_hash(obj.get_slice([0] * len(obj.shape), [1] * len(obj.shape))[:])})
    return out


def xintrospect(obj):
    rec = introspect(obj)
    rec.update(probes(obj))
    return rec


def two_handle_sweep(ctx):
    """for one entity of every kind: handle A is obtained and read completely (so that any cache it has is filled);
    then each mutation is made through a second handle B of the same entity, and A must show what a fresh handle
    shows - for every readable property, the data and the method answers in `probes`"""
    fails, evals = [], 0
    path = ctx.tmpfile("c02-two-handles.nix")
    f = nixio.File.open(path, nixio.FileMode.Overwrite)
    try:
        from collections import OrderedDict
        b = f.create_block("b", "t")
        da = b.create_data_array("a", "t", data=np.arange(6.0).reshape(2, 3))
        da.append_sampled_dimension(0.5, offset=0.25)
        da.append_range_dimension([1.0, 2.0, 3.0])
        v = b.create_data_array("v", "t", data=np.array([1, 2, 3], dtype=np.int32))
        v.append_set_dimension(["x", "y", "z"])
        other = b.create_data_array("p2", "t", data=[4.0, 5.0])
        b.create_data_frame("df", "t", col_dict=OrderedDict([("n", int), ("s", str), ("x", float)]),
                            data=[(1, "a", 0.5), (2, "b", 1.5)])
        g = b.create_group("g", "t")
        tg = b.create_tag("tg", "t", [1.0])
        mt = b.create_multi_tag("mt", "t", positions=b.create_data_array("p", "t", data=[1.0, 2.0]))
        tg.create_feature(da, "tagged")
        src = b.create_source("s", "t")
        sec = f.create_section("sec", "t")
        sec.create_property("pf", [1.5, 2.5])
        sec.create_property("pi", [1, 2])
        B = lambda f: f.blocks["b"]
        getters = OrderedDict([
            ("block", B), ("array", lambda f: B(f).data_arrays["a"]), ("int array", lambda f: B(f).data_arrays["v"]),
            ("frame", lambda f: B(f).data_frames["df"]), ("group", lambda f: B(f).groups["g"]),
            ("tag", lambda f: B(f).tags["tg"]), ("multi_tag", lambda f: B(f).multi_tags["mt"]),
            ("feature", lambda f: B(f).tags["tg"].features[0]), ("source", lambda f: B(f).sources["s"]),
            ("section", lambda f: f.sections["sec"]), ("float property", lambda f: f.sections["sec"].props["pf"]),
            ("int property", lambda f: f.sections["sec"].props["pi"]),
            ("sampled dimension", lambda f: B(f).data_arrays["a"].dimensions[0]),
            ("range dimension", lambda f: B(f).data_arrays["a"].dimensions[1]),
            ("set dimension", lambda f: B(f).data_arrays["v"].dimensions[0]),
        ])
        special = {
            "array": [("append a row", lambda h: h.append(np.array([[7.0, 8.0, 9.0]]), axis=0)),
                      ("assign a region", lambda h: h.__setitem__((0, slice(0, 2)), [40.0, 41.0])),
                      ("shrink", lambda h: setattr(h, "data_extent", (2, 3))),
                      ("calibrate", lambda h: setattr(h, "polynom_coefficients", [1.0, 2.0])),
                      ("origin", lambda h: setattr(h, "expansion_origin", 0.5)),
                      ("clear calibration", lambda h: setattr(h, "polynom_coefficients", None)),
                      ("clear origin", lambda h: setattr(h, "expansion_origin", None)),
                      ("add source", lambda h: h.sources.append(B(f).sources["s"])),
                      ("set metadata", lambda h: setattr(h, "metadata", f.sections["sec"]))],
            "int array": [("append", lambda h: h.append(np.array([9], dtype=np.int32), axis=0)),
                          ("write", lambda h: h.write_direct(np.array([5, 6, 7, 8], dtype=np.int32)))],
            "frame": [("append rows", lambda h: h.append_rows([(3, "c", 2.5)])),
                      ("append column", lambda h: h.append_column([1.0, 2.0, 3.0], "y", float)),
                      ("write cell", lambda h: h.write_cell(9, position=(0, 0))),
                      ("write column", lambda h: h.write_column([7.5, 8.5, 9.5], name="x"))],
            "group": [("link array", lambda h: h.data_arrays.append(B(f).data_arrays["a"])),
                      ("link tag", lambda h: h.tags.append(B(f).tags["tg"])),
                      ("unlink array", lambda h: h.data_arrays.__delitem__(0))],
            "tag": [("position", lambda h: setattr(h, "position", [2.0, 1.0])),
                    ("extent", lambda h: setattr(h, "extent", [0.5, 1.0])),
                    ("units", lambda h: setattr(h, "units", ["ms", "mV"])),
                    ("reference", lambda h: h.references.append(B(f).data_arrays["a"])),
                    ("feature", lambda h: h.create_feature(B(f).data_arrays["v"], "untagged"))],
            "multi_tag": [("positions", lambda h: setattr(h, "positions", B(f).data_arrays["p2"])),
                          ("extents", lambda h: setattr(h, "extents", B(f).data_arrays["p2"])),
                          ("no extents", lambda h: setattr(h, "extents", None)),
                          ("reference", lambda h: h.references.append(B(f).data_arrays["a"]))],
            "feature": [("link type", lambda h: setattr(h, "link_type", "indexed")),
                        ("data", lambda h: setattr(h, "data", B(f).data_arrays["v"]))],
            "source": [("child", lambda h: h.create_source("deep", "t"))],
            "section": [("new property", lambda h: h.create_property("q", [1, 2])),
                        ("item assignment", lambda h: h.__setitem__("q", [3, 4, 5])),
                        ("subsection", lambda h: h.create_section("sub", "t")),
                        ("delete property", lambda h: h.props.__delitem__("q"))],
            "float property": [("values", lambda h: setattr(h, "values", [9.5])),
                               ("extend", lambda h: h.extend_values([1.25, 2.25])),
                               ("fewer values", lambda h: setattr(h, "values", [0.5, 0.75]))],
            "int property": [("extend", lambda h: h.extend_values([3, 4])),
                             ("values", lambda h: setattr(h, "values", [7])),
                             ("extend again", lambda h: h.extend_values([8, 9]))],
            "sampled dimension": [("offset", lambda h: setattr(h, "offset", 1.0)),
                                  ("interval", lambda h: setattr(h, "sampling_interval", 0.25)),
                                  ("unit", lambda h: setattr(h, "unit", "ms"))],
            "range dimension": [("ticks", lambda h: setattr(h, "ticks", [2.0, 2.5, 4.0]))],
            "set dimension": [("labels", lambda h: setattr(h, "labels", ["p", "q", "r"]))],
        }
        clock = [1000]
        for kind, get in getters.items():
            A = get(f)
            xintrospect(A)                     # read everything once through A
            muts = []
            for name, writable in readable_props(A):
                if writable and (name in VERBATIM or name == "type"):
                    muts.append(("%s = 'v1'" % name, lambda h, name=name: setattr(h, name, "v1")))
                    muts.append(("%s = 'v2'" % name, lambda h, name=name: setattr(h, name, "v2")))
            if hasattr(A, "force_updated_at"):
                def stamp(h):
                    clock[0] += 7
                    h.force_updated_at(clock[0])
                muts.append(("force_updated_at", stamp))
            muts += special.get(kind, [])
            for desc, mut in muts:
                evals += 1
                try:
                    with contextlib.redirect_stdout(io.StringIO()):
                        mut(get(f))
                except Exception:
                    continue        # a refused call changes nothing (C12); nothing to compare
                got, ref = xintrospect(A), xintrospect(get(f))
                if got != ref:
                    fields = sorted(k for k in set(got) | set(ref) if got.get(k) != ref.get(k))
                    fails.append(Failure(
                        "a live %s handle shows another state than a fresh handle after '%s' was done through a second "
                        "handle of the same entity" % (kind, desc),
                        {"scenario": "two-handle-sweep", "kind": kind, "mutation": desc},
                        {k: got.get(k) for k in fields[:4]}, {k: ref.get(k) for k in fields[:4]},
                        "handle:" + kind.split()[-1]))
                    A = get(f)
                    xintrospect(A)
    finally:
        try:
            f.close()
        except Exception:
            pass
        try:
            os.remove(path)
        except OSError:
            pass
    return fails, evals

# ---- role links: last assignment wins, whatever the target looks like --------------------------------------------


def role_sweep(ctx):
    """every role link (metadata of every kind, Section.link, MultiTag.positions / extents, Feature.data) is assigned
    a sequence of targets - among them targets that are 'empty' (a section without properties, an array / frame of
    length 0: objects whose len() is 0 and whose truth value is therefore False) and None where allowed: after every
    accepted assignment the link leads to the object assigned last (None clears), now and after reopening. Then:
    assigning the value an attribute currently shows (ticks of a linked range dimension = the ticks it reports) must
    have the full effect of the assignment (the labels of a linked set dimension cannot be assigned at all)."""
    fails, evals = [], 0
    path = ctx.tmpfile("c02-roles.nix")
    f = nixio.File.open(path, nixio.FileMode.Overwrite)
    try:
        from collections import OrderedDict
        b = f.create_block("b", "t")
        full = b.create_data_array("full", "t", data=[1.0, 2.0, 3.0])
        empty = b.create_data_array("empty", "t", dtype=nixio.DataType.Double, shape=(0,))
        other = b.create_data_array("other", "t", data=[4.0, 5.0])
        fr_full = b.create_data_frame("frfull", "t", col_dict=OrderedDict([("x", int)]), data=[(1,), (2,)])
        fr_empty = b.create_data_frame("frempty", "t", col_dict=OrderedDict([("x", int)]))
        g = b.create_group("g", "t")
        tg = b.create_tag("tg", "t", [0.0])
        mt = b.create_multi_tag("mt", "t", positions=full)
        ft = tg.create_feature(full, "untagged")
        src = b.create_source("s", "t")
        s_full = f.create_section("sfull", "t")
        s_full.create_property("p", [1])
        s_empty = f.create_section("sempty", "t")
        s_empty2 = f.create_section("sempty2", "t")
        s_full.create_section("sub", "t")
        last = {}

        def assign(desc, get_owner, attr, target, tname):
            nonlocal evals
            evals += 1
            try:
                setattr(get_owner(f), attr, target)
            except Exception:
                return          # refused: C12's subject
            want = None if target is None else target.id
            for how, owner in (("the same session", get_owner(f)),):
                got = getattr(owner, attr)
                gid = None if got is None else got.id
                if gid != want:
                    fails.append(Failure("%s.%s = <%s> does not lead to the object assigned last" % (desc, attr, tname),
                                         {"scenario": "role-sweep", "owner": desc, "attribute": attr,
                                          "assigned": tname}, tname if gid == want else (None if got is None else getattr(got, "name", gid)),
                                         tname, "last-write"))
            last[(desc, attr)] = (get_owner, want, tname)

        B = lambda ff: ff.blocks["b"]
        owners_md = [("block", B), ("group", lambda ff: B(ff).groups["g"]), ("array", lambda ff: B(ff).data_arrays["full"]),
                     ("frame", lambda ff: B(ff).data_frames["frfull"]), ("tag", lambda ff: B(ff).tags["tg"]),
                     ("multi_tag", lambda ff: B(ff).multi_tags["mt"]), ("source", lambda ff: B(ff).sources["s"])]
        sec_seq = [(s_full, "section with a property"), (s_empty, "section without properties"),
                   (s_full, "section with a property"), (s_empty2, "another section without properties"),
                   (None, "None"), (s_empty, "section without properties")]
        for desc, get in owners_md:
            for tgt, tname in sec_seq:
                if tgt is None:
                    evals += 1
                    try:
                        delattr(get(f), "metadata")
                        got = get(f).metadata
                        if got is not None:
                            fails.append(Failure("del %s.metadata leaves a metadata link" % desc,
                                                 {"scenario": "role-sweep", "owner": desc}, got.name, None, "last-write"))
                        last[(desc, "metadata")] = (get, None, "None")
                    except Exception:
                        pass
                else:
                    assign(desc, get, "metadata", tgt, tname)
        for tgt, tname in sec_seq:
            assign("section", lambda ff: ff.sections["sempty2"] if False else ff.sections["sfull"].sections["sub"], "link", tgt, tname)
        arr_seq = [(full, "array of length 3"), (empty, "array of length 0"), (other, "array of length 2"),
                   (empty, "array of length 0"), (full, "array of length 3")]
        for tgt, tname in arr_seq:
            assign("multi_tag", lambda ff: B(ff).multi_tags["mt"], "positions", tgt, tname)
        for tgt, tname in arr_seq + [(None, "None"), (empty, "array of length 0")]:
            assign("multi_tag", lambda ff: B(ff).multi_tags["mt"], "extents", tgt, tname)
        for tgt, tname in arr_seq + [(fr_full, "frame with rows"), (fr_empty, "frame without rows"), (other, "array of length 2")]:
            assign("feature", lambda ff: B(ff).tags["tg"].features[0], "data", tgt, tname)

        # assigning what is currently shown: ticks of a linked range dimension, labels of a linked set dimension
        host = b.create_data_array("host", "t", data=np.zeros((3, 3)))
        rd = host.append_range_dimension()
        rd.link_data_array(full, [-1])
        evals += 1
        shown = tuple(rd.ticks)
        rd.ticks = list(shown)
        rd2 = f.blocks["b"].data_arrays["host"].dimensions[0]
        full.write_direct(np.array([10.0, 20.0, 30.0]))
        st = {"has_link": bool(rd2.has_link), "ticks": [float(x) for x in rd2.ticks]}
        want = {"has_link": False, "ticks": [float(x) for x in shown]}
        if st != want:
            fails.append(Failure("assigning to a linked range dimension the ticks it currently reports did not replace "
                                 "the link by explicit ticks", {"scenario": "role-sweep", "case": "ticks = current ticks"},
                                 st, want, "last-write"))
        full.write_direct(np.array([1.0, 2.0, 3.0]))
        f.close()
        f = nixio.File.open(path, nixio.FileMode.ReadOnly)
        for (desc, attr), (get, want, tname) in last.items():
            evals += 1
            try:
                got = getattr(get(f), attr)
                gid = None if got is None else got.id
            except Exception as e:
                gid = "raises " + type(e).__name__
            if gid != want:
                fails.append(Failure("%s.%s: after close + reopen the link does not lead to the object assigned last (<%s>)"
                                     % (desc, attr, tname), {"scenario": "role-sweep", "owner": desc, "attribute": attr},
                                     gid, want, "last-write"))
    finally:
        try:
            f.close()
        except Exception:
            pass
        try:
            os.remove(path)
        except OSError:
            pass
    return fails, evals


def oracle(ctx, broken, hints):
    n = ctx.budget(12, 80) * (3 if broken else 1)
    steps = ctx.budget(70, 120)
    failures, evals = [], 0
    fs, e = fixed_scenarios(ctx)
    failures += fs
    evals += e
    fs, e = attribute_sweep(ctx)
    failures += fs
    evals += e
    fs, e = two_handle_sweep(ctx)
    failures += fs
    evals += e
    fs, e = role_sweep(ctx)
    failures += fs
    evals += e
    for k in range(n):
        fs, e = rich_scenario(ctx, "C02-rich/%d/%d" % (ctx.seed, k), steps)
        failures += fs
        evals += e
        if len(failures) > 8:
            break
    best = {}
    for f in failures:
        key = (f.what, f.site)
        if key not in best or len(core.canon(f.input)) < len(core.canon(best[key].input)):
            best[key] = f
    return {"evaluations": evals, "failures": list(best.values()), "scenarios": n}


def matches_known(entry, failure):
    return False        # no open finding for C02: both defects found were repaired in /repo


def reproduces(ctx, entry):
    return False


def replay_failure(ctx, fj):
    inp = fj.get("input") or {}
    if inp.get("scenario") == "rich" and "key" in inp:
        fs, _ = rich_scenario(ctx, inp["key"], int(inp.get("steps", 70)))
    elif inp.get("scenario") == "attribute-sweep":
        fs, _ = attribute_sweep(ctx)
    elif inp.get("scenario") == "two-handle-sweep":
        fs, _ = two_handle_sweep(ctx)
    elif inp.get("scenario") == "role-sweep":
        fs, _ = role_sweep(ctx)
    else:
        fs, _ = fixed_scenarios(ctx)
    for f in fs:
        if f.what == fj.get("what"):
            return f
    return fs[0] if fs else None
