"""C12 — single-valued attributes: the setters that end in set_attr on the real nixio against Pure/AttrWrite.lean run on
Generated/AttrOrder.lean.

A case = (setter, attribute present or absent before the call, offered value).  The value is abstracted the way the
model sees it by PROBING it: None-ness, isinstance of the type the setter names, whether the setter's normalisation
(nixio's own sanitizer / float() / LinkType()) raises and what it yields, whether that is text, whether the text can
be stored, whether h5py stores the value at all (tried on a scratch attribute of an in-memory file).
"""
import decimal
import fractions
from numbers import Number

import h5py
import numpy as np
import nixio
from nixio import util

# setter (name in AttrOrder.all) -> (scene key of the owner, attribute, type asked, normalisation, a valid previous value,
#                                    stamp expected on the owner); MANDATORY: the state "no value" is not offered
STR, NUM = "str", "number"
SETTERS = {
    "Entity.definition": ("da", "definition", STR, None, "old text", True),
    "Entity.type": ("t", "type", STR, None, "old type", True),
    "DataArray.expansion_origin": ("da", "expansion_origin", NUM, None, 0.25, True),
    "DataArray.label": ("da", "label", STR, None, "old label", True),
    "DataArray.unit": ("da", "unit", STR, "unit", "s", True),
    "Dimension.label": ("sd", "label", STR, None, "old label", False),
    "SampledDimension.sampling_interval": ("sm", "sampling_interval", NUM, None, 0.25, False),
    "SampledDimension.unit": ("sm", "unit", STR, None, "s", False),
    "SampledDimension.offset": ("sm", "offset", NUM, None, 0.25, False),
    "RangeDimension.label": ("rd", "label", STR, None, "old label", False),
    "RangeDimension.unit": ("rd", "unit", STR, None, "s", False),
    "Property.definition": ("pr", "definition", STR, None, "old text", True),
    "Property.unit": ("pr", "unit", STR, "unit", "s", True),
    "Property.uncertainty": ("pr", "uncertainty", NUM, "float", 0.25, True),
    "Property.reference": ("pr", "reference", STR, None, "old text", True),
    "Property.dependency": ("pr", "dependency", STR, None, "old text", True),
    "Property.dependency_value": ("pr", "dependency_value", STR, None, "old text", True),
    "Property.value_origin": ("pr", "value_origin", STR, None, "old text", True),
    "Section.reference": ("s", "reference", STR, None, "old text", True),
    "Section.repository": ("s", "repository", STR, None, "old text", True),
    "Feature.link_type": ("ft", "link_type", None, "linktype", "tagged", True),
}
MANDATORY = ("Entity.type", "SampledDimension.sampling_interval", "Feature.link_type")


class _Str(str):
    pass


VALUES = [
    ("none", lambda: None), ("text", lambda: "some text"), ("unit-text", lambda: "mV"), ("empty", lambda: ""),
    ("blank", lambda: "  "), ("nul-text", lambda: "a\x00b"), ("surrogate-text", lambda: "a\udc80b"),
    ("np-str", lambda: np.str_("kV")), ("str-subclass", lambda: _Str("Hz")), ("bytes", lambda: b"ms"),
    ("int", lambda: 5), ("zero", lambda: 0), ("float", lambda: 1.5), ("true", lambda: True), ("nan", lambda: float("nan")),
    ("complex", lambda: 1 + 2j), ("huge-int", lambda: 2 ** 70), ("fraction", lambda: fractions.Fraction(1, 2)),
    ("decimal", lambda: decimal.Decimal("0.5")), ("np-float32", lambda: np.float32(2.5)), ("np-int8", lambda: np.int8(3)),
    ("np-longdouble", lambda: np.longdouble(1.5)), ("0-d", lambda: np.array(2.5)), ("array", lambda: np.array([1.0, 2.0])),
    ("list-text", lambda: ["a"]), ("list-num", lambda: [1.0]), ("object", lambda: object()), ("numstr", lambda: "1.5"),
    ("linktype-text", lambda: "untagged"), ("linktype-upper", lambda: "INDEXED"), ("linktype-enum", lambda: nixio.LinkType.Indexed),
    ("dict", lambda: {"a": 1}),
]
VALUE_INDEX = dict(VALUES)


def all_cases():
    out = []
    for setter, spec in sorted(SETTERS.items()):
        for present in ((True,) if setter in MANDATORY else (True, False)):
            for vlabel, _ in VALUES:
                out.append({"setter": setter, "present": present, "value": vlabel})
    return out


def _normalise(kind, v):
    """what the setter does to the value before set_attr; raises what the setter would raise"""
    if kind == "unit":
        if v:
            v = util.units.sanitizer(v)
        if v == "":
            v = None
        return v
    if kind == "float":
        return float(v) if v is not None else None
    if kind == "linktype":
        if isinstance(v, str):
            v = v.lower()
        return nixio.LinkType(v).value
    return v


_SCRATCH = {}


def _h5_stores(v):
    if "f" not in _SCRATCH:
        _SCRATCH["f"] = h5py.File("c12-attr-probe", "w", driver="core", backing_store=False)
    try:
        _SCRATCH["f"].attrs["probe"] = v
        return True
    except Exception:       # noqa
        return False


def abstract(case):
    """the arguments of the driver's attr_run"""
    owner, attr, typ, norm, prev, stamps = SETTERS[case["setter"]]
    v = VALUE_INDEX[case["value"]]()
    is_none = v is None
    type_ok = True if typ is None else isinstance(v, str if typ == STR else Number)
    # the normalisation runs before the type check for units (sanitizer), after it for the uncertainty
    norm_ok, nv = True, v
    if norm is not None and (norm != "float" or is_none or type_ok):
        try:
            nv = _normalise(norm, v)
        except Exception:       # noqa
            norm_ok, nv = False, v
    if norm == "unit" and norm_ok:
        is_none_after = nv is None
        type_ok = isinstance(nv, str) or is_none_after       # the type check sees the sanitised unit
        is_none = is_none_after
    is_text = isinstance(nv, str)
    storable = True
    if is_text:
        try:
            util.check_text_storable(str(nv))
        except Exception:       # noqa
            storable = False
    has_type = True if is_text else (nv is None or _h5_stores(nv))
    return ["attr_run", case["setter"], [is_none, type_ok, norm_ok, nv is None, is_text, storable, has_type], case["present"]]


def _raw(grp, attr):
    if attr not in grp.attrs:
        return None
    v = grp.attrs[attr]
    return repr(v.tolist() if isinstance(v, np.ndarray) else v)


def _h5(obj):
    d = getattr(obj, "_h5dataset", None)
    if d is not None:
        return d.dataset
    return obj._h5group.group


def run(c, case):
    owner, attr, typ, norm, prev, stamps = SETTERS[case["setter"]]
    o = c[owner]
    if case["present"]:
        setattr(o, attr, prev)
    else:
        setattr(o, attr, None)
    grp = _h5(o)
    before, sbefore = _raw(grp, attr), _raw(grp, "updated_at")
    v = VALUE_INDEX[case["value"]]()
    err = None
    try:
        setattr(o, attr, v)
    except Exception as e:      # noqa
        err = next((k.__name__ for k in (AttributeError, TypeError, ValueError, KeyError, RuntimeError) if isinstance(e, k)),
                   type(e).__name__)
    after, safter = _raw(grp, attr), _raw(grp, "updated_at")
    return {"err": err, "attr": None if after is None else "old" if after == before else "new",
            "stamped": safter != sbefore if stamps else None, "changed": (after, safter) != (before, sbefore)}


def canon_impl(i, abstraction):
    return {"refused": i["err"] is not None, "err": i["err"] if abstraction[2][2] else None, "attr": i["attr"],
            "stamped": i["stamped"]}


def canon_model(m, case, abstraction):
    if "ok" not in m:
        return {"model": m}
    o = m["ok"]
    stamps = SETTERS[case["setter"]][5]
    return {"refused": o["err"] is not None, "err": o["err"] if abstraction[2][2] else None, "attr": o["attr"],
            "stamped": o["stamped"] if stamps else None}
